SPECIFICATION TraceSpec
CONSTANTS
  BUF0 = 1
  MaxChunk = 1
  RecLens = {2}
  MaxRecs = 1
  MaxZeros = 1
  MaxSteps = 1
  Defect_IsEmptyDrained = FALSE
INVARIANTS TraceTypeOK
POSTCONDITION TraceAccepted
CHECK_DEADLOCK FALSE
