---------------------------- MODULE Trace_Distro ----------------------------
(***************************************************************************)
(* Trace validation of registry histories recorded on a REAL three-node    *)
(* cluster against Distro.tla.                                             *)
(*                                                                         *)
(* Logged: the connections and the node each one is on (first record),     *)
(* every acknowledged register / deregister over a connection, connection  *)
(* close, node kill and restart, the points at which the driver had waited *)
(* for the sync and anti-entropy intervals to pass ("settle"), and the     *)
(* instances (address, owning connection) every live node then returned.   *)
(* Not logged: the sync messages.  TSettle is the composition of every     *)
(* pending Deliver, Notice and DistroRound step: the state that Converges  *)
(* (model-checked on Distro.tla) says is reached.                          *)
(***************************************************************************)
EXTENDS Distro, Sequences, Json, IOUtils

Rec == ndJsonDeserialize(IOEnv.TRACE)
Range(s) == {s[i] : i \in 1..Len(s)}
TConn == {x.c : x \in Range(Rec[1].conns)}
THome == [c \in TConn |-> (CHOOSE x \in Range(Rec[1].conns) : x.c = c).home]

\* instances registered over HTTP have no owning connection: contract level only - the set of addresses registered
\* and not deregistered (through whichever node); every live node returns exactly that set once settled
VARIABLES l, hset
tvars == <<vars, l, hset>>
\* hset: address -> the weight a query must show (session 6: "the same set of instances (address, health, enabled state and
\* weight)" also for HTTP instances).  A registration with weight 1 does not give a weight (InstanceUpdateTag): an instance
\* that is there keeps its own, a new one gets 1.  Heart-beats (hbeat) change nothing a query shows - through whichever node
\* they come - so HTTP reads (hread) are judged without settling.
HPut(f, k, v) == [x \in (DOMAIN f) \cup {k} |-> IF x = k THEN v ELSE f[x]]
HDel(f, k) == [x \in (DOMAIN f) \ {k} |-> f[x]]
HShown(hv) == {<<x.a, x.w>> : x \in Range(hv)}
HExpected == {<<a, hset[a]>> : a \in DOMAIN hset}
TraceInit == Init /\ l = 2 /\ hset = [a \in {} |-> 0]
IsEvent(e) == l <= Len(Rec) /\ Rec[l].ev = e /\ l' = l + 1

TReg == IsEvent("reg") /\ Register(Rec[l].c, Rec[l].a, Rec[l].at) /\ UNCHANGED hset
TDereg == IsEvent("dereg") /\ Deregister(Rec[l].c, Rec[l].a) /\ UNCHANGED hset
TClose == IsEvent("close") /\ Close(Rec[l].c) /\ UNCHANGED hset
TDie == IsEvent("die") /\ Die(Rec[l].n) /\ UNCHANGED hset
TStart == IsEvent("start") /\ Start(Rec[l].n) /\ UNCHANGED hset
THReg == /\ IsEvent("hreg")
         /\ hset' = HPut(hset, Rec[l].a, IF Rec[l].w = 1 /\ Rec[l].a \in DOMAIN hset THEN hset[Rec[l].a] ELSE Rec[l].w)
         /\ UNCHANGED vars
THDereg == IsEvent("hdereg") /\ hset' = HDel(hset, Rec[l].a) /\ UNCHANGED vars
THBeat == IsEvent("hbeat") /\ Rec[l].a \in DOMAIN hset /\ UNCHANGED <<vars, hset>>
THRead == IsEvent("hread") /\ HShown(Rec[l].hview) = HExpected /\ UNCHANGED <<vars, hset>>

\* owner of address a in the converged state (0 = nobody)
OwnerOf(a) == IF \E o \in Node : alive[o] /\ a \in DOMAIN inst[o] /\ inst[o][a].from = 0
              THEN CHOOSE o \in Node : alive[o] /\ a \in DOMAIN inst[o] /\ inst[o][a].from = 0 ELSE 0
TSettle ==
    /\ IsEvent("settle")
    /\ msgs' = [p \in Pairs |-> <<>>]
    /\ inst' = [n \in Node |-> IF ~alive[n] THEN inst[n]
                               ELSE [a \in {z \in Addr : OwnerOf(z) # 0} |->
                                        [client |-> inst[OwnerOf(a)][a].client, from |-> IF OwnerOf(a) = n THEN 0 ELSE OwnerOf(a),
                                         attr |-> inst[OwnerOf(a)][a].attr]]]
    /\ cidx' = [n \in Node |-> IF ~alive[n] THEN cidx[n]
                               ELSE [c \in {x \in Conn : \E a \in Addr : OwnerOf(a) # 0 /\ inst[OwnerOf(a)][a].client = x} |->
                                        {a \in Addr : OwnerOf(a) # 0 /\ inst[OwnerOf(a)][a].client = c}]]
    /\ UNCHANGED <<alive, open, ops, hset>>

TRead ==
    /\ IsEvent("read")
    /\ View(Rec[l].n) = {<<x.a, x.c, x.at>> : x \in Range(Rec[l].view)}
    /\ HShown(Rec[l].hview) = HExpected
    /\ UNCHANGED <<vars, hset>>

\* an HTTP update (console / open API) of an address that a gRPC connection holds: it is applied by the node responsible for
\* the SERVICE, which need not be the connection's node, and travels from there.  The property asks for agreement, not for a
\* winner: the holder's record ends with the new attributes or keeps the old ones - every node must then show the same
THUpd ==
    /\ IsEvent("hupd")
    /\ LET a == Rec[l].a
           o == OwnerOf(a)
       IN /\ o # 0
          /\ \E keep \in BOOLEAN :
                inst' = IF keep THEN inst ELSE [inst EXCEPT ![o] = [@ EXCEPT ![a] = [@ EXCEPT !.attr = Rec[l].at]]]
    /\ UNCHANGED <<msgs, cidx, alive, open, ops, hset>>

TraceNext == TReg \/ TDereg \/ TClose \/ TDie \/ TStart \/ THReg \/ THDereg \/ THUpd \/ THBeat \/ THRead \/ TSettle \/ TRead
TraceSpec == TraceInit /\ [][TraceNext]_tvars

TraceAccepted ==
    LET d == TLCGet("stats").diameter IN
    IF d = Len(Rec) THEN TRUE
    ELSE Print(<<"TRACE-REJECTED at line", d + 1, Rec[d + 1]>>, FALSE)
=============================================================================
