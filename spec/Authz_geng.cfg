SPECIFICATION Spec
CONSTANTS Mode = "geng"
INVARIANTS GenG
CHECK_DEADLOCK FALSE
