SPECIFICATION SpecB
CONSTANTS
  Node = {"n1", "n2"}
  Key = {"k"}
  STEP = 2
  BATCH = 2
  MaxIssued = 0
  MaxLog = 6
  AllowReorder = FALSE
  Bug_SkipMarkOnNoChange = TRUE
INVARIANTS UniqueB MonotoneB
CHECK_DEADLOCK FALSE
