SPECIFICATION Spec
CONSTANTS
  MaxLen = 6
  MaxOps = 100000
  MaxTerm = 4
  Sizes = {1, 2}
  MaxBatch = 3
  Bug_TruncateKeepsK = FALSE
  WithCompaction = TRUE
VIEW View
INVARIANTS TypeOK ContiguousInv TermsInv IdsUnique
PROPERTIES TruncateExact ReopenIdentity
CHECK_DEADLOCK FALSE
