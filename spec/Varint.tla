------------------------------- MODULE Varint -------------------------------
(***************************************************************************)
(* Base-128 varints as digit sequences (TLC integers are 32-bit, so a u64  *)
(* is modelled by its little-endian base-B digits, B = 128 in the code).   *)
(* Digits are abstracted to three classes: 0, 1 and "max" (B-1), written   *)
(* 0, 1, 2.  The canonical encoding of a value with n significant digits   *)
(* is n bytes, each carrying one digit, with the continuation flag set on  *)
(* all but the last.  Writer, reader and size function must agree:         *)
(*     Decode(Encode(d)) = d   /\   Len(Encode(d)) = Size(d)               *)
(* TLC enumerates every digit pattern of length 1..MaxDigits; each pattern *)
(* is one implementation test (rnverif replay varint) on the real          *)
(* write_varint64 / read_varint64 / inner_sizeof_varint.                   *)
(***************************************************************************)
EXTENDS Naturals, Sequences, TLC, Json

CONSTANTS MaxDigits

VARIABLES d, done

Digit == {0, 1, 2}

\* canonical digit strings: most significant digit non-zero unless the value is 0
Canonical(s) == Len(s) = 1 \/ s[Len(s)] # 0

Patterns == UNION {{s \in [1..n -> Digit] : Canonical(s)} : n \in 1..MaxDigits}

Encode(s) == [i \in 1..Len(s) |-> [digit |-> s[i], cont |-> i < Len(s)]]

\* reader: consume bytes up to and including the first one without continuation flag
RECURSIVE DecodeFrom(_, _)
DecodeFrom(bytes, i) ==
    IF i > Len(bytes) THEN <<>>
    ELSE IF bytes[i].cont THEN <<bytes[i].digit>> \o DecodeFrom(bytes, i + 1)
    ELSE <<bytes[i].digit>>
Decode(bytes) == DecodeFrom(bytes, 1)

Size(s) == Len(s)

Init == d \in Patterns /\ done = FALSE
Next == ~done /\ done' = TRUE /\ d' = d
Spec == Init /\ [][Next]_<<d, done>>

RoundTrip == Decode(Encode(d)) = d
SizeAgrees == Len(Encode(d)) = Size(d)
\* trailing garbage after the terminator is not consumed
StopsAtTerminator == Decode(Encode(d) \o <<[digit |-> 1, cont |-> FALSE]>>) = d

Export == done => PrintT(<<"REPLAY", ToJson([digits |-> d, width |-> Size(d)])>>)
=============================================================================
