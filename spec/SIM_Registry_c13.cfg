SPECIFICATION SimSpec
CONSTANTS
  Svcs = {"s1"}
  Addrs = {"a1", "a2", "a3"}
  Conns = {"c1", "c2"}
  Nodes = {"n1"}
  H = 1
  T = 3
  MaxNow = 10
  MaxOps = 18
  SimKinds <- KindsExpiry
  SyncHttpClientIds = FALSE
  Record = TRUE
  Defect_NoArmOnSync = FALSE
  Defect_TakeoverKeepsOrigin = FALSE
  Defect_EchoRemovesFlipped = FALSE
  Defect_ClientSetBeforeOwner = FALSE
INVARIANTS ExportBehaviour
CHECK_DEADLOCK FALSE
