-------------------------- MODULE SimConfigCluster --------------------------
(***************************************************************************)
(* Generation wrapper for ConfigCluster.tla: a step first picks the KIND   *)
(* of action (weighted), then one of its instances, and appends what a     *)
(* node-level replay needs to `hist`: the committed entries, and for every *)
(* step that touches a node (apply, echo, compaction, crash, restart) the  *)
(* values that node serves afterwards.  The behaviours are behaviours of   *)
(* ConfigCluster!Spec (with stuttering).                                   *)
(***************************************************************************)
EXTENDS ConfigCluster, Json

CONSTANT MaxOps
VARIABLES pending, ops, hist
svars == <<vars, pending, ops, hist>>

Kinds == <<"call", "call", "call", "commit", "commit", "commit", "ok", "ok", "ok", "ok", "err", "echo", "echo", "echo", "echo",
           "apply", "apply", "apply", "apply",
           "crash", "compact", "compact", "restart", "restart", "elect">>

ObsOf(n) == [k \in Key |-> Serve(n, k)']
Rec(r) == /\ ops' = ops + 1 /\ hist' = Append(hist, r)
Quiet == /\ ops' = ops /\ hist' = hist

SimInit == Init /\ pending = "none" /\ ops = 0 /\ hist = <<>>

SimNext ==
    \/ /\ pending = "none" /\ ops < MaxOps
       /\ IF ops = MaxOps - 1 THEN pending' = "fin" ELSE \E i \in 1..Len(Kinds) : pending' = Kinds[i]
       /\ UNCHANGED vars /\ Quiet
    \/ /\ pending = "call" /\ pending' = "none" /\ Quiet
       /\ \E id \in Ids, n \in Node, k \in Key, d \in BOOLEAN : Call(id, n, k, d)
    \/ /\ pending = "commit" /\ pending' = "none"
       /\ \E id \in Ids : Commit(id) /\ Rec([op |-> "commit", id |-> id, k |-> reqs[id].k, del |-> reqs[id].del, idx |-> Len(clog) + 1])
    \/ /\ pending = "ok" /\ pending' = "none" /\ Quiet /\ \E id \in Ids : AnswerOk(id)
    \/ /\ pending = "err" /\ pending' = "none" /\ Quiet /\ \E id \in Ids : AnswerErr(id)
    \/ /\ pending = "echo" /\ pending' = "none"
       /\ \E n \in Node, id \in Ids : Echo(n, id) /\ Rec([op |-> "echo", n |-> n, id |-> id, k |-> reqs[id].k, obs |-> ObsOf(n)])
    \/ /\ pending = "apply" /\ pending' = "none"
       /\ \E n \in Node : Apply(n) /\ Rec([op |-> "apply", n |-> n, idx |-> applied[n] + 1, obs |-> ObsOf(n)])
    \/ /\ pending = "crash" /\ pending' = "none"
       /\ \E n \in Node : Crash(n) /\ Rec([op |-> "crash", n |-> n])
    \/ /\ pending = "compact" /\ pending' = "none"
       /\ \E n \in Node : Compact(n) /\ Rec([op |-> "compact", n |-> n, idx |-> applied[n], obs |-> ObsOf(n)])
    \/ /\ pending = "restart" /\ pending' = "none"
       /\ \E n \in Node : Restart(n) /\ Rec([op |-> "restart", n |-> n, obs |-> ObsOf(n)])
    \/ /\ pending = "elect" /\ pending' = "none" /\ Quiet /\ \E n \in Node : Elect(n)
    \/ /\ pending = "fin" /\ pending' = "none" /\ UNCHANGED vars /\ Rec([op |-> "end"])
    \/ /\ pending \notin {"none", "fin"} /\ ops < MaxOps - 1
       /\ pending' = "none" /\ UNCHANGED vars /\ Quiet   \* kind not enabled: skip

SimSpec == SimInit /\ [][SimNext]_svars
Done == ops = MaxOps
ExportBehaviour == Done => PrintT(<<"REPLAY", ToJson([steps |-> hist])>>)
=============================================================================
