-------------------------- MODULE SimConfigCenter --------------------------
(* kind-first generation wrapper for ConfigCenter.tla (see SimStateMachine.tla) *)
EXTENDS MC_ConfigCenter

VARIABLE pending

SimInit == Init /\ pending = "none"

KindsStore == {"publish", "publish", "remove", "import", "echo"}
KindsNotify == {"publish", "remove", "listen", "listen_current", "tick", "subscribe", "unsubscribe", "disconnect"}

SimNext ==
    \/ /\ pending = "none" /\ ops < MaxOps
       /\ \E k \in (IF WithListeners THEN KindsNotify ELSE KindsStore) : pending' = k
       /\ UNCHANGED vars
    \/ /\ pending = "publish" /\ pending' = "none" /\ \E k \in Keys, v \in Contents, ty \in Types \cup {""}, e \in BOOLEAN : ((~e \/ (WithListeners /\ ty = "")) /\ Publish(k, v, ty, e))
    \/ /\ pending = "remove" /\ pending' = "none" /\ \E k \in Keys : Remove(k)
    \/ /\ pending = "import" /\ pending' = "none" /\ \E k \in Keys, v \in Contents, hs \in ImportHist : Import(k, v, hs)
    \/ /\ pending = "echo" /\ pending' = "none" /\ \E k \in Keys, v \in Contents : Echo(k, v)
    \/ /\ pending = "listen" /\ pending' = "none" /\ \E l \in Lids, items \in ItemSets, dt \in {0, 1, 100, 100} : (l = Cardinality(usedL) + 1 /\ Listen(l, items, dt))
    \* a client that holds the CURRENT md5 of every key it asks about: gets registered
    \/ /\ pending = "listen_current" /\ pending' = "none"
       /\ \E l \in Lids, ks \in (SUBSET Keys) \ {{}}, dt \in {1, 100} :
            (l = Cardinality(usedL) + 1 /\ Listen(l, [k \in ks |-> Md5(k)], dt))
    \/ /\ pending = "tick" /\ pending' = "none" /\ Tick
    \/ /\ pending = "subscribe" /\ pending' = "none" /\ \E c \in Clients, items \in ItemSets : Subscribe(c, items)
    \/ /\ pending = "unsubscribe" /\ pending' = "none" /\ \E c \in Clients, ks \in SUBSET Keys : Unsubscribe(c, ks)
    \/ /\ pending = "disconnect" /\ pending' = "none" /\ \E c \in Clients : Disconnect(c)
    \/ /\ pending \in {"tick", "unsubscribe", "disconnect", "listen", "listen_current"} /\ pending' = "none" /\ UNCHANGED vars

SimSpec == SimInit /\ [][SimNext]_<<vars, pending>>
=============================================================================
