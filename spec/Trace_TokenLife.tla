-------------------------- MODULE Trace_TokenLife --------------------------
(***************************************************************************)
(* Trace validation for TokenLife.tla: the recorded life of ONE real       *)
(* access token on the real OpenAPI middleware - the login, then requests  *)
(* carrying the token every few hundred milliseconds until well after its  *)
(* life time, optionally a node restart in between.  Recorded times are    *)
(* milliseconds since the login; the life time is in the login event.      *)
(* A request is explained by the model iff its outcome is possible at SOME *)
(* model time within Slack ms of the recorded time (clock granularity of   *)
(* the store: whole seconds; scheduling): strictly inside the life time it *)
(* must be served, beyond life time + Keep + Slack it must be refused.     *)
(***************************************************************************)
EXTENDS Naturals, Sequences, TLC, Json, IOUtils

CONSTANTS Keep, Slack          \* ms

Rec == ndJsonDeserialize(IOEnv.TRACE)
VARIABLES l, ttl, bad
tvars == <<l, ttl, bad>>

TraceInit == l = 1 /\ ttl = 0 /\ bad = FALSE
IsEvent(e) == l <= Len(Rec) /\ Rec[l].event = e /\ l' = l + 1

TLogin == IsEvent("login") /\ ttl' = Rec[l].ttl_ms /\ UNCHANGED bad
TRestart == IsEvent("restart") /\ UNCHANGED <<ttl, bad>>
\* TokenLife!Use, with the time known only up to Slack
TUse ==
    /\ IsEvent("use") /\ ttl > 0
    /\ LET t == Rec[l].t_ms
           d == Rec[l].decision IN
         /\ d = "served" => t < ttl + Keep + Slack              \* RefusedAfterExpiry
         /\ d = "refused" => t + Slack >= ttl                   \* ServedWhileValid
    /\ UNCHANGED <<ttl, bad>>

TraceNext == TLogin \/ TRestart \/ TUse
TraceSpec == TraceInit /\ [][TraceNext]_tvars

TraceAccepted ==
    LET d == TLCGet("stats").diameter IN
    IF d - 1 = Len(Rec) THEN TRUE
    ELSE Print(<<"TRACE-REJECTED at line", d, Rec[d]>>, FALSE)
=============================================================================
