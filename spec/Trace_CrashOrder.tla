-------------------------- MODULE Trace_CrashOrder --------------------------
(***************************************************************************)
(* Trace validation of the file-mutation journal of a REAL node (strace)   *)
(* against the order discipline of CrashOrder.tla: every mutation of a     *)
(* store file is one journal line and must be a step of the corresponding  *)
(* action - with its guard.  Catalogue writes carry the record decoded by  *)
(* the store's own types.  A mutation for which the model has no action    *)
(* (for example a set_len of the catalogue file) is logged as "other" and  *)
(* rejects the journal unless the matching Defect_* constant is switched   *)
(* on - and TLC shows for each of those that Recoverable fails.            *)
(***************************************************************************)
EXTENDS CrashOrder, Json, IOUtils

Rec == ndJsonDeserialize(IOEnv.TRACE)
TLogIds == 0..400
TSnapIds == 1..400
Range(s) == {s[i] : i \in 1..Len(s)}

VARIABLE l
tvars == <<vars, l>>
TraceInit == Init /\ l = 1
IsEvent(e) == l <= Len(Rec) /\ Rec[l].ev = e /\ l' = l + 1

CatOf(r) == [logs |-> [id \in {x.id : x \in Range(r.logs)} |->
                         LET x == CHOOSE y \in Range(r.logs) : y.id = id IN [start |-> x.start, count |-> x.count, closed |-> x.closed]],
             snaps |-> [i \in 1..Len(r.snaps) |-> [id |-> r.snaps[i].id, end |-> r.snaps[i].end]]]

TCat == IsEvent("cat") /\ CatWrite(CatOf(Rec[l]))
TCatTruncate == IsEvent("cat_truncate") /\ CatTruncate
TApplied == IsEvent("applied") /\ AppliedWrite
TLogOpen == IsEvent("log_open") /\ LogOpen(Rec[l].id)
TLogHeader == IsEvent("log_header") /\ LogHeader(Rec[l].id)
TLogSetLen == IsEvent("log_setlen") /\ LogSetLen(Rec[l].id)
TLogData == IsEvent("log_data") /\ LogData(Rec[l].id)
TLogUnlink == IsEvent("log_unlink") /\ LogUnlink(Rec[l].id)
TSnapCreate == IsEvent("snap_create") /\ SnapCreate(Rec[l].id)
TSnapWrite == IsEvent("snap_write") /\ SnapWrite(Rec[l].id)
TSnapUnlink == IsEvent("snap_unlink") /\ SnapUnlink(Rec[l].id)
\* a new process on the same directory (the journal of a restarted node continues): nothing on disk changes
TRestart == IsEvent("restart") /\ UNCHANGED vars

TraceNext == TCat \/ TCatTruncate \/ TApplied \/ TLogOpen \/ TLogHeader \/ TLogSetLen \/ TLogData \/ TLogUnlink
             \/ TSnapCreate \/ TSnapWrite \/ TSnapUnlink \/ TRestart
TraceSpec == TraceInit /\ [][TraceNext]_tvars

TraceAccepted ==
    LET d == TLCGet("stats").diameter IN
    IF d - 1 = Len(Rec) THEN TRUE
    ELSE Print(<<"TRACE-REJECTED at line", d, Rec[d]>>, FALSE)
=============================================================================
