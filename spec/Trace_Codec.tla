---------------------------- MODULE Trace_Codec ----------------------------
(***************************************************************************)
(* Trace validation for Codec.tla: a trace recorded from the real          *)
(* MessageBufReader (rnverif record codec) is accepted iff every event is  *)
(* a step of the ABSTRACT contract (AbsFeed / AbsNext) and the observed    *)
(* results (record handed out, bytes equal, is_empty) are the ones the     *)
(* contract prescribes.  Real byte counts; the impl-shaped variables are   *)
(* not used.  Several streams are concatenated with `reset` events.        *)
(***************************************************************************)
EXTENDS Codec, IOUtils

Rec == ndJsonDeserialize(IOEnv.TRACE)

VARIABLE l      \* index of the next trace line to consume

tvars == <<vars, l>>

TraceInit ==
    /\ l = 1
    /\ stream = <<>> /\ zeros = 0 /\ fed = 0 /\ pos = 0 /\ nrec = 0
    /\ buf = <<>> /\ bstart = 0 /\ bend = 0 /\ started = FALSE /\ hist = <<>>

IsEvent(e) == l <= Len(Rec) /\ Rec[l].event = e /\ l' = l + 1

TraceReset ==
    /\ IsEvent("reset")
    /\ stream' = [i \in 1..Len(Rec[l].lens) |-> [len |-> Rec[l].lens[i], zb |-> FALSE]]
    /\ zeros' = Rec[l].zeros
    /\ fed' = 0 /\ pos' = 0 /\ nrec' = 0
    /\ UNCHANGED <<buf, bstart, bend, started, hist>>

TraceFeed ==
    /\ IsEvent("feed")
    /\ AbsFeed(Rec[l].n)
    /\ Rec[l].empty = EmptyAt(pos, fed')
    /\ UNCHANGED <<buf, bstart, bend, started, hist>>

TraceNext ==
    /\ IsEvent("next")
    /\ AbsNext(Rec[l].rec)
    /\ Rec[l].match
    /\ Rec[l].empty = EmptyAt(pos', fed)
    /\ UNCHANGED <<buf, bstart, bend, started, hist>>

TraceNextStep == TraceReset \/ TraceFeed \/ TraceNext

TraceSpec == TraceInit /\ [][TraceNextStep]_tvars

TraceTypeOK == fed \in 0..Total /\ pos \in 0..fed /\ nrec \in 0..Len(stream)

\* acceptance: one state per consumed line plus the initial state
TraceAccepted ==
    LET d == TLCGet("stats").diameter IN
    IF d - 1 = Len(Rec) THEN TRUE
    ELSE Print(<<"TRACE-REJECTED at line", d, Rec[d]>>, FALSE)
=============================================================================
