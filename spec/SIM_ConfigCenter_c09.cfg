SPECIFICATION SimSpec
CONSTANTS
  OddImports <- OddOn
  Keys <- MCKeysSim
  Contents = {"a", "b", "c"}
  Types = {"json", "yaml"}
  Lids = {1}
  Clients = {"c1"}
  HistMax = 100
  MaxOps = 12
  Bug_WakeOnlyOldest = FALSE
  WithListeners = FALSE
INVARIANTS ExportBehaviour
CHECK_DEADLOCK FALSE
