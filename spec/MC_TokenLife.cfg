SPECIFICATION Spec
CONSTANTS
  Ttl = 3
  Keep = 1
  MaxNow = 9
  Defect_SlidingWindow = FALSE
INVARIANTS RefusedAfterExpiry ServedWhileValid
CHECK_DEADLOCK FALSE
