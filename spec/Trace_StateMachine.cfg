SPECIFICATION TraceSpec
CONSTANTS
  CKeys = {"k1"}
  Contents = {"a"}
  NsIds = {"n1"}
  NsNames = {"x"}
  UKeys = {"u1"}
  UVals = {"p"}
  SKeys = {"s1"}
  CTypes = {""}
  CDescs = {""}
  IKeys = {}
  IWeights = {}
  CaKeys = {}
  CaVals = {}
  TKeys = {}
  TVals = {}
  SrvIds = {}
  Defect_McpStickyRefs = FALSE
  Defect_McpRcLostAtSnapshot = FALSE
  HistMax = 100
  MaxLog = 1
  MaxOps = 1
  Defect_StaleSnapshotTail = FALSE
  Defect_NonAtomicCapture = FALSE
POSTCONDITION TraceAccepted
CHECK_DEADLOCK FALSE
