SPECIFICATION TraceSpec
CONSTANTS
  CKeys = {"k1"}
  Contents = {"a"}
  NsIds = {"n1"}
  NsNames = {"x"}
  UKeys = {"u1"}
  UVals = {"p"}
  SKeys = {"s1"}
  HistMax = 100
  MaxLog = 1
  MaxOps = 1
  Defect_StaleSnapshotTail = FALSE
  Defect_NonAtomicCapture = FALSE
POSTCONDITION TraceAccepted
CHECK_DEADLOCK FALSE
