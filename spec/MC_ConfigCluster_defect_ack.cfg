SPECIFICATION Spec
CONSTANTS
  Node = {1, 2, 3}
  Key = {"k1"}
  MaxReq = 3
  Defect_AckWithoutCommit = TRUE
  Defect_LateEchoOverwrites = FALSE
  Defect_TmpLostAtRestart = FALSE
INVARIANTS AckedCommitted Converged CommitOnce
CHECK_DEADLOCK FALSE
