------------------------------ MODULE RaftLog ------------------------------
(***************************************************************************)
(* ABSTRACT CONTRACT of the Raft log store (C02, C03).                     *)
(*                                                                         *)
(* The log is a contiguous sequence of entries [index, term, id, sz].      *)
(* `id` identifies the payload (the harness derives unique payload bytes   *)
(* from it), `sz` is the on-disk record size class in units (the harness   *)
(* maps units to bytes so that record ends meet read-chunk boundaries and  *)
(* index deltas need 2 or 3 bytes).                                        *)
(*                                                                         *)
(* Operations = what async-raft asks of RaftStorage:                       *)
(*   Append      append_entry_to_log (accepted iff index = end)            *)
(*   Batch       replicate_to_log                                          *)
(*   Truncate    delete_logs_from(k)                                       *)
(*   Compact     apply all + do_log_compaction (entries below the floor    *)
(*               may disappear; nothing at or above it may change)         *)
(*   Reopen      close the store and open it again: the identity           *)
(*                                                                         *)
(* Observables after EVERY operation: the complete readable log and the    *)
(* reported (last index, last term).  This module is both the oracle for   *)
(* behaviour replay (hist) and the module whose actions Trace_RaftLog      *)
(* reuses for trace validation.  The implementation-shaped refinement of   *)
(* one log file lives in LogFile.tla.                                      *)
(***************************************************************************)
EXTENDS Naturals, Sequences, FiniteSets, TLC, Json

CONSTANTS
    MaxLen,         \* bound on the number of live entries
    MaxOps,         \* bound on the history length
    MaxTerm,
    Sizes,          \* set of size classes (units)
    MaxBatch,
    WithCompaction, \* BOOLEAN: store level (TRUE) or single file (FALSE)
    Bug_TruncateKeepsK  \* BOOLEAN, negative control only: truncation forgets to remove entry k

VARIABLES
    first,      \* index of the first live entry (1 for a fresh store, 0 for a fresh single file)
    log,        \* sequence of live entries
    floor,      \* entries with index >= floor must be readable exactly (compaction moves it up)
    curTerm,    \* term used for new entries; never decreases
    nextId,
    ops,        \* number of operations so far
    hist

vars == <<first, log, floor, curTerm, nextId, ops, hist>>

End == first + Len(log)                 \* index the next append must carry
LastTerm == IF log = <<>> THEN 0 ELSE log[Len(log)].term
Proj == [i \in 1..Len(log) |-> [index |-> log[i].index, term |-> log[i].term, id |-> log[i].id]]
Obs == [first |-> first, end |-> End, floor |-> floor, log |-> Proj]

Entry(i, t, id, sz) == [index |-> i, term |-> t, id |-> id, sz |-> sz]

\* ---------------------------------------------------------------- pure operators (also used by the trace spec)

AfterTruncate(l, f, k) ==
    IF k >= f + Len(l) THEN l
    ELSE SubSeq(l, 1, (IF k > f THEN k - f ELSE 0) + (IF Bug_TruncateKeepsK THEN 1 ELSE 0))

Contiguous(l, f) == \A i \in 1..Len(l) : l[i].index = f + i - 1
TermsMonotone(l) == \A i \in 1..(Len(l) - 1) : l[i].term <= l[i + 1].term

\* ---------------------------------------------------------------- actions

Init ==
    /\ first \in (IF WithCompaction THEN {1} ELSE {0, 1, 5})
    /\ log = <<>> /\ floor = first /\ curTerm = 1 /\ nextId = 1 /\ ops = 0 /\ hist = <<>>

Step(rec) == /\ ops < MaxOps /\ ops' = ops + 1 /\ hist' = Append(hist, rec)

AppendOk(sz) ==
    /\ Len(log) < MaxLen
    /\ log' = Append(log, Entry(End, curTerm, nextId, sz))
    /\ nextId' = nextId + 1
    /\ UNCHANGED <<first, floor, curTerm>>
    /\ Step([op |-> "append", index |-> End, term |-> curTerm, id |-> nextId, sz |-> sz,
             res |-> "ok", obs |-> [first |-> first, end |-> End + 1, floor |-> floor,
                                    log |-> Append(Proj, [index |-> End, term |-> curTerm, id |-> nextId])]])

\* an append whose index is not the end of the log is refused and changes nothing
\* (on an EMPTY log the store accepts any first index - a log may start anywhere)
AppendBad(delta, sz) ==
    /\ delta # 0 /\ End + delta >= 0 /\ Len(log) > 0
    /\ UNCHANGED <<first, log, floor, curTerm>>
    /\ nextId' = nextId + 1
    /\ Step([op |-> "append", index |-> End + delta, term |-> curTerm, id |-> nextId, sz |-> sz,
             res |-> "index_error", obs |-> Obs])

Batch(szs) ==
    /\ Len(log) + Len(szs) <= MaxLen
    /\ LET es == [i \in 1..Len(szs) |-> Entry(End + i - 1, curTerm, nextId + i - 1, szs[i])]
       IN /\ log' = log \o es
          /\ nextId' = nextId + Len(szs)
          /\ UNCHANGED <<first, floor, curTerm>>
          /\ Step([op |-> "batch", entries |-> es, res |-> "ok",
                   obs |-> [first |-> first, end |-> End + Len(szs), floor |-> floor,
                            log |-> Proj \o [i \in 1..Len(es) |-> [index |-> es[i].index, term |-> es[i].term, id |-> es[i].id]]]])

\* a replicated batch whose first index is not the end of the log - it overlaps stored entries (no delete-from came first)
\* or leaves a gap - is refused as a whole and changes nothing: the stored entries keep their term and payload, and
\* nothing of the batch becomes readable (a batch acknowledged over other entries would return those, not the acknowledged ones)
BatchBad(start, szs) ==
    /\ start # End /\ start >= first /\ Len(log) > 0 /\ (floor > first => start > floor)
    /\ LET es == [i \in 1..Len(szs) |-> Entry(start + i - 1, curTerm, nextId + i - 1, szs[i])]
       IN /\ UNCHANGED <<first, log, floor, curTerm>>
          /\ nextId' = nextId + Len(szs)
          /\ Step([op |-> "batch", entries |-> es, res |-> "index_error", obs |-> Obs])

\* delete_logs_from(k): a new leader's term follows (conflict truncation)
\* (entries up to the compaction index are committed; Raft never truncates those)
Truncate(k) ==
    /\ k >= first /\ k <= End + 1 /\ (floor > first => k > floor)
    /\ log' = AfterTruncate(log, first, k)
    /\ curTerm' = IF curTerm < MaxTerm THEN curTerm + 1 ELSE curTerm
    /\ UNCHANGED <<first, floor, nextId>>
    /\ Step([op |-> "truncate", k |-> k, res |-> "ok",
             obs |-> [first |-> first, end |-> first + Len(log'), floor |-> floor,
                      log |-> SubSeq(Proj, 1, Len(log'))]])

\* all entries are applied, then the log is compacted: the floor moves to the end
Compact ==
    \* (a compaction needs entries applied since the previous one, as async-raft's LogsSinceLast policy)
    /\ WithCompaction /\ Len(log) > 0 /\ End - 1 > floor
    /\ floor' = End - 1
    /\ UNCHANGED <<first, log, curTerm, nextId>>
    /\ Step([op |-> "compact", upto |-> End - 1, res |-> "ok",
             obs |-> [first |-> first, end |-> End, floor |-> End - 1, log |-> Proj]])

BumpTerm ==
    /\ curTerm < MaxTerm /\ curTerm' = curTerm + 1
    /\ UNCHANGED <<first, log, floor, nextId, ops, hist>>

Reopen ==
    /\ ops > 0 /\ hist[Len(hist)].op # "reopen"
    /\ UNCHANGED <<first, log, floor, curTerm, nextId>>
    /\ Step([op |-> "reopen", res |-> "ok", obs |-> Obs])

Next ==
    \/ \E sz \in Sizes : AppendOk(sz)
    \/ \E d \in {1, 2} : \E sz \in Sizes : AppendBad(d, sz)
    \/ \E n \in 1..MaxBatch : \E sz \in Sizes : Batch([i \in 1..n |-> sz])
    \/ \E st \in {x \in first..(End + 1) : x + 2 >= End} : \E n \in 2..MaxBatch : \E sz \in Sizes : BatchBad(st, [i \in 1..n |-> sz])
    \/ \E k \in 0..(MaxLen + 6) : Truncate(k)
    \/ Compact
    \/ BumpTerm
    \/ Reopen

Spec == Init /\ [][Next]_vars

\* the same contract with a next-state relation biased towards truncation followed by
\* re-appending and reopening (generation of C03 behaviours; a sub-behaviour set of Spec)
NextTrunc ==
    \/ \E sz \in Sizes : AppendOk(sz)
    \/ \E n \in 2..MaxBatch : \E sz \in Sizes : Batch([i \in 1..n |-> sz])
    \/ \E st \in {x \in first..End : x + 2 >= End} : \E n \in 2..MaxBatch : \E sz \in Sizes : BatchBad(st, [i \in 1..n |-> sz])
    \/ \E k \in 0..(MaxLen + 6) : (k <= End /\ Truncate(k))
    \/ Compact
    \/ Reopen
SpecTrunc == Init /\ [][NextTrunc]_vars

\* ---------------------------------------------------------------- properties of the contract

TypeOK == Len(log) <= MaxLen /\ floor >= first /\ floor <= End
ContiguousInv == Contiguous(log, first)
TermsInv == TermsMonotone(log)
\* ids are unique: no payload is ever returned at two indexes
IdsUnique == \A i, j \in 1..Len(log) : i # j => log[i].id # log[j].id

\* C03 as an action property: Truncate(k) keeps exactly the entries below k
TruncateExact ==
    [][\A k \in 0..(MaxLen + 6) :
        (ops' = ops + 1 /\ hist'[Len(hist')].op = "truncate" /\ hist'[Len(hist')].k = k)
        => /\ \A i \in 1..Len(log') : log'[i] = log[i] /\ log'[i].index < k
           /\ \A i \in 1..Len(log) : log[i].index < k => i <= Len(log')]_vars

\* C02 as an action property: Reopen changes nothing
ReopenIdentity ==
    [][(ops' = ops + 1 /\ hist'[Len(hist')].op = "reopen") => (log' = log /\ first' = first)]_vars

\* ---------------------------------------------------------------- export

Done == ops = MaxOps
ExportBehaviour == Done => PrintT(<<"REPLAY", ToJson([first |-> hist[1].obs.first, with_compaction |-> WithCompaction, steps |-> hist])>>)
View == <<first, log, floor, curTerm>>
=============================================================================
