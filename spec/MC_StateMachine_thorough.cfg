SPECIFICATION Spec
CONSTANTS
  CKeys = {"k1", "k2"}
  Contents = {"a", "b"}
  NsIds = {"n1"}
  NsNames = {"x", "", "<e>"}
  UKeys = {"u1"}
  UVals = {"p"}
  SKeys = {"s1"}
  CTypes = {"", "json"}
  CDescs = {"", "d", "<e>"}
  IKeys = {"s1:10.0.0.1:80"}
  IWeights = {2, 3}
  CaKeys = {"c1"}
  CaVals = {"cv"}
  TKeys = {}
  TVals = {}
  SrvIds = {}
  Defect_McpStickyRefs = FALSE
  Defect_McpRcLostAtSnapshot = FALSE
  HistMax = 2
  MaxLog = 3
  MaxOps = 100000
  Defect_StaleSnapshotTail = FALSE
  Defect_NonAtomicCapture = FALSE
VIEW View
INVARIANTS LiveIsFold SnapshotsExact ImportRebuildsAll
PROPERTIES RestartExact
CHECK_DEADLOCK FALSE
