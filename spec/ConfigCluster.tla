---------------------------- MODULE ConfigCluster ----------------------------
(***************************************************************************)
(* Cluster-level contract of configuration writes (C06).                   *)
(*                                                                         *)
(* A client sends a publish / remove to ANY node; the node routes it to    *)
(* the Raft leader (ConfigRoute), the leader commits it through Raft, all  *)
(* nodes apply the committed log in order.  A follower that routed a       *)
(* publish marks the key with the written value as temporary until a later *)
(* committed write of that key is applied (SetTmpValue).  Nodes crash and  *)
(* restart (a minority at a time), leadership moves.                       *)
(*                                                                         *)
(* Abstraction: Raft itself is one sequence `clog` of committed writes     *)
(* (its safety is async-raft's); what is modelled is everything r-nacos    *)
(* adds around it: routing, answering the client, applying, the temporary  *)
(* value, what a node serves after a restart.                              *)
(*                                                                         *)
(* Every write carries its request id as value (0 = removed), so histories *)
(* recorded from a real cluster bind to the model without guessing.        *)
(*                                                                         *)
(* The temporary value (the follower's echo of a routed publish) is a      *)
(* message of its own: it is handled some time after the answer, in any    *)
(* order with the applies of that node.  In the contract it marks the key  *)
(* unless the node has already applied a later write of that key.          *)
(*                                                                         *)
(* Negative controls:                                                      *)
(*   Defect_AckWithoutCommit  the node answers success although the leader *)
(*                            could not commit the write                   *)
(*   Defect_TmpLostAtRestart  a key still marked temporary is missing      *)
(*                            after the node restarts from a snapshot      *)
(*   Defect_LateEchoOverwrites an echo handled after the node has applied  *)
(*                            that entry (and possibly later ones of the   *)
(*                            key) still replaces what the node serves     *)
(***************************************************************************)
EXTENDS Naturals, Sequences, FiniteSets, TLC

CONSTANTS Node, Key, MaxReq, Defect_AckWithoutCommit, Defect_TmpLostAtRestart, Defect_LateEchoOverwrites

VARIABLES
    clog,       \* committed writes, in commit order: [id, k, del]
    reqs,       \* id -> [via, k, del, st]  st: "sent" | "ok" | "err"   (answer given to the client)
    up,         \* node -> BOOLEAN
    applied,    \* node -> length of the prefix of clog the node has applied
    tmp,        \* node -> (key -> request id): temporary values, served instead of the applied value
    echo,       \* pending echo messages: set of [n, id]
    lost,       \* node -> set of keys dropped by a restart (defect only)
    snap,       \* node -> last snapshot written by the node: [idx, tmp, dropped]
    leader      \* node or 0

vars == <<clog, reqs, up, applied, tmp, echo, lost, snap, leader>>

Ids == 1..MaxReq
Committed == {clog[i].id : i \in 1..Len(clog)}
Majority(S) == 2 * Cardinality(S) > Cardinality(Node)
UpSet == {n \in Node : up[n]}

\* value of key k after the first n committed writes (0 = absent)
RECURSIVE ValAt(_, _)
ValAt(k, n) == IF n = 0 THEN 0
               ELSE IF clog[n].k = k THEN (IF clog[n].del THEN 0 ELSE clog[n].id)
               ELSE ValAt(k, n - 1)
\* position of request id in the committed log (0 = not committed)
PosOf(id) == IF id \in Committed THEN CHOOSE i \in 1..Len(clog) : clog[i].id = id ELSE 0
\* what node n serves for key k
Serve(n, k) == IF k \in lost[n] THEN 0
               ELSE IF k \in DOMAIN tmp[n] THEN tmp[n][k]
               ELSE ValAt(k, applied[n])
NoTmp == [k \in {} |-> 0]
Without(f, k) == [x \in (DOMAIN f) \ {k} |-> f[x]]
With(f, k, v) == [x \in (DOMAIN f) \cup {k} |-> IF x = k THEN v ELSE f[x]]

Init ==
    /\ clog = <<>> /\ reqs = [i \in {} |-> 0]
    /\ up = [n \in Node |-> TRUE] /\ applied = [n \in Node |-> 0]
    /\ tmp = [n \in Node |-> NoTmp] /\ echo = {} /\ lost = [n \in Node |-> {}]
    /\ snap = [n \in Node |-> [idx |-> 0, tmp |-> NoTmp, dropped |-> {}]]
    /\ leader = CHOOSE n \in Node : TRUE

\* a client sends request `id` to node n
Call(id, n, k, del) ==
    /\ id \notin DOMAIN reqs /\ id = Cardinality(DOMAIN reqs) + 1 /\ up[n]
    /\ reqs' = [i \in (DOMAIN reqs) \cup {id} |-> IF i = id THEN [via |-> n, k |-> k, del |-> del, st |-> "sent"] ELSE reqs[i]]
    /\ UNCHANGED <<clog, up, applied, tmp, echo, lost, snap, leader>>

\* the leader commits the request (it needs a majority of nodes up); also after the client was told "error"
Commit(id) ==
    /\ id \in DOMAIN reqs /\ id \notin Committed
    /\ leader # 0 /\ up[leader] /\ Majority(UpSet)
    /\ clog' = Append(clog, [id |-> id, k |-> reqs[id].k, del |-> reqs[id].del])
    /\ UNCHANGED <<reqs, up, applied, tmp, echo, lost, snap, leader>>

\* success is answered only for a committed request; a follower that routed a publish marks the key temporary
AnswerOk(id) ==
    /\ id \in DOMAIN reqs /\ reqs[id].st = "sent" /\ up[reqs[id].via]
    /\ id \in Committed \/ Defect_AckWithoutCommit
    /\ reqs' = [reqs EXCEPT ![id].st = "ok"]
    /\ echo' = IF reqs[id].via # leader /\ ~reqs[id].del THEN echo \cup {[n |-> reqs[id].via, id |-> id]} ELSE echo
    /\ UNCHANGED <<clog, up, applied, tmp, lost, snap, leader>>

\* the follower handles the echo of a publish it routed (ConfigCmd::SetTmpValue)
Echo(n, id) ==
    /\ [n |-> n, id |-> id] \in echo /\ up[n]
    /\ echo' = echo \ {[n |-> n, id |-> id]}
    \* the echo marks the key with the echoed value unless the node has already applied a LATER write of that key
    /\ tmp' = IF \/ Defect_LateEchoOverwrites
                 \/ PosOf(id) = 0 \/ PosOf(id) > applied[n]
                 \/ ValAt(reqs[id].k, applied[n]) = id
              THEN [tmp EXCEPT ![n] = With(@, reqs[id].k, id)] ELSE tmp
    /\ UNCHANGED <<clog, reqs, up, applied, lost, snap, leader>>

\* an error (or no answer at all) is always possible; the request may still be committed later
AnswerErr(id) ==
    /\ id \in DOMAIN reqs /\ reqs[id].st = "sent"
    /\ reqs' = [reqs EXCEPT ![id].st = "err"]
    /\ UNCHANGED <<clog, up, applied, tmp, echo, lost, snap, leader>>

Apply(n) ==
    /\ up[n] /\ applied[n] < Len(clog)
    /\ applied' = [applied EXCEPT ![n] = @ + 1]
    /\ tmp' = [tmp EXCEPT ![n] = Without(@, clog[applied[n] + 1].k)]
    /\ lost' = [lost EXCEPT ![n] = @ \ {clog[applied[n] + 1].k}]
    /\ UNCHANGED <<clog, reqs, up, echo, snap, leader>>

\* (any node may crash; without a majority nothing can be committed until enough nodes are back)
Crash(n) ==
    /\ up[n]
    /\ up' = [up EXCEPT ![n] = FALSE]
    /\ leader' = IF leader = n THEN 0 ELSE leader
    /\ echo' = {e \in echo : e.n # n}        \* messages in flight to the process die with it
    /\ UNCHANGED <<clog, reqs, applied, tmp, lost, snap>>

\* log compaction on a node: the snapshot holds the node's state (temporary values included) up to `applied`
Compact(n) ==
    /\ up[n] /\ applied[n] > snap[n].idx
    /\ snap' = [snap EXCEPT ![n] = [idx |-> applied[n],
                                     tmp |-> IF Defect_TmpLostAtRestart THEN NoTmp ELSE tmp[n],
                                     dropped |-> IF Defect_TmpLostAtRestart THEN DOMAIN tmp[n] ELSE {}]]
    /\ UNCHANGED <<clog, reqs, up, applied, tmp, echo, lost, leader>>

\* restart = last snapshot + the log behind it: everything applied before is served again; a temporary value
\* stays if it is in the snapshot and its key is not written by the replayed entries
Restart(n) ==
    /\ ~up[n]
    /\ up' = [up EXCEPT ![n] = TRUE]
    /\ LET replayed == {clog[i].k : i \in (snap[n].idx + 1)..applied[n]} IN
         /\ tmp' = [tmp EXCEPT ![n] = [k \in (DOMAIN snap[n].tmp) \ replayed |-> snap[n].tmp[k]]]
         /\ lost' = [lost EXCEPT ![n] = snap[n].dropped \ replayed]
    /\ UNCHANGED <<clog, reqs, applied, echo, snap, leader>>

\* some node that is up becomes leader (Raft elects a node holding every committed entry)
Elect(n) ==
    /\ up[n] /\ leader # n /\ Majority(UpSet)
    /\ leader' = n
    /\ UNCHANGED <<clog, reqs, up, applied, tmp, echo, lost, snap>>

Next ==
    \/ \E id \in Ids, n \in Node, k \in Key, d \in BOOLEAN : Call(id, n, k, d)
    \/ \E id \in Ids : Commit(id) \/ AnswerOk(id) \/ AnswerErr(id)
    \/ \E n \in Node : Apply(n) \/ Crash(n) \/ Elect(n) \/ Compact(n) \/ Restart(n) \/ (\E id \in Ids : Echo(n, id))

Spec == Init /\ [][Next]_vars

\* ------------------------------------------------------------------ properties
\* a request answered with success is committed
AckedCommitted == \A id \in DOMAIN reqs : reqs[id].st = "ok" => id \in Committed
\* quiescence: every node that is up has applied the whole log, no echo is in flight
Quiescent == echo = {} /\ \A n \in Node : up[n] => applied[n] = Len(clog)
\* then every live node serves, for every key, the value of the last committed write - hence an acknowledged
\* write or a later one - and no two nodes differ
Converged == Quiescent => \A n \in Node : up[n] => \A k \in Key : Serve(n, k) = ValAt(k, Len(clog))
\* each request is committed at most once
CommitOnce == \A i, j \in 1..Len(clog) : i # j => clog[i].id # clog[j].id
=============================================================================
