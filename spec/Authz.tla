------------------------------- MODULE Authz -------------------------------
(***************************************************************************)
(* Access control as REQUIREMENTS over decisions (C16, C17, C18).          *)
(*                                                                         *)
(* The grant tables of the code (role -> routes, ignore lists, privilege   *)
(* checks in handlers) are NOT transcribed here: this module states what   *)
(* any correct table must satisfy, in terms of a syntactic classification  *)
(* of routes, and is used in both directions:                              *)
(*   GEN    TLC enumerates the complete request space (route inventory     *)
(*          taken from the running apps x method x credential x spelling)  *)
(*          and prints one request group per (route, method, spelling);    *)
(*   CHECK  the decisions observed on the REAL apps (in-process services   *)
(*          built with the real configuration functions and middleware)    *)
(*          are loaded back and every requirement below is evaluated on    *)
(*          every observation.                                             *)
(* Route inventory and observations are ndjson files named by the          *)
(* environment (IOEnv.ROUTES / IOEnv.OBS).                                 *)
(***************************************************************************)
EXTENDS Naturals, Sequences, FiniteSets, TLC, Json, IOUtils

CONSTANTS Mode      \* "gen17" | "chk17" | "gen16" | "chk16" | "geng" | "chkg" | "gen18" | "chk18"

VARIABLES phase
vars == <<phase>>

Range(s) == {s[i] : i \in 1..Len(s)}
Last(s) == s[Len(s)]
Has(segs, x) == x \in Range(segs)

\* ------------------------------------------------------------------ C17: console
Methods17 == {"GET", "POST", "PUT", "DELETE"}
\* credentials: token -> role set (empty for unknown / no session)
Tok17 == [none |-> {}, garbage |-> {}, expired |-> {}, manager |-> {"0"}, developer |-> {"1"}, visitor |-> {"2"},
          unknown |-> {"9"}, visitor_developer |-> {"2", "1"}, visitor_unknown |-> {"2", "9"},
          developer_manager |-> {"1", "0"}, noroles |-> {}]
ValidSession17 == {"manager", "developer", "visitor", "unknown", "visitor_developer", "visitor_unknown", "developer_manager", "noroles"}

IsApi(segs) == Len(segs) >= 3 /\ segs[1] = "rnacos" /\ segs[2] = "api" /\ segs[3] = "console"
\* the login endpoints: login, captcha, login configuration, OAuth2 callback
IsLoginEndpoint(segs) ==
    /\ IsApi(segs) /\ Has(segs, "login")
    /\ Last(segs) \in {"login", "captcha", "config"}
IsUserMgmt(segs) == IsApi(segs) /\ Has(segs, "user") /\ Last(segs) \in {"list", "add", "update", "remove"}
IsTransfer(segs) == IsApi(segs) /\ Has(segs, "transfer")
WriteVerbs == {"add", "update", "remove", "import", "publish", "batch_update"}
\* data-changing calls on configuration, services/instances, namespaces, MCP
IsDataWrite(segs, method) ==
    /\ IsApi(segs) /\ ~IsLoginEndpoint(segs)
    /\ \/ Last(segs) \in WriteVerbs
       \/ (Has(segs, "publish") /\ Has(segs, "mcp"))
       \/ (method # "GET" /\ (Has(segs, "configs") \/ Has(segs, "namespaces") \/ Has(segs, "ns")) /\ ~Has(segs, "v2"))
    /\ ~Has(segs, "user") /\ ~IsTransfer(segs)

Handled(d) == d = "handled"

\* every API call except the login endpoints needs a valid session
LoginRequired(o) ==
    (IsApi(o.segs) /\ ~IsLoginEndpoint(o.segs)) =>
        \A t \in {"none", "garbage", "expired"} : ~Handled(o.d[t])
\* a visitor can never change configuration, services, namespaces, users or MCP data
VisitorReadOnly(o) ==
    (IsDataWrite(o.segs, o.method) \/ IsUserMgmt(o.segs) \/ IsTransfer(o.segs)) =>
        (~Handled(o.d["visitor"]) /\ ~Handled(o.d["visitor_unknown"]))
\* a developer can never manage users or use the full-data transfer
DeveloperLimits(o) ==
    (IsUserMgmt(o.segs) \/ IsTransfer(o.segs)) =>
        (~Handled(o.d["developer"]) /\ ~Handled(o.d["visitor_developer"]) /\ ~Handled(o.d["visitor"]))
\* whatever a lower role may do a higher role may do too
Monotone(o) ==
    IsApi(o.segs) =>
        /\ Handled(o.d["visitor"]) => Handled(o.d["developer"])
        /\ Handled(o.d["developer"]) => Handled(o.d["manager"])
\* a user with several roles can do exactly what one of the roles can do; unknown roles grant nothing
RoleSetIsUnion(o) ==
    (IsApi(o.segs) /\ ~IsLoginEndpoint(o.segs)) =>
        /\ Handled(o.d["visitor_developer"]) <=> (Handled(o.d["visitor"]) \/ Handled(o.d["developer"]))
        /\ Handled(o.d["developer_manager"]) <=> (Handled(o.d["developer"]) \/ Handled(o.d["manager"]))
        /\ Handled(o.d["visitor_unknown"]) <=> Handled(o.d["visitor"])
        /\ ~Handled(o.d["unknown"]) /\ ~Handled(o.d["noroles"])
\* a spelling variant of a route that still reaches a handler obeys the same rules (checked by the rules above,
\* which classify by the canonical segments); a variant must never be MORE permissive than the canonical spelling
VariantNotLooser(o, canon) ==
    \A t \in DOMAIN o.d : Handled(o.d[t]) => Handled(canon.d[t])

\* ------------------------------------------------------------------ C16: OpenAPI with auth on
Methods16 == {"GET", "POST", "PUT", "DELETE"}
\* under /nacos/ or /rnacos/v1/ (the bare /nacos index redirect is not an endpoint "under" it)
InScope16(segs) == (Len(segs) >= 2 /\ segs[1] = "nacos") \/ (Len(segs) >= 3 /\ segs[1] = "rnacos" /\ segs[2] = "v1")
\* login endpoints, /nacos/metrics and the file-gated /nacos/v1/raft/close-write
Exempt16(segs) ==
    \/ (Has(segs, "auth") /\ Last(segs) = "login")
    \/ segs = <<"nacos", "metrics">>
    \/ segs = <<"nacos", "v1", "raft", "close-write">>
\* credentials that are NOT a token issued by a successful login
Bad16 == {"absent", "empty", "garbage", "expired"}
NoDataWithoutToken(o) ==
    (InScope16(o.segs) /\ ~Exempt16(o.segs)) =>
        \A t \in DOMAIN o.d : (o.tokstate[t] \in Bad16) => o.d[t] \in {"forbidden", "no_route", "other_route"}
\* with a valid token the endpoint is not refused by the auth layer (sanity: the check is not vacuous)
ValidTokenPasses(o) ==
    (InScope16(o.segs) /\ ~Exempt16(o.segs) /\ o.spelling = "canonical") =>
        \A t \in DOMAIN o.d : (o.tokstate[t] = "valid") => o.d[t] # "forbidden"

\* ------------------------------------------------------------------ C16: gRPC request types
\* o = [type, words (the type name split at capitals), carrier, tok, ctok, d, changed, leaked]
\* classification is by NAME: cluster-internal = Raft* or *Route*; connection level = the two check requests;
\* everything else (including any type registered in the future) reads or changes data
IsClusterType(w) == w[1] = "Raft" \/ Has(w, "Route")
IsConnType(w) == w \in {<<"Server", "Check", "Request">>, <<"Health", "Check", "Request">>}
IsDataType(w) == ~IsClusterType(w) /\ ~IsConnType(w)
TokStates == {"absent", "empty", "garbage", "expired", "valid"}
TokCarriers == {"accessToken", "Authorization"}
CTokStates == {"absent", "empty", "garbage", "prefix", "extended", "casefold", "valid"}
RefusedG == {"refused_auth", "refused_cluster"}
\* a data request without a login token is refused whatever else it carries (a cluster token grants nothing)
GrpcNoDataWithoutToken(o) ==
    (IsDataType(o.words) /\ o.tok \in Bad16) => (o.d = "refused_auth" /\ ~o.changed /\ ~o.leaked)
GrpcValidTokenPasses(o) ==
    (IsDataType(o.words) /\ o.tok = "valid") => o.d \in {"handled", "no_handler"}
\* a cluster-internal request is refused unless it carries exactly the configured cluster token
ClusterNeedsClusterToken(o) ==
    (IsClusterType(o.words) /\ o.ctok # "valid") => (o.d \in RefusedG /\ ~o.changed /\ ~o.leaked)
ClusterTokenPasses(o) ==
    (IsClusterType(o.words) /\ o.ctok = "valid" /\ o.tok = "absent") => o.d = "handled"

\* ------------------------------------------------------------------ C18: namespace privilege
\* o = [endpoint, op ("read" | "write" | "list"), ns (namespace really addressed), spelling, priv, allowed, d, leaked]
\* allowed = whitelisted and not blacklisted (computed by the harness from the privilege shape with the
\* default-namespace mapping; re-derived here from the shape)
InSet(isAll, lst, ns) == isAll \/ ns \in Range(lst)      \* (lists arrive as JSON arrays)
Allowed18(p, ns) == InSet(p.wl_all, p.wl, ns) /\ ~InSet(p.bl_all, p.bl, ns)
\* "cannot read or change": nothing of the forbidden namespace appears in the answer and nothing of it changes.
\* (Several list/download endpoints answer a forbidden namespace with an EMPTY result instead of a refusal;
\* that reveals and changes nothing and is accepted - the decision itself is recorded in the evidence.)
NoForeignAccess(o) ==
    (~Allowed18(o.priv, o.ns)) => (~o.changed /\ ~o.leaked)
\* "listings never include items from it": whatever namespace a request addresses - also a permitted one - its answer never
\* contains data of a namespace the user may not access (o.leaked).  Decides key lists that mix namespaces (read_mixed: the
\* addressed namespace's key first, then keys of the other namespaces; refusing such a request as a whole is fine, which is
\* why AllowedWorks does not speak about them).
NeverLeaks(o) == ~o.leaked
AllowedWorks(o) ==
    (Allowed18(o.priv, o.ns) /\ o.spelling = "explicit" /\ o.op # "read_mixed") => o.d # "refused"

\* the privilege shapes and namespace spellings of the C18 product
\* (the id of the default namespace is the empty string; it is treated like any other namespace)
WlShapes == {[all |-> TRUE, lst |-> {}], [all |-> FALSE, lst |-> {}], [all |-> FALSE, lst |-> {"nsA"}],
             [all |-> FALSE, lst |-> {""}], [all |-> FALSE, lst |-> {"nsA", ""}]}
BlShapes == {[all |-> FALSE, lst |-> {}], [all |-> TRUE, lst |-> {}], [all |-> FALSE, lst |-> {"nsA"}],
             [all |-> FALSE, lst |-> {""}], [all |-> FALSE, lst |-> {"nsB"}]}
\* (namespace really addressed, spelling used in the request)
NsSpellings == {<<"nsA", "explicit">>, <<"nsB", "explicit">>, <<"", "omitted">>, <<"", "empty">>, <<"", "public">>}

\* ------------------------------------------------------------------ generation / checking harness
Routes == ndJsonDeserialize(IOEnv.ROUTES)
Obs == ndJsonDeserialize(IOEnv.OBS)

Init == phase = "start"
Next == phase = "start" /\ phase' = "done"
Spec == Init /\ [][Next]_vars

Gen17 == (Mode = "gen17" /\ phase = "done") =>
    \A i \in 1..Len(Routes) : \A m \in Methods17 :
        PrintT(<<"REPLAY", ToJson([path |-> Routes[i].path, canon |-> Routes[i].canon, segs |-> Routes[i].segs,
                                   spelling |-> Routes[i].spelling, method |-> m, tokens |-> DOMAIN Tok17])>>)
Gen16 == (Mode = "gen16" /\ phase = "done") =>
    \A i \in 1..Len(Routes) : \A m \in Methods16 :
        PrintT(<<"REPLAY", ToJson([path |-> Routes[i].path, canon |-> Routes[i].canon, segs |-> Routes[i].segs,
                                   spelling |-> Routes[i].spelling, method |-> m])>>)

\* gRPC: every registered request type x carrier x token state x cluster-token state
\* (an absent token has no carrier: generated once)
GenG == (Mode = "geng" /\ phase = "done") =>
    \A i \in 1..Len(Routes) : \A t \in TokStates : \A ca \in TokCarriers : \A ct \in CTokStates :
        (t = "absent" /\ ca # "accessToken") \/
        PrintT(<<"REPLAY", ToJson([type |-> Routes[i].type, words |-> Routes[i].words, carrier |-> ca, tok |-> t, ctok |-> ct])>>)
ChkG == (Mode = "chkg" /\ phase = "done") =>
    \A i \in 1..Len(Obs) :
        LET o == Obs[i] IN
        /\ GrpcNoDataWithoutToken(o) \/ PrintT(<<"REQ-FAILED", "GrpcNoDataWithoutToken", i>>)
        /\ GrpcValidTokenPasses(o) \/ PrintT(<<"REQ-FAILED", "GrpcValidTokenPasses", i>>)
        /\ ClusterNeedsClusterToken(o) \/ PrintT(<<"REQ-FAILED", "ClusterNeedsClusterToken", i>>)
        /\ ClusterTokenPasses(o) \/ PrintT(<<"REQ-FAILED", "ClusterTokenPasses", i>>)

Gen18 == (Mode = "gen18" /\ phase = "done") =>
    \A i \in 1..Len(Routes) : \A w \in WlShapes : \A b \in BlShapes : \A nsp \in NsSpellings :
        PrintT(<<"REPLAY", ToJson([endpoint |-> Routes[i].endpoint, ns |-> nsp[1], spelling |-> nsp[2],
                                   priv |-> [wl_all |-> w.all, wl |-> w.lst, bl_all |-> b.all, bl |-> b.lst]])>>)

CanonOf(o) == CHOOSE c \in Range(Obs) : c.spelling = "canonical" /\ c.canon = o.canon /\ c.method = o.method

Chk17 == (Mode = "chk17" /\ phase = "done") =>
    \A i \in 1..Len(Obs) :
        LET o == Obs[i] IN
        /\ LoginRequired(o) \/ PrintT(<<"REQ-FAILED", "LoginRequired", i>>)
        /\ VisitorReadOnly(o) \/ PrintT(<<"REQ-FAILED", "VisitorReadOnly", i>>)
        /\ DeveloperLimits(o) \/ PrintT(<<"REQ-FAILED", "DeveloperLimits", i>>)
        /\ Monotone(o) \/ PrintT(<<"REQ-FAILED", "Monotone", i>>)
        /\ RoleSetIsUnion(o) \/ PrintT(<<"REQ-FAILED", "RoleSetIsUnion", i>>)
        /\ (o.spelling = "canonical" \/ VariantNotLooser(o, CanonOf(o))) \/ PrintT(<<"REQ-FAILED", "VariantNotLooser", i>>)
Chk16 == (Mode = "chk16" /\ phase = "done") =>
    \A i \in 1..Len(Obs) :
        LET o == Obs[i] IN
        /\ NoDataWithoutToken(o) \/ PrintT(<<"REQ-FAILED", "NoDataWithoutToken", i>>)
        /\ ValidTokenPasses(o) \/ PrintT(<<"REQ-FAILED", "ValidTokenPasses", i>>)
Chk18 == (Mode = "chk18" /\ phase = "done") =>
    \A i \in 1..Len(Obs) :
        LET o == Obs[i] IN
        /\ NoForeignAccess(o) \/ PrintT(<<"REQ-FAILED", "NoForeignAccess", i>>)
        /\ NeverLeaks(o) \/ ~Allowed18(o.priv, o.ns) \/ PrintT(<<"REQ-FAILED", "NeverLeaks", i>>)
        /\ AllowedWorks(o) \/ PrintT(<<"REQ-FAILED", "AllowedWorks", i>>)
=============================================================================
