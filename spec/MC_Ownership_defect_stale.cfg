SPECIFICATION Spec
CONSTANTS
  MaxN = 5
  LCM = 60
  Defect_IndexAmongAll = FALSE
  Defect_StaleActorRange = TRUE
INVARIANTS ExactlyOneOwner RoutingAgrees
CHECK_DEADLOCK FALSE
