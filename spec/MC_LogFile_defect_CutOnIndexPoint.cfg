SPECIFICATION Spec
CONSTANTS
  INTERVAL = 2
  VB = 4
  FILE0 = 8
  GROW = 8
  Sizes = {1, 2, 3, 8}
  MaxRecs = 5
  MaxOps = 100000
  Defect_CutOnIndexPoint = TRUE
  Defect_RewindWidth = FALSE
  Defect_ClearTwoBytes = FALSE
  Defect_GrowStrict = FALSE
VIEW View
INVARIANTS DiskIsLog ReopenAgrees CountersAgree TerminatorPresent
CHECK_DEADLOCK FALSE
