----------------------------- MODULE CrashStore -----------------------------
(***************************************************************************)
(* Crash consistency of the Raft store (C04).                              *)
(*                                                                         *)
(* PART 1 - histories.  The abstract log contract of RaftLog.tla extended  *)
(* with the metadata operations (save_hard_state, membership change        *)
(* through the log); TLC simulation produces operation histories.          *)
(*                                                                         *)
(* PART 2 - the crash contract.  The harness runs a history on a real      *)
(* node under a journal of its file mutations, materialises the directory  *)
(* image of EVERY prefix of that journal, opens each image with the real   *)
(* recovery code and writes one observation per image:                     *)
(*   before   Obs of the specification after the last operation the node   *)
(*            acknowledged within the prefix                               *)
(*   inflight the operation submitted but not acknowledged (or "none")     *)
(*   after    Obs after that operation                                     *)
(*   submitted every entry ever submitted (also those truncated since)     *)
(*   hs_vals / mem_vals   every hard state / membership submitted so far   *)
(*            (including the initial one and the one in flight)            *)
(*   rec      what the reopened store reports                              *)
(* CrashOK is evaluated by TLC on every observation.                       *)
(***************************************************************************)
EXTENDS RaftLog, IOUtils

CONSTANTS Mode, Votes, MemberSets

VARIABLES hs, mem
cvars == <<vars, hs, mem>>

CInit == Init /\ hs = [term |-> 0, vote |-> 0] /\ mem = {}

SaveHs(v) ==
    /\ hs' = [term |-> curTerm, vote |-> v] /\ hs' # hs
    /\ UNCHANGED <<first, log, floor, curTerm, nextId, mem>>
    /\ Step([op |-> "save_hs", term |-> curTerm, vote |-> v, res |-> "ok", obs |-> Obs])

\* a membership change is an entry of the log that is applied (ClientRequest::Members)
Members(m) ==
    /\ m # mem /\ Len(log) < MaxLen
    /\ mem' = m
    /\ log' = Append(log, Entry(End, curTerm, nextId, 1))
    /\ nextId' = nextId + 1
    /\ UNCHANGED <<first, floor, curTerm, hs>>
    /\ Step([op |-> "members", index |-> End, term |-> curTerm, id |-> nextId, members |-> m, res |-> "ok",
             obs |-> [first |-> first, end |-> End + 1, floor |-> floor,
                      log |-> Append(Proj, [index |-> End, term |-> curTerm, id |-> nextId])]])

\* Raft never truncates an applied (hence committed) entry: membership entries are applied at once,
\* a compaction applies everything below it
RECURSIVE AppliedIn(_, _)
AppliedIn(h, n) ==
    IF n = 0 THEN 0
    ELSE LET r == AppliedIn(h, n - 1)
             x == IF h[n].op = "members" THEN h[n].index ELSE IF h[n].op = "compact" THEN h[n].upto ELSE 0
         IN IF x > r THEN x ELSE r
TruncAboveApplied ==
    (ops' = ops + 1 /\ hist'[Len(hist')].op = "truncate") => hist'[Len(hist')].k > AppliedIn(hist, Len(hist))

CNext ==
    \/ (Next /\ TruncAboveApplied /\ UNCHANGED <<hs, mem>>)
    \/ \E v \in Votes : SaveHs(v)
    \/ \E m \in MemberSets : Members(m)

CSpec == CInit /\ [][CNext]_cvars
ChkSpec == CInit /\ [][FALSE]_cvars

\* ------------------------------------------------------------------ the crash contract
Range(s) == {s[i] : i \in 1..Len(s)}
ContigRec(es) == \A i \in 1..(Len(es) - 1) : es[i + 1].index = es[i].index + 1
Triple(e) == [index |-> e.index, term |-> e.term, id |-> e.id]
Normal(es) == {Triple(es[i]) : i \in {j \in 1..Len(es) : es[j].kind # "pointer"}}
Pointers(es) == {es[i].index : i \in {j \in 1..Len(es) : es[j].kind = "pointer"}}

\* the store reopens and answers
Reopens(o) == o.rec.booted
\* what it returns is one contiguous run
Contiguous4(o) == ContigRec(o.rec.entries)
\* every acknowledged entry above the compaction floor is there, unless the operation in flight removes it;
\* the entry at the floor itself may be represented by the snapshot pointer
KeepsAcked(o) ==
    \A e \in Range(o.before.log) :
        (/\ e.index >= o.after.floor
         /\ (o.inflight.op = "truncate" => e.index < o.inflight.k))
        => (e \in Normal(o.rec.entries) \/ (e.index = o.after.floor /\ e.index \in Pointers(o.rec.entries)))
\* nothing is invented: every entry returned was submitted at that index with that term and payload
\* (an entry removed by an acknowledged truncation may still be there: it was really submitted)
OnlySubmitted(o) ==
    \A e \in Normal(o.rec.entries) : e \in Range(o.submitted)
\* metadata equal to some value written before the kill
MetaWritten(o) ==
    /\ \E v \in Range(o.hs_vals) : v.term = o.rec.term /\ v.vote = o.rec.vote
    /\ \E m \in Range(o.mem_vals) : Range(m) = Range(o.rec.members)
\* the last-applied index never points past what snapshot plus log can reproduce
AppliedReproducible(o) ==
    o.rec.last_applied <= (IF o.rec.last_log_index > o.rec.snapshot_index THEN o.rec.last_log_index ELSE o.rec.snapshot_index)

\* the last log index reported to Raft is the index of the last entry that can be read (or the snapshot's when the log is empty)
LastIndexReadable(o) ==
    IF Len(o.rec.entries) = 0 THEN o.rec.last_log_index <= o.rec.snapshot_index
    ELSE o.rec.last_log_index = o.rec.entries[Len(o.rec.entries)].index

\* a store that came back stays a store: used as Raft uses it after a restart (appends behind the last index it
\* reported, each acknowledged), killed at that quiescent point and opened again, it returns what it returned at the first
\* opening followed by exactly those appends - in the running process and after the second opening.  (The history
\* "operations, kill, restart, appends, kill" is an operation history with a kill like any other.)
UsableAfterRecovery(o) ==
    o.rec.use.ran =>
        /\ o.rec.use.accepted /\ o.rec.use.booted2
        /\ ContigRec(o.rec.use.live) /\ ContigRec(o.rec.use.reopened)
        /\ LET exp == Normal(o.rec.entries) \cup Range(o.rec.use.appended) IN
               /\ Normal(o.rec.use.live) = exp
               /\ Normal(o.rec.use.reopened) = exp

Obs4 == ndJsonDeserialize(IOEnv.OBS)

Chk04 == (Mode = "chk") =>
    \A i \in 1..Len(Obs4) :
        LET o == Obs4[i] IN
        /\ Reopens(o) \/ PrintT(<<"REQ-FAILED", "Reopens", i>>)
        /\ (~o.rec.booted) \/
           (/\ Contiguous4(o) \/ PrintT(<<"REQ-FAILED", "Contiguous", i>>)
            /\ KeepsAcked(o) \/ PrintT(<<"REQ-FAILED", "KeepsAcked", i>>)
            /\ OnlySubmitted(o) \/ PrintT(<<"REQ-FAILED", "OnlySubmitted", i>>)
            /\ MetaWritten(o) \/ PrintT(<<"REQ-FAILED", "MetaWritten", i>>)
            /\ AppliedReproducible(o) \/ PrintT(<<"REQ-FAILED", "AppliedReproducible", i>>)
            /\ LastIndexReadable(o) \/ PrintT(<<"REQ-FAILED", "LastIndexReadable", i>>)
            /\ UsableAfterRecovery(o) \/ PrintT(<<"REQ-FAILED", "UsableAfterRecovery", i>>))

CExport == Done => PrintT(<<"REPLAY", ToJson([steps |-> hist])>>)
=============================================================================
