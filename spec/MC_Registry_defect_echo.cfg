SPECIFICATION Spec
CONSTANTS
  Svcs = {"s1"}
  Addrs = {"a1"}
  Conns = {"c1", "c2"}
  Nodes = {"n1"}
  H = 1
  T = 2
  MaxNow = 3
  MaxOps = 1000000
  SyncHttpClientIds = FALSE
  Record = FALSE
  Defect_NoArmOnSync = FALSE
  Defect_TakeoverKeepsOrigin = FALSE
  Defect_EchoRemovesFlipped = TRUE
  Defect_ClientSetBeforeOwner = FALSE
VIEW StateView
INVARIANTS CountsMatch
PROPERTIES EchoKeepsEphemeral
CHECK_DEADLOCK FALSE
