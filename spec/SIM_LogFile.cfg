SPECIFICATION Spec
CONSTANTS
  INTERVAL = 2
  VB = 4
  FILE0 = 16
  GROW = 16
  Sizes = {1, 2, 3, 4, 8}
  MaxRecs = 10
  MaxOps = 10
  Defect_CutOnIndexPoint = FALSE
  Defect_RewindWidth = FALSE
  Defect_ClearTwoBytes = FALSE
  Defect_GrowStrict = FALSE
INVARIANTS ExportBehaviour
CHECK_DEADLOCK FALSE
