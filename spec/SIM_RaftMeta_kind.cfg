SPECIFICATION SimSpec
CONSTANTS
  Nodes = {1, 2, 3, 4}
  MaxTerm = 5
  AddrLens = {9, 40, 200}
  MaxOps = 12
  InitThreshold = 9
INVARIANTS ExportBehaviour
CHECK_DEADLOCK FALSE
