------------------------ MODULE Trace_StateMachine ------------------------
(***************************************************************************)
(* Trace validation against StateMachine.tla: the recorded history of a    *)
(* real node (applies in model form, compactions, restarts, and dumps of   *)
(* the served state) is accepted iff every dump equals the reference fold  *)
(* (ApplyReq) of the requests applied so far - in particular right after   *)
(* every compaction and every restart.                                     *)
(***************************************************************************)
EXTENDS StateMachine, IOUtils

Rec == ndJsonDeserialize(IOEnv.TRACE)

VARIABLE l
tvars == <<vars, l>>

TraceInit ==
    /\ l = 1 /\ log = <<>> /\ applied = 0 /\ sm = Empty /\ snaps = <<>> /\ partial = NoState
    /\ capturing = 0 /\ nextHid = 1 /\ ops = 0 /\ hist = <<>>

IsEvent(e) == l <= Len(Rec) /\ Rec[l].event = e /\ l' = l + 1
Keep == UNCHANGED <<log, applied, snaps, partial, capturing, nextHid, ops, hist>>

\* JSON objects arrive as records, empty JSON objects as empty records: compare as functions
SameFun(f, g) == DOMAIN f = DOMAIN g /\ \A k \in DOMAIN f : f[k] = g[k]
HistSame(h1, h2) == Len(h1) = Len(h2) /\ \A i \in 1..Len(h1) : h1[i].id = h2[i].id /\ h1[i].content = h2[i].content
CfgSame(f, g) == DOMAIN f = DOMAIN g /\ \A k \in DOMAIN f : f[k].content = g[k].content /\ HistSame(f[k].hist, g[k].hist)
                                                       /\ f[k].ty = g[k].ty /\ f[k].desc = g[k].desc
NamSame(f, g) == DOMAIN f = DOMAIN g /\ \A k \in DOMAIN f : f[k].w = g[k].w /\ f[k].en = g[k].en
\* (MCP is not driven by the recorder: its requests need ids that the leader stamps; it is covered by the replay legs)
SameState(a, b) == CfgSame(a.cfg, b.cfg) /\ SameFun(a.ns, b.ns) /\ SameFun(a.usr, b.usr) /\ SameFun(a.seq, b.seq)
                   /\ NamSame(a.nam, b.nam) /\ SameFun(a.cch, b.cch) /\ DOMAIN a.tool = {} /\ DOMAIN a.srv = {}

TReset == IsEvent("reset") /\ sm' = Empty /\ Keep
TApply == IsEvent("apply") /\ sm' = ApplyReq(sm, Rec[l].req) /\ Keep
TCompact == IsEvent("compact") /\ Rec[l].res = "ok" /\ Rec[l].index = Rec[l].applied /\ UNCHANGED sm /\ Keep
TRestart == IsEvent("restart") /\ UNCHANGED sm /\ Keep
TState == IsEvent("state") /\ SameState(Rec[l].sm, sm) /\ UNCHANGED sm /\ Keep
TPaths == IsEvent("paths") /\ Rec[l].agree /\ UNCHANGED sm /\ Keep

TraceNext == TReset \/ TApply \/ TCompact \/ TRestart \/ TState \/ TPaths
TraceSpec == TraceInit /\ [][TraceNext]_tvars

TraceAccepted ==
    LET d == TLCGet("stats").diameter IN
    IF d - 1 = Len(Rec) THEN TRUE
    ELSE Print(<<"TRACE-REJECTED at line", d, Rec[d]>>, FALSE)
=============================================================================
