----------------------------- MODULE TokenLife -----------------------------
(***************************************************************************)
(* C16, the time axis of "a VALID token": an access token is issued by a   *)
(* login with a life time, is accepted while that life time lasts and is   *)
(* refused afterwards - however often, and however recently, it was used.  *)
(*                                                                         *)
(* The middleware may remember a verified token for a short while          *)
(* (Keep ticks) instead of asking the session store for every request.     *)
(* What it remembers is WHEN THE STORE CONFIRMED the token, so a token is   *)
(* accepted at most Keep ticks beyond its life time.                       *)
(* Defect_SlidingWindow: the remembered time is refreshed by every use, so *)
(* a token that is used continuously is never checked again (negative     *)
(* control; TLC must find the violation of RefusedAfterExpiry).            *)
(*                                                                         *)
(*   Login        the store records the token with expiry now + Ttl        *)
(*   Use          one request carrying the token: served / refused         *)
(*   Tick         time passes                                              *)
(*   Restart      the node restarts: the store (replicated, persistent)    *)
(*                keeps the token and its expiry; what the middleware      *)
(*                remembered is gone                                       *)
(***************************************************************************)
EXTENDS Naturals, Sequences, TLC

CONSTANTS Ttl, Keep, MaxNow, Defect_SlidingWindow

VARIABLES now, expiry,   \* store: 0 = no token issued, else the tick at which the token expires
          seen,          \* middleware: tick of the last confirmation by the store (0 = nothing remembered)
          last           \* outcome of the last Use: "none" / "served" / "refused"
vars == <<now, expiry, seen, last>>

Init == now = 1 /\ expiry = 0 /\ seen = 0 /\ last = "none"

Login == /\ expiry = 0 /\ expiry' = now + Ttl /\ UNCHANGED <<now, seen>> /\ last' = "none"

StoreValid == expiry # 0 /\ now < expiry
Use ==
    /\ expiry # 0
    /\ IF seen # 0 /\ now - seen <= Keep
       THEN \* answered from what the middleware remembers
            /\ last' = "served"
            /\ seen' = IF Defect_SlidingWindow THEN now ELSE seen
       ELSE /\ last' = IF StoreValid THEN "served" ELSE "refused"
            /\ seen' = IF StoreValid THEN now ELSE 0
    /\ UNCHANGED <<now, expiry>>

Tick == now < MaxNow /\ now' = now + 1 /\ last' = "none" /\ UNCHANGED <<expiry, seen>>
Restart == seen' = 0 /\ last' = "none" /\ UNCHANGED <<now, expiry>>

Next == Login \/ Use \/ Tick \/ Restart
Spec == Init /\ [][Next]_vars

\* C16: a request with a token whose life time (plus the short memory of the middleware) is over is refused
RefusedAfterExpiry == (last = "served") => now < expiry + Keep + 1
\* and (sanity, the other direction) a token inside its life time is served
ServedWhileValid == (last = "refused") => ~StoreValid
=============================================================================
