SPECIFICATION CSpec
CONSTANTS
  MaxLen = 14
  MaxOps = 16
  MaxTerm = 5
  Sizes = {1, 2, 3, 8}
  MaxBatch = 3
  Bug_TruncateKeepsK = FALSE
  WithCompaction = TRUE
  Mode = "gen"
  Votes = {0, 1, 2}
  MemberSets = {{1}, {1, 2}, {1, 2, 3}}
INVARIANTS CExport
CHECK_DEADLOCK FALSE
