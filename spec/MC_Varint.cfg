SPECIFICATION Spec
CONSTANTS MaxDigits = 10
INVARIANTS RoundTrip SizeAgrees StopsAtTerminator Export
CHECK_DEADLOCK FALSE
