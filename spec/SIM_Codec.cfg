SPECIFICATION Spec
CONSTANTS
  BUF0 = 8
  MaxChunk = 8
  RecLens = {2, 3, 4, 5, 8, 11, 16}
  MaxRecs = 5
  MaxZeros = 3
  MaxSteps = 14
  Defect_IsEmptyDrained = FALSE
INVARIANTS ExportBehaviour
CHECK_DEADLOCK FALSE
