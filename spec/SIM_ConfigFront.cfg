SPECIFICATION SimSpec
CONSTANTS
  Keys <- MCKeysFront
  Contents = {"a", "b", "c"}
  Types = {"json", "yaml"}
  Lids = {1, 2, 3, 4}
  Clients = {"c1", "c2"}
  HistMax = 100
  MaxOps = 14
  Bug_WakeOnlyOldest = FALSE
  WithListeners = TRUE
INVARIANTS ExportBehaviour
CHECK_DEADLOCK FALSE
