SPECIFICATION Spec
CONSTANTS
  Keys <- MCKeys1
  Contents = {"a", "b"}
  Types = {}
  Lids = {1, 2}
  Clients = {"c1"}
  HistMax = 100
  MaxOps = 5
  Bug_WakeOnlyOldest = FALSE
  WithListeners = TRUE
INVARIANTS ExportThinReReg
CHECK_DEADLOCK FALSE
