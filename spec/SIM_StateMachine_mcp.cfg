SPECIFICATION SimSpec
CONSTANTS
  CKeys = {}
  Contents = {"a", "b", "c"}
  NsIds = {}
  NsNames = {"x", "y"}
  UKeys = {}
  UVals = {"p", "q"}
  SKeys = {}
  CTypes = {"", "json", "yaml"}
  CDescs = {"", "d1"}
  IKeys = {}
  IWeights = {2, 3}
  CaKeys = {}
  CaVals = {"cv", "cw"}
  TKeys = {"t1", "t2"}
  TVals = {"f", "g"}
  SrvIds = {"1", "2"}
  Defect_McpStickyRefs = FALSE
  Defect_McpRcLostAtSnapshot = FALSE
  HistMax = 100
  MaxLog = 40
  MaxOps = 14
  Defect_StaleSnapshotTail = FALSE
  Defect_NonAtomicCapture = FALSE
INVARIANTS ExportBehaviour
CHECK_DEADLOCK FALSE
