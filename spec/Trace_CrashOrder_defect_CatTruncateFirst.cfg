SPECIFICATION TraceSpec
CONSTANTS
  LogIds <- TLogIds
  SnapIds <- TSnapIds
  MaxIndex = 0
  Defect_CatTruncateFirst = TRUE
  Defect_ListBeforeWritten = FALSE
  Defect_UnlinkUncovered = FALSE
POSTCONDITION TraceAccepted
CHECK_DEADLOCK FALSE
