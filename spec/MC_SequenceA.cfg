SPECIFICATION SpecA
CONSTANTS
  Node = {"n1", "n2"}
  Key = {"k"}
  STEP = 2
  BATCH = 2
  MaxIssued = 3
  MaxLog = 0
  AllowReorder = FALSE
  Bug_SkipMarkOnNoChange = FALSE
INVARIANTS UniqueA MonotoneA BelowCounter
CHECK_DEADLOCK FALSE
