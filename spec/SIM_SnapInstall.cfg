SPECIFICATION SimSpec
CONSTANTS
  CKeys = {"k1", "k2", "kn1"}
  CfgTenant <- [StateMachine] CfgTenantNs
  Contents = {"a", "b", "c"}
  NsIds = {"n1", "n2"}
  NsNames = {"x", "y"}
  UKeys = {"u1", "u2"}
  UVals = {"p", "q"}
  SKeys = {}
  HistMax = 100
  MemberSets = {{1}, {1, 2}, {1, 2, 3}}
  MaxChunks = 3
  MaxLog = 30
  MaxOps = 26
  Defect_AppendMode = FALSE
  Defect_BeginAtZero = FALSE
  Defect_NoTruncate = FALSE
  Defect_NoLiveLoad = FALSE
  Defect_ReinstallOnDup = FALSE
  Defect_InstallKeepsTmp = FALSE
INVARIANTS ExportBehaviour InstalledIntact FollowerServesPrefix
CHECK_DEADLOCK FALSE
