-------------------------- MODULE MC_ConfigCenter --------------------------
EXTENDS ConfigCenter
\* model values for the record-valued constant Keys
K(d, g, t) == [d |-> d, g |-> g, t |-> t]
MCKeys2 == {K("d1", "g1", ""), K("d2", "g1", "")}
MCKeys3 == {K("d1", "g1", ""), K("d1", "g2", ""), K("d2", "g2", "nsA")}
MCKeysSim == {K("d1", "g1", ""), K("d2", "g1", ""), K("d1", "g2", ""), K("d3", "g2", ""), K("d1", "g1", "nsA"), K("dx1", "g3", "nsA")}
MCKeysFront == {K("d1", "g1", ""), K("d2", "g1", ""), K("d1", "g2", ""), K("d1", "g1", "nsA"), K("dx1", "g2", "nsA")}
\* hide history ids and the step history from the fingerprint
MCView == <<[k \in DOMAIN cache |-> [c |-> cache[k].content, t |-> cache[k].ctype, tmp |-> cache[k].tmp, ls |-> cache[k].listed,
                                     h |-> [i \in 1..Len(cache[k].hist) |-> cache[k].hist[i].content]]],
            pend, subs, now, usedL>>
\* ------------------------------------------------------------------ thin cases for C10 from the COMPLETE graph of a tiny model
\* "registered again": a client (subscriber or long poll) registers, its registration ends (the key is removed, it
\* un-listens, its connection closes, its poll is answered) and it registers AGAIN for the same key; the last step is a change
\* of that key that must be reported.  Random schedules of 10 steps practically never contain the four steps in order.
RegSteps(h) == {i \in 1..Len(h) : h[i].op \in {"subscribe", "listen"}}
EndSteps(h) == {i \in 1..Len(h) : h[i].op \in {"remove", "unsubscribe", "disconnect", "publish"}}
ThinReReg ==
    /\ Len(hist) >= 4
    /\ LET n == Len(hist) IN
         /\ hist[n].op \in {"publish", "remove"}
         /\ (hist[n].notify # <<>> \/ hist[n].answered # {})
         /\ \E i, k \in RegSteps(hist) : \E j \in EndSteps(hist) : i < j /\ j < k /\ k < n
ExportThinReReg == (ops = MaxOps /\ ThinReReg) => PrintT(<<"REPLAY", ToJson([steps |-> hist])>>)
MCKeys1 == {K("d1", "g1", "")}
=============================================================================
