-------------------------- MODULE MC_ConfigCenter --------------------------
EXTENDS ConfigCenter
\* model values for the record-valued constant Keys
K(d, g, t) == [d |-> d, g |-> g, t |-> t]
MCKeys2 == {K("d1", "g1", ""), K("d2", "g1", "")}
MCKeys3 == {K("d1", "g1", ""), K("d1", "g2", ""), K("d2", "g2", "nsA")}
MCKeysSim == {K("d1", "g1", ""), K("d2", "g1", ""), K("d1", "g2", ""), K("d3", "g2", ""), K("d1", "g1", "nsA"), K("dx1", "g3", "nsA")}
MCKeysFront == {K("d1", "g1", ""), K("d2", "g1", ""), K("d1", "g2", ""), K("d1", "g1", "nsA"), K("dx1", "g2", "nsA")}
\* hide history ids and the step history from the fingerprint
MCView == <<[k \in DOMAIN cache |-> [c |-> cache[k].content, t |-> cache[k].ctype, tmp |-> cache[k].tmp, ls |-> cache[k].listed,
                                     h |-> [i \in 1..Len(cache[k].hist) |-> cache[k].hist[i].content]]],
            pend, subs, now, usedL>>
=============================================================================
