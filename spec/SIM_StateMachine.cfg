SPECIFICATION SimSpec
CONSTANTS
  CKeys = {"k1", "k2", "k3"}
  Contents = {"a", "b", "c"}
  NsIds = {"n1", "n2"}
  NsNames = {"x", "y"}
  UKeys = {"u1", "u2"}
  UVals = {"p", "q"}
  SKeys = {"s1", "s2"}
  HistMax = 100
  MaxLog = 40
  MaxOps = 14
  Defect_StaleSnapshotTail = FALSE
  Defect_NonAtomicCapture = FALSE
INVARIANTS ExportBehaviour
CHECK_DEADLOCK FALSE
