SPECIFICATION SimSpec
CONSTANTS
  CKeys = {"k1", "k2", "kn1"}
  CfgTenant <- CfgTenantNs
  InstTenant <- InstTenantNs
  Contents = {"a", "b", "c"}
  NsIds = {"n1", "n2"}
  NsNames = {"x", "y", "", "<e>"}
  UKeys = {"u1", "u2"}
  UVals = {"p", "q"}
  SKeys = {"s1", "s2"}
  CTypes = {"", "json", "yaml"}
  CDescs = {"", "d1", "<e>"}
  IKeys = {"s1:10.0.0.1:80", "s1:10.0.0.2:80", "s2:10.0.0.1:81", "sn2:10.0.0.1:82"}
  IWeights = {2, 3}
  CaKeys = {"c1", "c2"}
  CaVals = {"cv", "cw"}
  TKeys = {"t1", "t2"}
  TVals = {"f", "g"}
  SrvIds = {"1", "2"}
  Defect_McpStickyRefs = FALSE
  Defect_McpRcLostAtSnapshot = FALSE
  HistMax = 100
  MaxLog = 40
  MaxOps = 14
  Defect_StaleSnapshotTail = FALSE
  Defect_NonAtomicCapture = FALSE
INVARIANTS ExportBehaviour
CHECK_DEADLOCK FALSE
