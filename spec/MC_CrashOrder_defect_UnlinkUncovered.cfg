SPECIFICATION Spec
CONSTANTS
  LogIds = {0, 1}
  SnapIds = {1, 2}
  MaxIndex = 2
  Defect_CatTruncateFirst = FALSE
  Defect_ListBeforeWritten = FALSE
  Defect_UnlinkUncovered = TRUE
INVARIANTS Recoverable TypeOK
CHECK_DEADLOCK FALSE
