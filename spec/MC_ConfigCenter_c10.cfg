SPECIFICATION Spec
CONSTANTS
  Keys <- MCKeys2
  Contents = {"a", "b"}
  Types = {"json"}
  Lids = {1, 2}
  Clients = {"c1"}
  HistMax = 2
  MaxOps = 1000000
  Bug_WakeOnlyOldest = FALSE
  WithListeners = TRUE
VIEW MCView
INVARIANTS HistoryBounded HistoryEndsWithContent AnsweredByDeadline
PROPERTIES NoStaleWaiter ChangeNotifiesSubscribers
CHECK_DEADLOCK FALSE
