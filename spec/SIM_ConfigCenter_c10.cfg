SPECIFICATION SimSpec
CONSTANTS
  Keys <- MCKeys3
  Contents = {"a", "b"}
  Types = {"json"}
  Lids = {1, 2, 3, 4}
  Clients = {"c1", "c2"}
  HistMax = 100
  MaxOps = 10
  Bug_WakeOnlyOldest = FALSE
  WithListeners = TRUE
INVARIANTS ExportBehaviour
CHECK_DEADLOCK FALSE
