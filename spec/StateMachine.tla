---------------------------- MODULE StateMachine ----------------------------
(***************************************************************************)
(* The replicated state machine of a node and its persistence (C01, C07).  *)
(*                                                                         *)
(* State = the components behind RaftDataHandler, with the reference       *)
(* semantics of their apply handlers:                                      *)
(*   cfg   config centre: key -> [content, ty, desc, hist]  (ConfigActor)  *)
(*   ns    namespaces:    id  -> name              (NamespaceActor)        *)
(*   usr   user table:    key -> value             (TableManager, T_USER)  *)
(*   seq   sequences:     key -> next id           (SequenceDbManager)     *)
(*   nam   persistent service instances: key -> [w, en]   (NamingActor)    *)
(*   cch   replicated cache: key -> value          (DirectCacheManager)    *)
(*   tool  MCP tool specs: key -> [cur, vers]      (McpManager)            *)
(*   srv   MCP servers:    id  -> [name, cur, rel, hist]  (McpManager)     *)
(*   hid   state of McpManager that no query serves (reference            *)
(*         bookkeeping), only present under the two MCP Defect_ flags      *)
(*                                                                         *)
(* Persistence, one action per step of the code:                           *)
(*   Apply(r)        append to the log + apply on the leader path          *)
(*   ApplyBatch      follower path: several committed entries handed over  *)
(*                   at once (replicate_to_state_machine)                  *)
(*   Compact         BuildSnapshot: header index := applied; the component *)
(*                   states are written to snapshot_<last id + 1>;         *)
(*                   catalogue keeps the last two snapshots                *)
(*   InterruptSnap   an earlier attempt at that file name died and left a  *)
(*                   file with (possibly more) records                     *)
(*   Restart         stop (all acknowledged writes on disk) and start:     *)
(*                   load last snapshot, replay log(snapEnd+1 .. applied)  *)
(*                                                                         *)
(* Defect_StaleSnapshotTail: the snapshot writer does not truncate the     *)
(* file it creates, so records of an interrupted longer attempt survive    *)
(* behind the new content and are loaded at restart.                       *)
(* Defect_NonAtomicCapture: the header index is captured before the        *)
(* component states, applies may slip in between (the code as it is;       *)
(* needs a concurrent apply, i.e. a schedule).                             *)
(* Defect_McpStickyRefs: McpManager keeps "which tool versions are         *)
(* referenced by a server" incrementally and a count that returns to zero  *)
(* is not taken out (ToolSpecUtils::add_tool_ref_to_map stores only        *)
(* non-zero sums); the snapshot does not contain it and a start from a     *)
(* snapshot recomputes it exactly - so a node that never restarted refuses *)
(* RemoveToolSpec where a restarted one accepts it.                        *)
(* Defect_McpRcLostAtSnapshot: the per-version reference count that        *)
(* decides whether UpdateToolSpec drops the previous version is not in the *)
(* snapshot and comes back as 0: a restarted node drops a version that a   *)
(* server still uses.                                                      *)
(***************************************************************************)
EXTENDS Naturals, Sequences, FiniteSets, TLC, Json

CONSTANTS
    CKeys, Contents,        \* config keys / contents
    CTypes, CDescs,         \* config type / description values ("" = not given)
    NsIds, NsNames,
    UKeys, UVals,
    SKeys,
    IKeys, IWeights,        \* persistent instances: key (service/ip/port), weight
    CaKeys, CaVals,         \* cache keys / values
    TKeys, TVals,           \* MCP tool keys / tool definitions
    SrvIds,                 \* MCP server ids
    HistMax,                \* bound of the per-key change history (real: 100)
    MaxLog, MaxOps,
    Defect_StaleSnapshotTail,
    Defect_NonAtomicCapture,
    Defect_McpStickyRefs,
    Defect_McpRcLostAtSnapshot

VARIABLES
    log,        \* committed requests, in order
    applied,    \* index of the last applied request
    sm,         \* live state
    snaps,      \* catalogue: sequence of [id, end, st] (at most two)
    partial,    \* state left in the file of an interrupted snapshot attempt, or NoState
    capturing,  \* Defect_NonAtomicCapture: header index captured, component states not yet
    nextHid,    \* next id the leader stamps on a request (config history id, tool version, server value id)
    ops, hist

vars == <<log, applied, sm, snaps, partial, capturing, nextHid, ops, hist>>

NoKey == "none"
GivenEmpty == "<e>"
EmptyF == [k \in {} |-> 0]
NoHid == [mref |-> {}, mlost |-> {}]
Empty == [cfg |-> EmptyF, ns |-> EmptyF, usr |-> EmptyF, seq |-> EmptyF,
          nam |-> EmptyF, cch |-> EmptyF, tool |-> EmptyF, srv |-> EmptyF, hid |-> NoHid]
NoState == [none |-> TRUE]
Comps == {"cfg", "ns", "usr", "seq", "nam", "cch", "tool", "srv"}

\* what queries can see
Obs(st) == [st EXCEPT !.hid = NoHid]

\* ---- namespaces a client sees.  st.ns holds the USER namespaces (created through the namespace API: replicated, written to
\* the snapshot).  The listing also shows every namespace that is IN USE by a configuration, under its id, until a user
\* names it (NamespaceActor "weak" namespaces: flags CONFIG / NAMING set by the config and service indexes, never
\* snapshotted, rebuilt from the configurations at start-up).  CfgTenant tells in which namespace a config key lives:
\* "" (the default namespace) unless a configuration overrides the definition.
CfgTenant(k) == ""
\* ... and InstTenant in which namespace a persistent instance (its service) lives.  The service index announces a namespace
\* as soon as a service exists in it; services that hold no persistent instance (ephemeral ones, an empty service waiting for
\* its clean-up) are not replicated state and are not part of this specification - the conformance legs do not judge the
\* NAMING mark of a namespace no persistent instance lives in.
InstTenant(k) == ""
TenantsInUse(st) == ({CfgTenant(k) : k \in DOMAIN st.cfg} \cup {InstTenant(k) : k \in DOMAIN st.nam}) \ {""}
ListedNs(st) == [id \in (DOMAIN st.ns) \cup TenantsInUse(st) |-> IF id \in DOMAIN st.ns THEN st.ns[id] ELSE id]
Served(st) == [Obs(st) EXCEPT !.ns = ListedNs(st)]

\* ------------------------------------------------------------------ reference semantics

Put(f, k, v) == [x \in (DOMAIN f) \cup {k} |-> IF x = k THEN v ELSE f[x]]
Del(f, k) == [x \in (DOMAIN f) \ {k} |-> f[x]]
TailTo(s, n) == IF Len(s) > n THEN SubSeq(s, Len(s) - n + 1, Len(s)) ELSE s

\* ---- MCP: which tool versions the servers reference (McpManager::init_tool_spec_version_ref_map)
NoValue == [vid |-> 0, tools |-> {}]
ValueRefs(v) == {<<t.k, t.ver>> : t \in v.tools}
SrvRefs(s) == ValueRefs(s.cur) \cup ValueRefs(s.rel) \cup UNION {ValueRefs(s.hist[i]) : i \in 1..Len(s.hist)}
DerivedRefs(st) == UNION {SrvRefs(st.srv[i]) : i \in DOMAIN st.srv}

\* may UpdateToolSpec drop version v of tool k ?   (ToolSpec::update_param: ref_count of the old current version)
VersionInUse(st, k, v) ==
    IF Defect_McpRcLostAtSnapshot
    THEN <<k, v>> \in DerivedRefs(st) /\ <<k, v>> \notin st.hid.mlost
    ELSE <<k, v>> \in DerivedRefs(st)
\* may RemoveToolSpec remove tool k ?   (McpManager::remove_tool_spec: tool_spec_version_ref_map)
ToolInUse(st, k) ==
    IF Defect_McpStickyRefs
    THEN \E p \in st.hid.mref : p[1] = k
    ELSE \E p \in DerivedRefs(st) : p[1] = k

\* McpSimpleTool::to_mcp_tool: the definition a server shows for tool k at version v
Resolve(st, k, v) ==
    IF k \in DOMAIN st.tool
    THEN IF v \in DOMAIN st.tool[k].vers THEN st.tool[k].vers[v]
         ELSE IF st.tool[k].cur \in DOMAIN st.tool[k].vers THEN st.tool[k].vers[st.tool[k].cur] ELSE ""
    ELSE ""
\* the tools parameter of a server update names tools with a version (the sender picks the current one);
\* the server stores each with the definition found when the update is applied
ToolsParam(st, T) == {[k |-> k, ver |-> st.tool[k].cur] : k \in T \cap DOMAIN st.tool}
ToolsOf(st, ts) == {[k |-> t.k, ver |-> t.ver, c |-> Resolve(st, t.k, t.ver)] : t \in ts}

WithHid(st, newRefs, recompute) ==
    [st EXCEPT !.hid = [mref  |-> IF ~Defect_McpStickyRefs THEN {}
                                  ELSE IF recompute THEN DerivedRefs(st) ELSE st.hid.mref \cup newRefs,
                        mlost |-> IF ~Defect_McpRcLostAtSnapshot THEN {} ELSE st.hid.mlost \ newRefs]]

ApplyReq(st, r) ==
    CASE r.t = "cfg_set" ->
            \* type / description: "" = not given (the stored one stays), GivenEmpty = given as the empty string
            \* (the stored one is cleared), anything else = given
            LET has == r.k \in DOMAIN st.cfg
                ty  == IF r.ty = GivenEmpty THEN "" ELSE IF r.ty # "" THEN r.ty ELSE IF has THEN st.cfg[r.k].ty ELSE ""
                ds  == IF r.ds = GivenEmpty THEN "" ELSE IF r.ds # "" THEN r.ds ELSE IF has THEN st.cfg[r.k].desc ELSE ""
            IN
            IF has /\ st.cfg[r.k].content = r.v
            THEN \* same md5: no new history entry; type and description follow when given
                 [st EXCEPT !.cfg = Put(st.cfg, r.k, [st.cfg[r.k] EXCEPT !.ty = ty, !.desc = ds])]
            ELSE LET old == IF has THEN st.cfg[r.k].hist ELSE <<>>
                 IN [st EXCEPT !.cfg = Put(st.cfg, r.k, [content |-> r.v, ty |-> ty, desc |-> ds,
                                                          hist |-> TailTo(Append(old, [id |-> r.hid, content |-> r.v]), HistMax)])]
      [] r.t = "cfg_del" -> [st EXCEPT !.cfg = Del(st.cfg, r.k)]
      \* namespace name: "" = not given (a listed namespace keeps its name, a new one is listed under its id),
      \* GivenEmpty = the empty name
      [] r.t = "ns_set"  -> [st EXCEPT !.ns = Put(st.ns, r.k, IF r.v = GivenEmpty THEN ""
                                                               ELSE IF r.v # "" THEN r.v
                                                               ELSE IF r.k \in DOMAIN ListedNs(st) THEN ListedNs(st)[r.k] ELSE r.k)]
      [] r.t = "ns_del"  -> [st EXCEPT !.ns = Del(st.ns, r.k)]
      \* NamespaceRaftReq::Update (the console's "edit namespace"): as Set.  (Until fix "namespace update creates" it changed
      \* only a namespace the actor LISTED - a user namespace or one listed because it is in use - and whether an in-use
      \* namespace is listed yet depends on when the notice of the config / service index arrives: the leader path, a
      \* follower batch and the start-up replay of one log disagreed.  Found by C07 as soon as ns_upd was in the alphabet.)
      [] r.t = "ns_upd"  -> [st EXCEPT !.ns = Put(st.ns, r.k, IF r.v = GivenEmpty THEN ""
                                                               ELSE IF r.v # "" THEN r.v
                                                               ELSE IF r.k \in DOMAIN ListedNs(st) THEN ListedNs(st)[r.k] ELSE r.k)]
      [] r.t = "usr_set" -> [st EXCEPT !.usr = Put(st.usr, r.k, r.v)]
      [] r.t = "usr_del" -> [st EXCEPT !.usr = Del(st.usr, r.k)]
      [] r.t = "seq_next" -> [st EXCEPT !.seq = Put(st.seq, r.k, (IF r.k \in DOMAIN st.seq THEN st.seq[r.k] ELSE 1) + 1)]
      [] r.t = "seq_range" -> [st EXCEPT !.seq = Put(st.seq, r.k, (IF r.k \in DOMAIN st.seq THEN st.seq[r.k] ELSE 1) + r.n)]
      [] r.t = "seq_set" -> [st EXCEPT !.seq = Put(st.seq, r.k, r.n)]
      [] r.t = "seq_del" -> [st EXCEPT !.seq = Del(st.seq, r.k)]
      \* persistent instances (NamingRaftReq::RegisterInstance / UpdateInstance / RemoveInstance)
      [] r.t = "nam_set" -> [st EXCEPT !.nam = Put(st.nam, r.k, [w |-> r.w, en |-> r.en])]
      [] r.t = "nam_del" -> [st EXCEPT !.nam = Del(st.nam, r.k)]
      \* replicated cache without expiry (CacheManagerRaftReq::Set with nx / xx, Remove, Incr on a number)
      [] r.t = "cch_set" ->
            IF (r.m = "nx" /\ r.k \in DOMAIN st.cch) \/ (r.m = "xx" /\ r.k \notin DOMAIN st.cch) THEN st
            ELSE [st EXCEPT !.cch = Put(st.cch, r.k, r.v)]
      [] r.t = "cch_del" -> [st EXCEPT !.cch = Del(st.cch, r.k)]
      \* MCP tool specs
      [] r.t = "tool_set" ->
            IF r.k \in DOMAIN st.tool
            THEN LET t == st.tool[r.k]
                     v1 == Put(t.vers, r.hid, r.v)
                     v2 == IF VersionInUse(st, r.k, t.cur) \/ t.cur = r.hid THEN v1 ELSE Del(v1, t.cur)
                 IN [st EXCEPT !.tool = Put(st.tool, r.k, [cur |-> r.hid, vers |-> v2])]
            ELSE [st EXCEPT !.tool = Put(st.tool, r.k, [cur |-> r.hid, vers |-> Put(EmptyF, r.hid, r.v)])]
      [] r.t = "tool_del" ->
            IF ToolInUse(st, r.k) THEN st          \* refused: "tool spec is used"
            ELSE [st EXCEPT !.tool = Del(st.tool, r.k)]
      \* MCP servers: UpdateServer (creates when absent), AddServer (= update + publish),
      \* PublishCurrentServer, PublishHistoryServer, RemoveServer
      [] r.t \in {"srv_set", "srv_add"} ->
            LET has   == r.k \in DOMAIN st.srv
                old   == IF has THEN st.srv[r.k] ELSE [name |-> "", cur |-> NoValue, rel |-> NoValue, hist |-> <<>>]
                tools == ToolsOf(st, r.tools)
                s1    == [old EXCEPT !.name = r.v, !.cur = [vid |-> r.hid, tools |-> tools]]
                s2    == IF r.t = "srv_add"
                         THEN [s1 EXCEPT !.rel = s1.cur, !.cur = [vid |-> r.hid + 1, tools |-> tools],
                                         !.hist = Append(s1.hist, s1.cur)]
                         ELSE s1
            IN WithHid([st EXCEPT !.srv = Put(st.srv, r.k, s2)], {<<t.k, t.ver>> : t \in tools}, FALSE)
      [] r.t = "srv_pub" ->
            IF r.k \notin DOMAIN st.srv THEN st
            ELSE LET s == st.srv[r.k]
                 IN [st EXCEPT !.srv = Put(st.srv, r.k, [s EXCEPT !.rel = s.cur, !.cur = [vid |-> r.hid, tools |-> s.cur.tools],
                                                                  !.hist = Append(s.hist, s.cur)])]
      [] r.t = "srv_pubhist" ->
            IF r.k \notin DOMAIN st.srv THEN st
            ELSE LET s == st.srv[r.k]
                     hit == {i \in 1..Len(s.hist) : s.hist[i].vid = r.hid}
                 IN IF hit = {} THEN st      \* "value not found": nothing changes
                    ELSE [st EXCEPT !.srv = Put(st.srv, r.k, [s EXCEPT !.rel = s.hist[CHOOSE i \in hit : TRUE]])]
      [] r.t = "srv_del" ->
            IF r.k \notin DOMAIN st.srv THEN st
            ELSE WithHid([st EXCEPT !.srv = Del(st.srv, r.k)], {}, TRUE)
      \* ---- what a data import (transfer file) sends: whole values
      \* ConfigFullValue: value, type, description and history as given; the key is listed
      [] r.t = "cfg_full" -> [st EXCEPT !.cfg = Put(st.cfg, r.k, [content |-> r.v, ty |-> r.ty, desc |-> r.ds, hist |-> r.h])]
      \* McpManagerRaftReq::SetToolSpec / SetServer / ImportFinished
      [] r.t = "tool_full" -> [st EXCEPT !.tool = Put(st.tool, r.k, [cur |-> r.cur, vers |-> r.vers])]
      [] r.t = "srv_full" -> WithHid([st EXCEPT !.srv = Put(st.srv, r.k, [name |-> r.v, cur |-> r.cur, rel |-> r.rel, hist |-> r.h])],
                                     SrvRefs([cur |-> r.cur, rel |-> r.rel, hist |-> r.h]), FALSE)
      [] r.t = "mcp_fin" -> WithHid(st, {}, TRUE)
      [] OTHER -> st

RECURSIVE Fold(_, _, _, _)
Fold(st, l, from, to) == IF from > to THEN st ELSE Fold(ApplyReq(st, l[from]), l, from + 1, to)

\* loading a snapshot = setting every recorded item (a later record of the same key wins)
Over(b, e) == [k \in (DOMAIN b) \cup (DOMAIN e) |-> IF k \in DOMAIN e THEN e[k] ELSE b[k]]
MergeOver(base, extra) ==
    [cfg |-> Over(base.cfg, extra.cfg), ns |-> Over(base.ns, extra.ns), usr |-> Over(base.usr, extra.usr),
     seq |-> Over(base.seq, extra.seq), nam |-> Over(base.nam, extra.nam), cch |-> Over(base.cch, extra.cch),
     tool |-> Over(base.tool, extra.tool), srv |-> Over(base.srv, extra.srv), hid |-> NoHid]

\* McpServer::from_do: the tool definitions of a server are looked up again when a snapshot is loaded,
\* and the bookkeeping is computed from the loaded servers (load_completed)
ReValue(st, v) == [v EXCEPT !.tools = {[k |-> t.k, ver |-> t.ver, c |-> Resolve(st, t.k, t.ver)] : t \in v.tools}]
LoadedFromSnapshot(st) ==
    LET s1 == [st EXCEPT !.srv = [i \in DOMAIN st.srv |->
                    [st.srv[i] EXCEPT !.cur = ReValue(st, st.srv[i].cur), !.rel = ReValue(st, st.srv[i].rel),
                                      !.hist = [j \in 1..Len(st.srv[i].hist) |-> ReValue(st, st.srv[i].hist[j])]]]]
    IN [s1 EXCEPT !.hid = [mref  |-> IF Defect_McpStickyRefs THEN DerivedRefs(s1) ELSE {},
                           mlost |-> IF Defect_McpRcLostAtSnapshot THEN DerivedRefs(s1) ELSE {}]]

Requests ==
         [t : {"cfg_set"}, k : CKeys, v : Contents, ty : CTypes, ds : CDescs]
    \cup [t : {"cfg_del"}, k : CKeys]
    \cup [t : {"ns_set"}, k : NsIds, v : NsNames]
    \cup [t : {"ns_upd"}, k : NsIds, v : NsNames]
    \cup [t : {"ns_del"}, k : NsIds]
    \cup [t : {"usr_set"}, k : UKeys, v : UVals]
    \cup [t : {"usr_del"}, k : UKeys]
    \cup [t : {"seq_next"}, k : SKeys]
    \cup [t : {"seq_range"}, k : SKeys, n : {3}]
    \cup [t : {"seq_set"}, k : SKeys, n : {10}]
    \cup [t : {"seq_del"}, k : SKeys]
    \cup [t : {"nam_set"}, k : IKeys, w : IWeights, en : BOOLEAN, upd : BOOLEAN]
    \cup [t : {"nam_del"}, k : IKeys]
    \cup [t : {"cch_set"}, k : CaKeys, v : CaVals, m : {"", "nx", "xx"}]
    \cup [t : {"cch_del"}, k : CaKeys]
    \cup [t : {"tool_set"}, k : TKeys, v : TVals]
    \cup [t : {"tool_del"}, k : TKeys]
    \cup [t : {"srv_set", "srv_add"}, k : SrvIds, v : {"m"}, ts : SUBSET TKeys]
    \cup [t : {"srv_pub", "srv_pubhist", "srv_del"}, k : SrvIds]

\* ------------------------------------------------------------------ actions

Step(rec) == /\ ops < MaxOps /\ ops' = ops + 1 /\ hist' = Append(hist, rec)

Init ==
    /\ log = <<>> /\ applied = 0 /\ sm = Empty /\ snaps = <<>> /\ partial = NoState
    /\ capturing = 0 /\ nextHid = 1 /\ ops = 0 /\ hist = <<>>

\* the leader stamps a config publish with the next history id, a tool spec with its version, a server
\* value with its id (AddServer takes two: the value and the value after publishing)
Inc(r) == IF r.t = "srv_add" THEN 2 ELSE IF r.t \in {"cfg_set", "tool_set", "srv_set", "srv_pub"} THEN 1 ELSE 0
WithId(r, h) == [x \in (DOMAIN r) \cup {"hid"} |-> IF x = "hid" THEN h ELSE r[x]]
\* (PublishHistoryServer names a history value: the oldest one the server has, 0 when it has none)
Stamp(st, r, h) ==
    IF r.t \in {"srv_set", "srv_add"}
    THEN [x \in (DOMAIN r) \cup {"hid", "tools"} |-> IF x = "hid" THEN h ELSE IF x = "tools" THEN ToolsParam(st, r.ts) ELSE r[x]]
    ELSE IF Inc(r) > 0 THEN WithId(r, h)
    ELSE IF r.t = "srv_pubhist"
         THEN WithId(r, IF r.k \in DOMAIN st.srv /\ Len(st.srv[r.k].hist) > 0 THEN st.srv[r.k].hist[1].vid ELSE 0)
         ELSE r

Apply(r0) ==
    LET r == Stamp(sm, r0, nextHid) IN
    /\ Len(log) < MaxLog /\ applied = Len(log)
    /\ log' = Append(log, r) /\ applied' = applied + 1
    /\ sm' = ApplyReq(sm, r)
    /\ nextHid' = nextHid + Inc(r0)
    /\ UNCHANGED <<snaps, partial, capturing>>
    /\ Step([op |-> "apply", index |-> applied + 1, req |-> r, sm |-> Served(sm')])

\* follower path: two committed requests are handed over in one batch
ApplyBatch(q1, q2) ==
    LET r1 == Stamp(sm, q1, nextHid)
        r2 == Stamp(ApplyReq(sm, r1), q2, nextHid + Inc(q1)) IN
    /\ Len(log) + 2 <= MaxLog /\ applied = Len(log)
    /\ log' = log \o <<r1, r2>> /\ applied' = applied + 2
    /\ sm' = ApplyReq(ApplyReq(sm, r1), r2)
    /\ nextHid' = nextHid + Inc(q1) + Inc(q2)
    /\ UNCHANGED <<snaps, partial, capturing>>
    /\ Step([op |-> "apply_batch", index |-> applied + 1, reqs |-> <<r1, r2>>, sm |-> Served(sm')])

NextSnapId == IF Len(snaps) = 0 THEN 1 ELSE snaps[Len(snaps)].id + 1

\* what the new snapshot file holds once written (the snapshot holds what queries see, nothing else)
FileAfterWrite(st) ==
    IF Defect_StaleSnapshotTail /\ partial # NoState
    THEN MergeOver(Obs(st), partial)    \* records of the interrupted attempt survive behind the new content
    ELSE Obs(st)

Compact ==
    /\ applied > 0 /\ (IF Len(snaps) = 0 THEN TRUE ELSE snaps[Len(snaps)].end < applied)
    /\ capturing = 0
    /\ LET snap == [id |-> NextSnapId, end |-> applied, st |-> FileAfterWrite(sm)]
       IN snaps' = IF Len(snaps) >= 2 THEN <<snaps[Len(snaps)], snap>> ELSE Append(snaps, snap)
    /\ partial' = NoState
    /\ UNCHANGED <<log, applied, sm, capturing, nextHid>>
    /\ Step([op |-> "compact", upto |-> applied, sm |-> Served(sm)])

\* Defect_NonAtomicCapture: BuildSnapshot records `applied` first ...
CaptureBegin ==
    /\ Defect_NonAtomicCapture /\ capturing = 0 /\ applied > 0
    /\ (IF Len(snaps) = 0 THEN TRUE ELSE snaps[Len(snaps)].end < applied)
    /\ capturing' = applied
    /\ UNCHANGED <<log, applied, sm, snaps, partial, nextHid, ops, hist>>
\* ... and asks the components later (an Apply may have happened in between)
CaptureEnd ==
    /\ capturing > 0
    /\ LET snap == [id |-> NextSnapId, end |-> capturing, st |-> FileAfterWrite(sm)]
       IN snaps' = IF Len(snaps) >= 2 THEN <<snaps[Len(snaps)], snap>> ELSE Append(snaps, snap)
    /\ capturing' = 0 /\ partial' = NoState
    /\ UNCHANGED <<log, applied, sm, nextHid>>
    /\ Step([op |-> "compact_late", upto |-> capturing, sm |-> Served(sm)])

\* an attempt to write snapshot_<next id> is interrupted after the file was written and before the
\* catalogue was updated: the file keeps the state captured now
InterruptSnap ==
    /\ partial = NoState /\ applied > 0 /\ capturing = 0
    /\ (IF Len(snaps) = 0 THEN TRUE ELSE snaps[Len(snaps)].end < applied)
    /\ partial' = Obs(sm)
    /\ UNCHANGED <<log, applied, sm, snaps, capturing, nextHid>>
    /\ Step([op |-> "interrupt_snapshot", sm |-> Served(sm)])

Restart ==
    /\ ops > 0 /\ capturing = 0
    /\ (IF Len(hist) = 0 THEN FALSE ELSE hist[Len(hist)].op # "restart")
    /\ LET base == IF Len(snaps) = 0 THEN Empty ELSE LoadedFromSnapshot(snaps[Len(snaps)].st)
           from == IF Len(snaps) = 0 THEN 1 ELSE snaps[Len(snaps)].end + 1
       IN sm' = Fold(base, log, from, applied)
    /\ UNCHANGED <<log, applied, snaps, partial, capturing, nextHid>>
    /\ Step([op |-> "restart", sm |-> Served(sm)])      \* the CONTRACT expects the identity

Next ==
    \/ \E r \in Requests : Apply(r)
    \/ \E r1 \in Requests, r2 \in Requests : ApplyBatch(r1, r2)
    \/ Compact
    \/ CaptureBegin \/ CaptureEnd
    \/ InterruptSnap
    \/ Restart

Spec == Init /\ [][Next]_vars

\* ------------------------------------------------------------------ properties

\* C07 / reference: what the node serves is the fold of the applied prefix of the log, whatever restarts
\* and compactions lie behind it (a restarted node answers as one that never restarted)
LiveIsFold == Obs(sm) = Obs(Fold(Empty, log, 1, applied))

\* C01: restart reproduces the served state exactly (nothing lost, nothing resurrected)
RestartExact == [][(ops' = ops + 1 /\ hist'[Len(hist')].op = "restart") => Obs(sm') = Obs(sm)]_vars

\* every catalogued snapshot equals the fold of its prefix
SnapshotsExact == \A i \in 1..Len(snaps) : snaps[i].st = Obs(Fold(Empty, log, 1, snaps[i].end))

Done == ops = MaxOps
ExportBehaviour == Done => PrintT(<<"REPLAY", ToJson([steps |-> hist])>>)
View == <<log, applied, sm, snaps, partial, capturing>>

\* ---- data transfer: what an export of `st` followed by an import sends to the target, in the order of the code
\* (configs, tool specs, servers, ImportFinished is last; namespaces, users, persistent instances in between).
\* Ids (history ids, tool versions, server / value ids) are renumbered by the importer from the target's
\* sequences - order preserving; the model keeps them.  Sequences and the cache are not exported.
SeqOfSet(S) == CHOOSE q \in [1..Cardinality(S) -> S] : \A i, j \in 1..Cardinality(S) : i # j => q[i] # q[j]
ImportReqs(st) ==
    LET cfgs  == SeqOfSet(DOMAIN st.cfg)
        tools == SeqOfSet(DOMAIN st.tool)
        srvs  == SeqOfSet(DOMAIN st.srv)
        nss   == SeqOfSet(DOMAIN st.ns)
        usrs  == SeqOfSet(DOMAIN st.usr)
        nams  == SeqOfSet(DOMAIN st.nam)
    IN    [i \in 1..Len(cfgs)  |-> [t |-> "cfg_full", k |-> cfgs[i], v |-> st.cfg[cfgs[i]].content, ty |-> st.cfg[cfgs[i]].ty,
                                     ds |-> st.cfg[cfgs[i]].desc, h |-> st.cfg[cfgs[i]].hist]]
       \o [i \in 1..Len(tools) |-> [t |-> "tool_full", k |-> tools[i], cur |-> st.tool[tools[i]].cur, vers |-> st.tool[tools[i]].vers]]
       \o [i \in 1..Len(srvs)  |-> [t |-> "srv_full", k |-> srvs[i], v |-> st.srv[srvs[i]].name, cur |-> st.srv[srvs[i]].cur,
                                     rel |-> st.srv[srvs[i]].rel, h |-> st.srv[srvs[i]].hist]]
       \o [i \in 1..Len(nss)   |-> [t |-> "ns_set", k |-> nss[i], v |-> IF st.ns[nss[i]] = "" THEN GivenEmpty ELSE st.ns[nss[i]]]]
       \o [i \in 1..Len(usrs)  |-> [t |-> "usr_set", k |-> usrs[i], v |-> st.usr[usrs[i]]]]
       \o [i \in 1..Len(nams)  |-> [t |-> "nam_set", k |-> nams[i], w |-> st.nam[nams[i]].w, en |-> st.nam[nams[i]].en, upd |-> TRUE]]
       \o <<[t |-> "mcp_fin"]>>
\* what an empty node serves after the import
Imported(st) == LET q == ImportReqs(st) IN Obs(Fold(Empty, q, 1, Len(q)))
\* ... and what it should: everything exported.  (Until fix "data import creates the namespaces of the backup" a
\* namespace arrived as an UPDATE, which changes nothing for a namespace the target does not list: the backup's
\* namespaces were lost on an empty target - or applied, when an imported service had already made the namespace "in
\* use" and that notice had reached the namespace actor, which differed between the live import and the start-up
\* replay of its log entries: the C01 transfer leg found it as soon as an instance lived in a user namespace.)
Exportable(st) == [Obs(st) EXCEPT !.seq = EmptyF, !.cch = EmptyF]
ImportRebuildsAll == Imported(sm) = Exportable(sm)

\* ---- thin-case generation (MCP): behaviours in which a tool that some server referred to is changed or removed
\* later on, with a compaction somewhere - the shapes in which bookkeeping that is kept incrementally, or not
\* kept in the snapshot, shows.  Exported from the COMPLETE state graph of the small MCP model (one behaviour per
\* distinct state that qualifies), not sampled.  Restart is the identity in this model and therefore never leads
\* to a new state; the driver inserts restarts (after compactions, at the end) into the exported behaviours.
ReqsOf(s) == IF s.op = "apply" THEN <<s.req>> ELSE IF s.op = "apply_batch" THEN s.reqs ELSE <<>>
RefStep(i, k) == \E n \in 1..Len(ReqsOf(hist[i])) : LET r == ReqsOf(hist[i])[n] IN
                    r.t \in {"srv_set", "srv_add"} /\ \E t \in r.tools : t.k = k
ToolStep(j, k) == \E n \in 1..Len(ReqsOf(hist[j])) : LET r == ReqsOf(hist[j])[n] IN
                    r.t \in {"tool_set", "tool_del"} /\ r.k = k
ThinMcp ==
    /\ Len(hist) >= 3
    /\ \E c \in 1..Len(hist) : hist[c].op = "compact"
    /\ \E k \in TKeys : \E i \in 1..(Len(hist) - 1) : RefStep(i, k) /\ ToolStep(Len(hist), k)
ViewGen == <<View, ThinMcp>>
ExportThinMcp == ThinMcp => PrintT(<<"REPLAY", ToJson([steps |-> hist])>>)
=============================================================================
