---------------------------- MODULE StateMachine ----------------------------
(***************************************************************************)
(* The replicated state machine of a node and its persistence (C01, C07).  *)
(*                                                                         *)
(* State = four of the components behind RaftDataHandler, with the         *)
(* reference semantics of their apply handlers:                            *)
(*   cfg   config centre: key -> [content, hist]   (ConfigActor)           *)
(*   ns    namespaces:    id  -> name              (NamespaceActor)        *)
(*   usr   user table:    key -> value             (TableManager, T_USER)  *)
(*   seq   sequences:     key -> next id           (SequenceDbManager)     *)
(* (MCP, persistent instances and the cache are driven by the harness with *)
(* the same request sequences and compared real-vs-real only.)             *)
(*                                                                         *)
(* Persistence, one action per step of the code:                           *)
(*   Apply(r)        append to the log + apply on the leader path          *)
(*   ApplyBatch      follower path: several committed entries handed over  *)
(*                   at once (replicate_to_state_machine)                  *)
(*   Compact         BuildSnapshot: header index := applied; the component *)
(*                   states are written to snapshot_<last id + 1>;         *)
(*                   catalogue keeps the last two snapshots                *)
(*   InterruptSnap   an earlier attempt at that file name died and left a  *)
(*                   file with (possibly more) records                     *)
(*   Restart         stop (all acknowledged writes on disk) and start:     *)
(*                   load last snapshot, replay log(snapEnd+1 .. applied)  *)
(*                                                                         *)
(* Defect_StaleSnapshotTail: the snapshot writer does not truncate the     *)
(* file it creates, so records of an interrupted longer attempt survive    *)
(* behind the new content and are loaded at restart.                       *)
(* Defect_NonAtomicCapture: the header index is captured before the        *)
(* component states, applies may slip in between (the code as it is;       *)
(* needs a concurrent apply, i.e. a schedule).                             *)
(***************************************************************************)
EXTENDS Naturals, Sequences, FiniteSets, TLC, Json

CONSTANTS
    CKeys, Contents,        \* config keys / contents
    NsIds, NsNames,
    UKeys, UVals,
    SKeys,
    HistMax,                \* bound of the per-key change history (real: 100)
    MaxLog, MaxOps,
    Defect_StaleSnapshotTail,
    Defect_NonAtomicCapture

VARIABLES
    log,        \* committed requests, in order
    applied,    \* index of the last applied request
    sm,         \* live state [cfg, ns, usr, seq]
    snaps,      \* catalogue: sequence of [id, end, st] (at most two)
    partial,    \* state left in the file of an interrupted snapshot attempt, or NoState
    capturing,  \* Defect_NonAtomicCapture: header index captured, component states not yet
    nextHid,    \* next config history id (leader side sequence)
    ops, hist

vars == <<log, applied, sm, snaps, partial, capturing, nextHid, ops, hist>>

NoKey == "none"
Empty == [cfg |-> [k \in {} |-> 0], ns |-> [k \in {} |-> 0], usr |-> [k \in {} |-> 0], seq |-> [k \in {} |-> 0]]
NoState == [none |-> TRUE]

\* ------------------------------------------------------------------ reference semantics

Put(f, k, v) == [x \in (DOMAIN f) \cup {k} |-> IF x = k THEN v ELSE f[x]]
Del(f, k) == [x \in (DOMAIN f) \ {k} |-> f[x]]
TailTo(s, n) == IF Len(s) > n THEN SubSeq(s, Len(s) - n + 1, Len(s)) ELSE s

ApplyReq(st, r) ==
    CASE r.t = "cfg_set" ->
            IF r.k \in DOMAIN st.cfg /\ st.cfg[r.k].content = r.v
            THEN st                     \* same md5: no new history entry, nothing changes
            ELSE LET old == IF r.k \in DOMAIN st.cfg THEN st.cfg[r.k].hist ELSE <<>>
                 IN [st EXCEPT !.cfg = Put(st.cfg, r.k, [content |-> r.v,
                                                          hist |-> TailTo(Append(old, [id |-> r.hid, content |-> r.v]), HistMax)])]
      [] r.t = "cfg_del" -> [st EXCEPT !.cfg = Del(st.cfg, r.k)]
      [] r.t = "ns_set"  -> [st EXCEPT !.ns = Put(st.ns, r.k, r.v)]
      [] r.t = "ns_del"  -> [st EXCEPT !.ns = Del(st.ns, r.k)]
      [] r.t = "usr_set" -> [st EXCEPT !.usr = Put(st.usr, r.k, r.v)]
      [] r.t = "usr_del" -> [st EXCEPT !.usr = Del(st.usr, r.k)]
      [] r.t = "seq_next" -> [st EXCEPT !.seq = Put(st.seq, r.k, (IF r.k \in DOMAIN st.seq THEN st.seq[r.k] ELSE 1) + 1)]
      [] r.t = "seq_range" -> [st EXCEPT !.seq = Put(st.seq, r.k, (IF r.k \in DOMAIN st.seq THEN st.seq[r.k] ELSE 1) + r.n)]
      [] r.t = "seq_set" -> [st EXCEPT !.seq = Put(st.seq, r.k, r.n)]
      [] r.t = "seq_del" -> [st EXCEPT !.seq = Del(st.seq, r.k)]
      [] OTHER -> st

RECURSIVE Fold(_, _, _, _)
Fold(st, l, from, to) == IF from > to THEN st ELSE Fold(ApplyReq(st, l[from]), l, from + 1, to)

\* loading a snapshot = setting every recorded item (a later record of the same key wins)
MergeOver(base, extra) ==
    [cfg |-> [k \in (DOMAIN base.cfg) \cup (DOMAIN extra.cfg) |-> IF k \in DOMAIN extra.cfg THEN extra.cfg[k] ELSE base.cfg[k]],
     ns  |-> [k \in (DOMAIN base.ns) \cup (DOMAIN extra.ns) |-> IF k \in DOMAIN extra.ns THEN extra.ns[k] ELSE base.ns[k]],
     usr |-> [k \in (DOMAIN base.usr) \cup (DOMAIN extra.usr) |-> IF k \in DOMAIN extra.usr THEN extra.usr[k] ELSE base.usr[k]],
     seq |-> [k \in (DOMAIN base.seq) \cup (DOMAIN extra.seq) |-> IF k \in DOMAIN extra.seq THEN extra.seq[k] ELSE base.seq[k]]]

Requests ==
         [t : {"cfg_set"}, k : CKeys, v : Contents]
    \cup [t : {"cfg_del"}, k : CKeys]
    \cup [t : {"ns_set"}, k : NsIds, v : NsNames]
    \cup [t : {"ns_del"}, k : NsIds]
    \cup [t : {"usr_set"}, k : UKeys, v : UVals]
    \cup [t : {"usr_del"}, k : UKeys]
    \cup [t : {"seq_next"}, k : SKeys]
    \cup [t : {"seq_range"}, k : SKeys, n : {3}]
    \cup [t : {"seq_set"}, k : SKeys, n : {10}]
    \cup [t : {"seq_del"}, k : SKeys]

\* ------------------------------------------------------------------ actions

Step(rec) == /\ ops < MaxOps /\ ops' = ops + 1 /\ hist' = Append(hist, rec)

Init ==
    /\ log = <<>> /\ applied = 0 /\ sm = Empty /\ snaps = <<>> /\ partial = NoState
    /\ capturing = 0 /\ nextHid = 1 /\ ops = 0 /\ hist = <<>>

\* the leader stamps a config publish with the next history id
Stamp(r, h) == IF r.t = "cfg_set" THEN [t |-> r.t, k |-> r.k, v |-> r.v, hid |-> h] ELSE r

Apply(r0) ==
    LET r == Stamp(r0, nextHid) IN
    /\ Len(log) < MaxLog /\ applied = Len(log)
    /\ log' = Append(log, r) /\ applied' = applied + 1
    /\ sm' = ApplyReq(sm, r)
    /\ nextHid' = IF r.t = "cfg_set" THEN nextHid + 1 ELSE nextHid
    /\ UNCHANGED <<snaps, partial, capturing>>
    /\ Step([op |-> "apply", index |-> applied + 1, req |-> r, sm |-> sm'])

\* follower path: two committed requests are handed over in one batch
ApplyBatch(q1, q2) ==
    LET r1 == Stamp(q1, nextHid)
        r2 == Stamp(q2, nextHid) IN
    /\ Len(log) + 2 <= MaxLog /\ applied = Len(log)
    /\ r2.t # "cfg_set" \/ r1.t # "cfg_set"       \* (one history id per step is enough for the model)
    /\ log' = log \o <<r1, r2>> /\ applied' = applied + 2
    /\ sm' = ApplyReq(ApplyReq(sm, r1), r2)
    /\ nextHid' = IF r1.t = "cfg_set" \/ r2.t = "cfg_set" THEN nextHid + 1 ELSE nextHid
    /\ UNCHANGED <<snaps, partial, capturing>>
    /\ Step([op |-> "apply_batch", index |-> applied + 1, reqs |-> <<r1, r2>>, sm |-> sm'])

NextSnapId == IF Len(snaps) = 0 THEN 1 ELSE snaps[Len(snaps)].id + 1

\* what the new snapshot file holds once written
FileAfterWrite(st) ==
    IF Defect_StaleSnapshotTail /\ partial # NoState
    THEN MergeOver(st, partial)         \* records of the interrupted attempt survive behind the new content
    ELSE st

Compact ==
    /\ applied > 0 /\ (IF Len(snaps) = 0 THEN TRUE ELSE snaps[Len(snaps)].end < applied)
    /\ capturing = 0
    /\ LET snap == [id |-> NextSnapId, end |-> applied, st |-> FileAfterWrite(sm)]
       IN snaps' = IF Len(snaps) >= 2 THEN <<snaps[Len(snaps)], snap>> ELSE Append(snaps, snap)
    /\ partial' = NoState
    /\ UNCHANGED <<log, applied, sm, capturing, nextHid>>
    /\ Step([op |-> "compact", upto |-> applied, sm |-> sm])

\* Defect_NonAtomicCapture: BuildSnapshot records `applied` first ...
CaptureBegin ==
    /\ Defect_NonAtomicCapture /\ capturing = 0 /\ applied > 0
    /\ (IF Len(snaps) = 0 THEN TRUE ELSE snaps[Len(snaps)].end < applied)
    /\ capturing' = applied
    /\ UNCHANGED <<log, applied, sm, snaps, partial, nextHid, ops, hist>>
\* ... and asks the components later (an Apply may have happened in between)
CaptureEnd ==
    /\ capturing > 0
    /\ LET snap == [id |-> NextSnapId, end |-> capturing, st |-> FileAfterWrite(sm)]
       IN snaps' = IF Len(snaps) >= 2 THEN <<snaps[Len(snaps)], snap>> ELSE Append(snaps, snap)
    /\ capturing' = 0 /\ partial' = NoState
    /\ UNCHANGED <<log, applied, sm, nextHid>>
    /\ Step([op |-> "compact_late", upto |-> capturing, sm |-> sm])

\* an attempt to write snapshot_<next id> is interrupted after the file was written and before the
\* catalogue was updated: the file keeps the state captured now
InterruptSnap ==
    /\ partial = NoState /\ applied > 0 /\ capturing = 0
    /\ (IF Len(snaps) = 0 THEN TRUE ELSE snaps[Len(snaps)].end < applied)
    /\ partial' = sm
    /\ UNCHANGED <<log, applied, sm, snaps, capturing, nextHid>>
    /\ Step([op |-> "interrupt_snapshot", sm |-> sm])

Restart ==
    /\ ops > 0 /\ capturing = 0
    /\ (IF Len(hist) = 0 THEN FALSE ELSE hist[Len(hist)].op # "restart")
    /\ LET base == IF Len(snaps) = 0 THEN Empty ELSE snaps[Len(snaps)].st
           from == IF Len(snaps) = 0 THEN 1 ELSE snaps[Len(snaps)].end + 1
       IN sm' = Fold(base, log, from, applied)
    /\ UNCHANGED <<log, applied, snaps, partial, capturing, nextHid>>
    /\ Step([op |-> "restart", sm |-> sm])      \* the CONTRACT expects the identity

Next ==
    \/ \E r \in Requests : Apply(r)
    \/ \E r1 \in Requests, r2 \in Requests : ApplyBatch(r1, r2)
    \/ Compact
    \/ CaptureBegin \/ CaptureEnd
    \/ InterruptSnap
    \/ Restart

Spec == Init /\ [][Next]_vars

\* ------------------------------------------------------------------ properties

\* C07 / reference: the live state is the fold of the applied prefix of the log
LiveIsFold == sm = Fold(Empty, log, 1, applied)

\* C01: restart reproduces the served state exactly (nothing lost, nothing resurrected)
RestartExact == [][(ops' = ops + 1 /\ hist'[Len(hist')].op = "restart") => sm' = sm]_vars

\* every catalogued snapshot equals the fold of its prefix
SnapshotsExact == \A i \in 1..Len(snaps) : snaps[i].st = Fold(Empty, log, 1, snaps[i].end)

Done == ops = MaxOps
ExportBehaviour == Done => PrintT(<<"REPLAY", ToJson([steps |-> hist])>>)
View == <<log, applied, sm, snaps, partial, capturing>>
=============================================================================
