SPECIFICATION SimSpec
CONSTANTS
  Node = {1, 2, 3}
  Key = {"k1", "k2"}
  MaxReq = 8
  MaxOps = 34
  Defect_AckWithoutCommit = FALSE
  Defect_LateEchoOverwrites = FALSE
  Defect_TmpLostAtRestart = FALSE
INVARIANTS ExportBehaviour AckedCommitted Converged
CHECK_DEADLOCK FALSE
