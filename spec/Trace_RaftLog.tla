--------------------------- MODULE Trace_RaftLog ---------------------------
(***************************************************************************)
(* Trace validation against the abstract log contract of RaftLog.tla.      *)
(* Events recorded from the real code (one log file or the whole store):   *)
(*   reset(first) | append(index, term, id, res) | truncate(k)             *)
(*   | reopen(end, last_index, last_term) | read(a, b, entries, bytes_ok)  *)
(* The abstract log is rebuilt from the accepted operations with the       *)
(* contract's own operators (AfterTruncate, Contiguous); every observed    *)
(* read must equal the corresponding slice and every reopen must report    *)
(* the abstract end and last (index, term).                                *)
(***************************************************************************)
EXTENDS RaftLog, IOUtils

Rec == ndJsonDeserialize(IOEnv.TRACE)

VARIABLE l
tvars == <<vars, l>>

TraceInit ==
    /\ l = 1 /\ first = 0 /\ log = <<>> /\ floor = 0 /\ curTerm = 0 /\ nextId = 0 /\ ops = 0 /\ hist = <<>>

IsEvent(e) == l <= Len(Rec) /\ Rec[l].event = e /\ l' = l + 1
Keep == UNCHANGED <<floor, curTerm, nextId, ops, hist>>

TReset ==
    /\ IsEvent("reset")
    /\ first' = Rec[l].first /\ log' = <<>> /\ Keep

\* an append is accepted iff it carries the end index (or the log is empty: a log may start anywhere)
TAppend ==
    /\ IsEvent("append")
    /\ LET e == Rec[l] IN
       IF e.index = End
       THEN /\ e.res = "ok"
            /\ log' = Append(log, [index |-> e.index, term |-> e.term, id |-> e.id, sz |-> 0])
            /\ UNCHANGED first
       ELSE /\ e.res = "index_error"
            /\ UNCHANGED <<first, log>>
    /\ Keep

TTruncate ==
    /\ IsEvent("truncate")
    /\ Rec[l].res = "ok"
    /\ log' = AfterTruncate(log, first, Rec[l].k)
    /\ UNCHANGED first /\ Keep

TReopen ==
    /\ IsEvent("reopen")
    /\ Rec[l].end = End
    /\ (log # <<>> => (Rec[l].last_index = End - 1 /\ Rec[l].last_term = LastTerm))
    /\ UNCHANGED <<first, log>> /\ Keep

Slice(a, b) ==
    LET lo == IF a > first THEN a ELSE first
        hi == IF b < End THEN b ELSE End
    IN IF lo >= hi THEN <<>> ELSE SubSeq(log, lo - first + 1, hi - first)

TRead ==
    /\ IsEvent("read")
    /\ Rec[l].res = "ok" /\ Rec[l].bytes_ok
    /\ LET s == Slice(Rec[l].a, Rec[l].b) IN
         /\ Len(Rec[l].entries) = Len(s)
         /\ \A i \in 1..Len(s) : Rec[l].entries[i] = <<s[i].index, s[i].term, s[i].id>>
    /\ UNCHANGED <<first, log>> /\ Keep

TraceNext == TReset \/ TAppend \/ TTruncate \/ TReopen \/ TRead
TraceSpec == TraceInit /\ [][TraceNext]_tvars

TraceInv == Contiguous(log, first) /\ IdsUnique

TraceAccepted ==
    LET d == TLCGet("stats").diameter IN
    IF d - 1 = Len(Rec) THEN TRUE
    ELSE Print(<<"TRACE-REJECTED at line", d, Rec[d]>>, FALSE)
=============================================================================
