SPECIFICATION Spec
CONSTANTS Mode = "gen17"
INVARIANTS Gen17
CHECK_DEADLOCK FALSE
