--------------------------- MODULE SimSnapInstall ---------------------------
(***************************************************************************)
(* Generation wrapper for SnapInstall.tla (see SimStateMachine.tla): a     *)
(* step first picks the KIND of action, then one of its instances.  The    *)
(* behaviours produced are behaviours of SnapInstall!Spec (with            *)
(* stuttering); the last step is a crash or start of the follower (one     *)
(* successor, one export).                                                 *)
(***************************************************************************)
EXTENDS SnapInstall

\* the simulation configuration places the config key kn1 in the user namespace n1 (see SimStateMachine.tla)
CfgTenantNs(k) == IF k = "kn1" THEN "n1" ELSE IF k = "kn2" THEN "n2" ELSE ""

VARIABLE pending

\* (a sequence, so that kinds can be weighted)
Kinds == <<"lwrite", "lwrite", "lwrite", "lmembers", "lcompact", "lcompact", "replicate", "replicate", "fecho", "fecho", "start", "start", "start",
           "chunk_ack", "chunk_ack", "chunk_ack", "chunk_ack", "chunk_ack", "chunk_ack", "chunk_lost", "chunk_lost",
           "abort", "fcrash", "fstart", "fstart">>

SimInit == Init /\ pending = "none"

SimNext ==
    \/ /\ pending = "none" /\ ops < MaxOps
       /\ IF ops = MaxOps - 1 THEN pending' = "fin" ELSE \E i \in 1..Len(Kinds) : pending' = Kinds[i]
       /\ UNCHANGED vars
    \/ /\ pending = "lwrite" /\ pending' = "none" /\ \E r \in SM!Requests : LWrite(r)
    \/ /\ pending = "lmembers" /\ pending' = "none" /\ \E m \in MemberSets : LMembers(m)
    \/ /\ pending = "lcompact" /\ pending' = "none" /\ \E k \in 1..MaxChunks : LCompact(k)
    \/ /\ pending = "replicate" /\ pending' = "none" /\ Replicate
    \/ /\ pending = "fecho" /\ pending' = "none" /\ FEcho
    \/ /\ pending = "start" /\ pending' = "none" /\ StartStream
    \/ /\ pending = "chunk_ack" /\ pending' = "none" /\ (Chunk(TRUE) \/ DupFinal(TRUE))
    \/ /\ pending = "chunk_lost" /\ pending' = "none" /\ (Chunk(FALSE) \/ DupFinal(FALSE))
    \/ /\ pending = "abort" /\ pending' = "none" /\ StreamAbort
    \/ /\ pending = "fcrash" /\ pending' = "none" /\ FCrash
    \/ /\ pending = "fstart" /\ pending' = "none" /\ FStart
    \/ /\ pending = "fin" /\ pending' = "none" /\ (FCrash \/ FStart)
    \/ /\ pending \notin {"none", "fin"} /\ ops < MaxOps - 1
       /\ pending' = "none" /\ UNCHANGED vars   \* kind not enabled: skip

SimSpec == SimInit /\ [][SimNext]_<<vars, pending>>
=============================================================================
