SPECIFICATION TraceSpec
CONSTANTS
  MaxLen = 1
  MaxOps = 1
  MaxTerm = 1
  Sizes = {1}
  MaxBatch = 1
  Bug_TruncateKeepsK = FALSE
  WithCompaction = FALSE
INVARIANTS TraceInv
POSTCONDITION TraceAccepted
CHECK_DEADLOCK FALSE
