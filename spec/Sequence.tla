------------------------------ MODULE Sequence ------------------------------
(***************************************************************************)
(* Issued ids (C19).                                                       *)
(*                                                                         *)
(* PART A - named sequences (src/sequence): a replicated counter           *)
(* next[key] (SequenceDbManager, applied through Raft) and, on every node, *)
(* a double-buffered cache of ranges (SeqGroup: range_a, range_b, use_a,   *)
(* next_adding) refilled by asynchronous NextRange requests.  Requests are *)
(* granted by the state machine in some order and their responses are      *)
(* handled by the node's actor one at a time.                              *)
(*                                                                         *)
(* PART B - config history ids (SimpleSequence inside ConfigActor): the    *)
(* leader stamps every publish with last_id+1 from a batch of BATCH ids;   *)
(* the publish that OPENS a batch also carries history_table_id = end of   *)
(* the batch; every node applying an entry raises its own sequence to that *)
(* mark (set_valid_last_id); a snapshot stores get_end_id().  After a      *)
(* leader change or restart the new leader continues above every id the    *)
(* old leader may have handed out.                                         *)
(***************************************************************************)
EXTENDS Naturals, Sequences, FiniteSets, TLC, Json

CONSTANTS
    Node, Key,
    STEP,               \* range size asked from the counter (real: 100)
    BATCH,              \* history id batch (real: 100)
    MaxIssued,          \* bound on ids handed out per node (state space)
    MaxLog,             \* bound on publishes (part B)
    AllowReorder,       \* responses of concurrent range requests may be handled out of order
    Bug_SkipMarkOnNoChange  \* negative control: the batch mark is not learned from a publish that changes nothing

VARIABLES
    next,       \* A: key -> next free id of the replicated counter
    grp,        \* A: node -> key -> [a, b: [start, len, idx], useA, adding] or NoGroup
    infl,       \* A: node -> sequence of in-flight range requests [kind, key, granted, start]
    issuedA,    \* A: sequence of [n, k, id] in the order handed out
    leader,     \* B: current leader
    seq,        \* B: node -> [last, cache]   (SimpleSequence)
    plog,       \* B: sequence of applied publishes [hid, mark, changed]
    appliedB,   \* B: node -> number of log entries applied
    issuedB     \* B: sequence of history ids stamped by leaders

varsA == <<next, grp, infl, issuedA>>
varsB == <<leader, seq, plog, appliedB, issuedB>>
vars == <<next, grp, infl, issuedA, leader, seq, plog, appliedB, issuedB>>

NoGroup == [none |-> TRUE]
EmptyRange == [start |-> 0, len |-> 0, idx |-> 0]
HasNext(r) == r.idx < r.len

\* ------------------------------------------------------------------ SeqGroup (object level)
GNext(g) ==     \* SeqGroup::next_id -> [g, v] ; v = 0 means None
    LET cur == IF g.useA THEN g.a ELSE g.b IN
    IF HasNext(cur)
    THEN [g |-> IF g.useA THEN [g EXCEPT !.a.idx = @ + 1] ELSE [g EXCEPT !.b.idx = @ + 1], v |-> cur.start + cur.idx]
    ELSE LET g2 == [g EXCEPT !.useA = ~g.useA]
             c2 == IF g2.useA THEN g2.a ELSE g2.b
         IN IF HasNext(c2)
            THEN [g |-> IF g2.useA THEN [g2 EXCEPT !.a.idx = @ + 1] ELSE [g2 EXCEPT !.b.idx = @ + 1], v |-> c2.start + c2.idx]
            ELSE [g |-> g2, v |-> 0]

GApply(g, start, len) ==    \* SeqGroup::apply_range
    IF (g.useA /\ ~HasNext(g.a)) \/ (~g.useA /\ HasNext(g.b))
    THEN [g EXCEPT !.a = [start |-> start, len |-> len, idx |-> 0]]
    ELSE [g EXCEPT !.b = [start |-> start, len |-> len, idx |-> 0]]

GNeedApply(g) == ~g.adding /\ (~HasNext(g.a) \/ ~HasNext(g.b))
NewGroup == [a |-> EmptyRange, b |-> EmptyRange, useA |-> FALSE, adding |-> FALSE]

IssuedBy(n) == Cardinality({i \in 1..Len(issuedA) : issuedA[i].n = n})

\* ------------------------------------------------------------------ part A actions
\* SequenceRequest::GetNextId
GetNextId(n, k) ==
    /\ IssuedBy(n) < MaxIssued /\ Len(infl[n]) < 3
    /\ IF grp[n][k] = NoGroup
       THEN /\ grp' = [grp EXCEPT ![n][k] = NewGroup]
            /\ infl' = [infl EXCEPT ![n] = Append(@, [kind |-> "use", key |-> k, granted |-> FALSE, start |-> 0])]
            /\ UNCHANGED <<next, issuedA>>
       ELSE LET r == GNext(grp[n][k]) IN
            IF r.v # 0
            THEN /\ issuedA' = Append(issuedA, [n |-> n, k |-> k, id |-> r.v])
                 \* "need_apply" -> the actor sends itself FillRange, which marks and asks for a range
                 /\ IF GNeedApply(r.g)
                    THEN /\ grp' = [grp EXCEPT ![n][k] = [r.g EXCEPT !.adding = TRUE]]
                         /\ infl' = [infl EXCEPT ![n] = Append(@, [kind |-> "fill", key |-> k, granted |-> FALSE, start |-> 0])]
                    ELSE /\ grp' = [grp EXCEPT ![n][k] = r.g] /\ UNCHANGED infl
                 /\ UNCHANGED next
            ELSE /\ grp' = [grp EXCEPT ![n][k] = r.g]
                 /\ infl' = [infl EXCEPT ![n] = Append(@, [kind |-> "use", key |-> k, granted |-> FALSE, start |-> 0])]
                 /\ UNCHANGED <<next, issuedA>>
    /\ UNCHANGED varsB

\* the replicated state machine applies SequenceRaftReq::NextRange(key, STEP) of some node's oldest ungranted request
Grant(n) ==
    /\ \E i \in 1..Len(infl[n]) :
         /\ ~infl[n][i].granted /\ \A j \in 1..(i - 1) : infl[n][j].granted
         /\ LET k == infl[n][i].key IN
              /\ infl' = [infl EXCEPT ![n][i] = [@ EXCEPT !.granted = TRUE, !.start = next[k]]]
              /\ next' = [next EXCEPT ![k] = @ + STEP]
    /\ UNCHANGED <<grp, issuedA>> /\ UNCHANGED varsB

\* the node's actor handles one response (handle_result)
Deliver(n) ==
    /\ \E i \in 1..Len(infl[n]) :
         /\ infl[n][i].granted
         /\ AllowReorder \/ i = 1
         /\ LET q == infl[n][i]
                k == q.key
                g1 == GApply(grp[n][k], q.start, STEP)
            IN /\ infl' = [infl EXCEPT ![n] = [j \in 1..(Len(@) - 1) |-> IF j < i THEN @[j] ELSE @[j + 1]]]
               /\ IF q.kind = "use"
                  THEN LET r == GNext(g1) IN
                       /\ grp' = [grp EXCEPT ![n][k] = r.g]
                       /\ issuedA' = IF r.v # 0 THEN Append(issuedA, [n |-> n, k |-> k, id |-> r.v]) ELSE issuedA
                  ELSE /\ grp' = [grp EXCEPT ![n][k] = [g1 EXCEPT !.adding = FALSE]]
                       /\ UNCHANGED issuedA
    /\ UNCHANGED next /\ UNCHANGED varsB

\* a node restarts: its cached ranges are gone (the replicated counter is not)
RestartA(n) ==
    /\ infl[n] = <<>>
    /\ grp' = [grp EXCEPT ![n] = [k \in Key |-> NoGroup]]
    /\ UNCHANGED <<next, infl, issuedA>> /\ UNCHANGED varsB

\* ------------------------------------------------------------------ part B: SimpleSequence
SNextState(s) ==    \* -> [s, id, mark] ; mark = 0: none
    IF s.cache = 0
    THEN [s |-> [last |-> s.last + 1, cache |-> BATCH - 1], id |-> s.last + 1, mark |-> s.last + BATCH]
    ELSE [s |-> [last |-> s.last + 1, cache |-> s.cache - 1], id |-> s.last + 1, mark |-> 0]
SSetValid(s, m) == IF s.last + s.cache < m THEN [last |-> m, cache |-> 0] ELSE s

\* the leader stamps a publish, the entry is committed; `changed` = the content differs from the stored one
Publish(changed) ==
    /\ Len(plog) < MaxLog /\ appliedB[leader] = Len(plog)
    /\ LET r == SNextState(seq[leader]) IN
         /\ seq' = [seq EXCEPT ![leader] = r.s]
         /\ plog' = Append(plog, [hid |-> r.id, mark |-> r.mark, changed |-> changed])
         /\ issuedB' = Append(issuedB, r.id)
    /\ UNCHANGED <<leader, appliedB>> /\ UNCHANGED varsA

\* a node applies the next committed entry (set_config)
ApplyB(n) ==
    /\ appliedB[n] < Len(plog)
    /\ LET e == plog[appliedB[n] + 1]
           learn == e.mark # 0 /\ (~Bug_SkipMarkOnNoChange \/ e.changed)
       IN seq' = [seq EXCEPT ![n] = IF learn THEN SSetValid(@, e.mark) ELSE @]
    /\ appliedB' = [appliedB EXCEPT ![n] = @ + 1]
    /\ UNCHANGED <<leader, plog, issuedB>> /\ UNCHANGED varsA

\* another node that has applied everything becomes leader
LeaderChange(n) ==
    /\ n # leader /\ appliedB[n] = Len(plog)
    /\ leader' = n
    /\ UNCHANGED <<seq, plog, appliedB, issuedB>> /\ UNCHANGED varsA

\* restart with full replay of the log: the in-memory sequence is rebuilt from the marks
RestartB(n) ==
    /\ seq' = [seq EXCEPT ![n] = [last |-> 0, cache |-> 0]]
    /\ appliedB' = [appliedB EXCEPT ![n] = 0]
    /\ leader # n
    /\ UNCHANGED <<leader, plog, issuedB>> /\ UNCHANGED varsA

Init ==
    /\ next = [k \in Key |-> 1]
    /\ grp = [n \in Node |-> [k \in Key |-> NoGroup]]
    /\ infl = [n \in Node |-> <<>>]
    /\ issuedA = <<>>
    /\ leader = CHOOSE n \in Node : TRUE
    /\ seq = [n \in Node |-> [last |-> 0, cache |-> 0]]
    /\ plog = <<>> /\ appliedB = [n \in Node |-> 0] /\ issuedB = <<>>

NextA == \E n \in Node : (\E k \in Key : GetNextId(n, k)) \/ Grant(n) \/ Deliver(n)
NextAR == NextA \/ \E n \in Node : RestartA(n)
NextB == (\E c \in BOOLEAN : Publish(c)) \/ (\E n \in Node : ApplyB(n) \/ LeaderChange(n) \/ RestartB(n))

SpecA == Init /\ [][NextA]_vars
SpecAR == Init /\ [][NextAR]_vars
SpecB == Init /\ [][NextB]_vars

\* ------------------------------------------------------------------ properties
\* no id of a key is handed out twice, by any node
UniqueA == \A i, j \in 1..Len(issuedA) : (i # j /\ issuedA[i].k = issuedA[j].k) => issuedA[i].id # issuedA[j].id
\* the ids one node hands out for one key increase
MonotoneA == \A i, j \in 1..Len(issuedA) :
                (i < j /\ issuedA[i].k = issuedA[j].k /\ issuedA[i].n = issuedA[j].n) => issuedA[i].id < issuedA[j].id
\* every id handed out was really reserved from the replicated counter
BelowCounter == \A i \in 1..Len(issuedA) : issuedA[i].id < next[issuedA[i].k]

\* history ids are never stamped twice and never go backwards
UniqueB == \A i, j \in 1..Len(issuedB) : i # j => issuedB[i] # issuedB[j]
MonotoneB == \A i \in 1..(Len(issuedB) - 1) : issuedB[i] < issuedB[i + 1]
=============================================================================
