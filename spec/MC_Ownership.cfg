SPECIFICATION Spec
CONSTANTS
  MaxN = 5
  LCM = 60
  Defect_IndexAmongAll = FALSE
  Defect_StaleActorRange = FALSE
INVARIANTS ExactlyOneOwner RoutingAgrees Export
CHECK_DEADLOCK FALSE
