SPECIFICATION TraceSpec
CONSTANTS
  LogIds <- TLogIds
  SnapIds <- TSnapIds
  MaxIndex = 0
  Defect_CatTruncateFirst = FALSE
  Defect_ListBeforeWritten = FALSE
  Defect_UnlinkUncovered = FALSE
INVARIANTS Recoverable
POSTCONDITION TraceAccepted
CHECK_DEADLOCK FALSE
