SPECIFICATION Spec
CONSTANTS
  Node = {1, 2, 3}
  Conn <- MCConn
  Home <- MCHome
  Addr = {"a", "b"}
  Attr = {"e1", "d1"}
  AllowReorder = TRUE
  MaxOps = 3
  Defect_StaleClientIndexOnSync = FALSE
PROPERTIES Converges
CHECK_DEADLOCK FALSE
