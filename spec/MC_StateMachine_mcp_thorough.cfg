SPECIFICATION Spec
CONSTANTS
  CKeys = {}
  Contents = {}
  CTypes = {}
  CDescs = {}
  NsIds = {}
  NsNames = {}
  UKeys = {}
  UVals = {}
  SKeys = {}
  IKeys = {}
  IWeights = {}
  CaKeys = {}
  CaVals = {}
  TKeys = {"t1"}
  TVals = {"f", "g"}
  SrvIds = {"1"}
  HistMax = 2
  MaxLog = 5
  MaxOps = 100000
  Defect_StaleSnapshotTail = FALSE
  Defect_NonAtomicCapture = FALSE
  Defect_McpStickyRefs = FALSE
  Defect_McpRcLostAtSnapshot = FALSE
VIEW View
INVARIANTS LiveIsFold SnapshotsExact ImportRebuildsAll
PROPERTIES RestartExact
CHECK_DEADLOCK FALSE
