SPECIFICATION ChkSpec
CONSTANTS
  MaxLen = 14
  MaxOps = 16
  MaxTerm = 5
  Sizes = {1}
  MaxBatch = 1
  Bug_TruncateKeepsK = FALSE
  WithCompaction = TRUE
  Mode = "chk"
  Votes = {0}
  MemberSets = {{1}}
INVARIANTS Chk04
CHECK_DEADLOCK FALSE
