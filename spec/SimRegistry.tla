---------------------------- MODULE SimRegistry ----------------------------
(* kind-first generation wrapper for Registry.tla (see SimStateMachine.tla) *)
EXTENDS Registry

CONSTANT SimKinds      \* sequence of kinds; repetitions weight the choice

VARIABLE pending

KindsAll == <<"http", "grpc", "weight", "beat", "sync", "range", "dereg", "disc", "check", "clear", "tick", "tick", "echo_upd", "echo_rm">>
KindsExpiry == <<"http", "http", "grpc", "weight", "beat", "beat", "sync", "sync", "range", "dereg", "check", "check", "tick", "tick", "tick">>

KindsConn == <<"http", "grpc", "grpc", "grpc", "weight", "sync", "dereg", "dereg", "disc", "disc", "check", "tick", "echo_upd", "echo_rm">>

SimInit == Init /\ pending = "none"

SimNext ==
    \/ /\ pending = "none" /\ ops < MaxOps /\ \E i \in 1..Len(SimKinds) : pending' = SimKinds[i] /\ UNCHANGED vars
    \/ /\ pending = "http" /\ pending' = "none" /\ \E s \in Svcs, a \in Addrs, eph \in BOOLEAN, en \in BOOLEAN : RegisterHttp(s, a, eph, en, 1)
    \/ /\ pending = "grpc" /\ pending' = "none" /\ \E s \in Svcs, a \in Addrs, c \in Conns, eph \in BOOLEAN : RegisterGrpc(s, a, c, eph)
    \/ /\ pending = "weight" /\ pending' = "none" /\ \E s \in Svcs, a \in Addrs : UpdateWeight(s, a, 2)
    \/ /\ pending = "beat" /\ pending' = "none" /\ \E s \in Svcs, a \in Addrs, eph \in BOOLEAN : Beat(s, a, eph)
    \/ /\ pending = "sync" /\ pending' = "none" /\ \E s \in Svcs, a \in Addrs, n \in Nodes, g \in BOOLEAN, h \in BOOLEAN : SyncUpdate(s, a, n, g, h)
    \/ /\ pending = "dereg" /\ pending' = "none" /\ \E s \in Svcs, a \in Addrs, c \in Clients \cup {""} : Deregister(s, a, c)
    \/ /\ pending = "disc" /\ pending' = "none" /\ \E c \in Clients : Disconnect(c)
    \/ /\ pending = "range" /\ pending' = "none" /\ \E o \in SUBSET Svcs : RefreshRange(o)
    \/ /\ pending = "check" /\ pending' = "none" /\ TimeCheck
    \/ /\ pending = "clear" /\ pending' = "none" /\ ClearEmpty
    \* applied Raft entries about persistent instances, whoever wrote them (this node after a local update, or another node)
    \/ /\ pending = "echo_upd" /\ pending' = "none" /\ \E s \in Svcs, a \in Addrs : RaftEchoUpdate(s, a)
    \/ /\ pending = "echo_rm" /\ pending' = "none" /\ \E s \in Svcs, a \in Addrs : (Has(s, a) /\ RaftEchoRemove(s, a))
    \/ /\ pending = "tick" /\ pending' = "none" /\ Tick
    \/ /\ pending \in {"weight", "dereg", "clear", "tick", "echo_upd", "echo_rm"} /\ ops < MaxOps - 1 /\ pending' = "none" /\ UNCHANGED vars

SimSpec == SimInit /\ [][SimNext]_<<vars, pending>>
=============================================================================
