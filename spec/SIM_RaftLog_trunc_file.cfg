SPECIFICATION SpecTrunc
CONSTANTS
  MaxLen = 14
  MaxOps = 18
  MaxTerm = 6
  Sizes = {1, 2, 3, 4, 8, 33}
  MaxBatch = 4
  Bug_TruncateKeepsK = FALSE
  WithCompaction = FALSE
INVARIANTS ExportBehaviour
CHECK_DEADLOCK FALSE
