SPECIFICATION Spec
INVARIANTS Chk
CHECK_DEADLOCK FALSE
