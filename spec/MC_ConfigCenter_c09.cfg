SPECIFICATION Spec
CONSTANTS
  Keys <- MCKeys3
  Contents = {"a", "b"}
  Types = {"json", "yaml"}
  Lids = {1}
  Clients = {"c1"}
  HistMax = 2
  MaxOps = 1000000
  Bug_WakeOnlyOldest = FALSE
  WithListeners = FALSE
VIEW MCView
INVARIANTS HistoryBounded HistoryEndsWithContent HistoryIdsIncrease ListedIffCommitted
CHECK_DEADLOCK FALSE
