SPECIFICATION Spec
CONSTANTS Mode = "chk16"
INVARIANTS Chk16
CHECK_DEADLOCK FALSE
