---------------------------- MODULE ExpiryCluster ----------------------------
(***************************************************************************)
(* C13, cluster part: "... on the node responsible for it and then         *)
(* everywhere".  Requirements over observations of a real three-node       *)
(* cluster: instances registered over HTTP stop beating; every node is     *)
(* sampled a few times per second.  One observation per (instance, state   *)
(* change): when the responsible node first reported the state (unhealthy  *)
(* / gone) and when each other node did (Never = not before the sampling   *)
(* ended or the next state change of that instance on the responsible      *)
(* node).  Times are milliseconds since the first registration.            *)
(***************************************************************************)
EXTENDS Naturals, Sequences, TLC, Json, IOUtils

CONSTANTS Late,          \* ms after the configured time-out within which the responsible node must act: the implementation
                         \* adds 3 s to both configured time-outs and checks every 2 s (+ 1.5 s sampling and scheduling slack)
          Budget,        \* ms a state change may take to reach the other nodes (sync batch 500 ms + check tick 2 s + slack)
          Never
VARIABLE phase
Obs == ndJsonDeserialize(IOEnv.OBS)
Range(s) == {s[i] : i \in 1..Len(s)}

\* the responsible node acts: not before the configured time-out has passed since the last modification it reports
\* for the instance (never while the clock has not run out), and not later than Late after it
OwnerNotEarly(o) == o.t_owner = Never \/ o.t_owner >= o.base + o.cfg
OwnerInTime(o) == IF o.base + o.cfg + Late > o.end THEN TRUE      \* the sampling ended before the deadline: nothing to say
                  ELSE o.t_owner # Never /\ o.t_owner <= o.base + o.cfg + Late
\* the change reaches every other node, and soon
Everywhere(o) == \A x \in Range(o.others) : x.t # Never /\ x.t <= o.t_owner + Budget
\* no node runs ahead of the responsible one by more than the sampling allows (sanity of the observation)
NotBefore(o) == \A x \in Range(o.others) : x.t = Never \/ x.t + Budget >= o.t_owner

\* "an instance whose heartbeats keep arriving within the time-out is never marked unhealthy or removed": instance B is
\* registered over HTTP and beats (PUT /instance/beat through changing nodes) until the sampling ends; every node must have
\* it soon after the registration and must never report it unhealthy or missing afterwards
NeverWhileBeating(o) == \A x \in Range(o.nodes) : x.t_seen # Never /\ x.t_seen <= o.registered_at_ms + Budget /\ x.t_bad = Never

Init == phase = "start"
Next == phase = "start" /\ phase' = "done"
Spec == Init /\ [][Next]_phase
Chk == phase = "done" =>
    \A i \in 1..Len(Obs) :
      IF Obs[i].kind = "beating" THEN NeverWhileBeating(Obs[i]) \/ PrintT(<<"REQ-FAILED", "NeverWhileBeating", i>>) ELSE
        /\ OwnerNotEarly(Obs[i]) \/ PrintT(<<"REQ-FAILED", "OwnerNotEarly", i>>)
        /\ OwnerInTime(Obs[i]) \/ PrintT(<<"REQ-FAILED", "OwnerInTime", i>>)
        /\ Everywhere(Obs[i]) \/ PrintT(<<"REQ-FAILED", "Everywhere", i>>)
        /\ NotBefore(Obs[i]) \/ PrintT(<<"REQ-FAILED", "NotBefore", i>>)
=============================================================================
