SPECIFICATION Spec
CONSTANTS
  Svcs = {"s1"}
  Addrs = {"a1"}
  Conns = {"c1", "c2"}
  Nodes = {"n1"}
  H = 1
  T = 2
  MaxNow = 3
  MaxOps = 1000000
  SyncHttpClientIds = FALSE
  Record = FALSE
  Defect_NoArmOnSync = FALSE
  Defect_TakeoverKeepsOrigin = FALSE
  Defect_EchoRemovesFlipped = FALSE
  Defect_ClientSetBeforeOwner = FALSE
VIEW StateView
INVARIANTS CountsMatch HealthyCountsMatch PerpetualMatches IndexedOnce ClientSetSound ClientSetComplete ArmedHealthy ArmedUnhealthy OwnedSupervised
PROPERTIES NeverExpireWhileBeating NeverExpireGrpcOrPersistent ExpiredAfterSweep OwnedExpiredAfterSweep EchoKeepsEphemeral
CHECK_DEADLOCK FALSE
