--------------------------- MODULE Trace_SeqGroup ---------------------------
(***************************************************************************)
(* Trace validation of the real SeqGroup double buffer against the         *)
(* transcription in Sequence.tla: the recorded protocol events (get /      *)
(* grant / deliver) are steps of GetNextId / Grant / Deliver, and every id *)
(* the real object hands out is the one the spec computes.                 *)
(***************************************************************************)
EXTENDS Sequence, IOUtils

Rec == ndJsonDeserialize(IOEnv.TRACE)
VARIABLE l
tvars == <<vars, l>>

TraceInit == Init /\ l = 1
IsEvent(e) == l <= Len(Rec) /\ Rec[l].event = e /\ l' = l + 1
LastId == IF Len(issuedA') > Len(issuedA) THEN issuedA'[Len(issuedA')].id ELSE 0

TReset == IsEvent("reset") /\ UNCHANGED vars
TGet == /\ IsEvent("get") /\ GetNextId(Rec[l].n, Rec[l].k) /\ LastId = Rec[l].id
        /\ Len(infl'[Rec[l].n]) = Len(infl[Rec[l].n]) + (IF Rec[l].req = "none" THEN 0 ELSE 1)
TGrant == /\ IsEvent("grant") /\ Grant(Rec[l].n)
          /\ \E i \in 1..Len(infl'[Rec[l].n]) : infl'[Rec[l].n][i].granted /\ ~infl[Rec[l].n][i].granted /\ infl'[Rec[l].n][i].start = Rec[l].start
TDeliver == /\ IsEvent("deliver") /\ Deliver(Rec[l].n) /\ LastId = Rec[l].id
            /\ infl[Rec[l].n][Rec[l].i].granted
            /\ Len(infl'[Rec[l].n]) = Len(infl[Rec[l].n]) - 1
            \* the delivered request is the one at position i: the remaining queue is the old one without it
            /\ infl'[Rec[l].n] = [j \in 1..(Len(infl[Rec[l].n]) - 1) |-> IF j < Rec[l].i THEN infl[Rec[l].n][j] ELSE infl[Rec[l].n][j + 1]]

TraceNext == TReset \/ TGet \/ TGrant \/ TDeliver
TraceSpec == TraceInit /\ [][TraceNext]_tvars

TraceAccepted ==
    LET d == TLCGet("stats").diameter IN
    IF d - 1 = Len(Rec) THEN TRUE
    ELSE Print(<<"TRACE-REJECTED at line", d, Rec[d]>>, FALSE)
=============================================================================
