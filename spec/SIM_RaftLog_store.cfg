SPECIFICATION Spec
CONSTANTS
  MaxLen = 16
  MaxOps = 22
  MaxTerm = 4
  Sizes = {1, 2, 3, 4, 8, 33}
  MaxBatch = 4
  Bug_TruncateKeepsK = FALSE
  WithCompaction = TRUE
INVARIANTS ExportBehaviour
CHECK_DEADLOCK FALSE
