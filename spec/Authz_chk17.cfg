SPECIFICATION Spec
CONSTANTS Mode = "chk17"
INVARIANTS Chk17
CHECK_DEADLOCK FALSE
