SPECIFICATION Spec
CONSTANTS
  Nodes = {1, 2}
  MaxTerm = 2
  AddrLens = {9, 12}
  MaxOps = 3
  InitThreshold = 9
INVARIANTS ExportBehaviour
CHECK_DEADLOCK FALSE
