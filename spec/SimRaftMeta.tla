---------------------------- MODULE SimRaftMeta ----------------------------
(* kind-first generation wrapper for RaftMeta.tla: TLC's simulator picks uniformly among successor STATES, and a step   *)
(* with many parameter values (25 hard states, 15 member sets, 12 addresses) crowds out the parameterless ones - two    *)
(* compactions with a membership change in between practically never came out of the plain Next.  Here the kind of the  *)
(* next operation is drawn first (tokens = weights), then its parameters.                                               *)
EXTENDS RaftMeta

VARIABLE pending

SimInit == Init /\ pending = "none"

Kinds == {"save_hs", "members1", "members2", "node_addr1", "node_addr2", "cat_log", "cat_snapshot1", "cat_snapshot2", "cat_snapshot3", "reopen1", "reopen2"}

SimNext ==
    \/ /\ pending = "none" /\ ops < MaxOps
       /\ \E k \in Kinds : pending' = k
       /\ UNCHANGED vars
    \/ /\ pending = "save_hs" /\ pending' = "none" /\ \E t \in 1..MaxTerm, v \in Nodes \cup {0} : SaveHardState(t, v)
    \/ /\ pending \in {"members1", "members2"} /\ pending' = "none" /\ \E m \in SUBSET Nodes : ApplyMembers(m)
    \/ /\ pending \in {"node_addr1", "node_addr2"} /\ pending' = "none" /\ \E n \in Nodes, len \in AddrLens : ApplyNodeAddr(n, len)
    \/ /\ pending = "cat_log" /\ pending' = "none" /\ CatalogueLog
    \/ /\ pending \in {"cat_snapshot1", "cat_snapshot2", "cat_snapshot3"} /\ pending' = "none" /\ CatalogueSnapshot
    \/ /\ pending \in {"reopen1", "reopen2"} /\ pending' = "none" /\ Reopen
    \* a kind that is not enabled in this state is dropped
    \/ /\ pending \in {"save_hs", "cat_log", "cat_snapshot1", "cat_snapshot2", "cat_snapshot3", "reopen1", "reopen2"} /\ pending' = "none" /\ UNCHANGED vars

SimSpec == SimInit /\ [][SimNext]_<<vars, pending>>
=============================================================================
