SPECIFICATION TraceSpec
CONSTANTS
  Node = {1, 2, 3}
  Conn <- TConn
  Home <- THome
  Addr = {"a1", "a2", "a3", "a4"}
  Attr = {"w2", "w3", "w4"}
  AllowReorder = FALSE
  MaxOps = 100000
  Defect_StaleClientIndexOnSync = FALSE
POSTCONDITION TraceAccepted
CHECK_DEADLOCK FALSE
