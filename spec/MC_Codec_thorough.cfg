SPECIFICATION Spec
CONSTANTS
  BUF0 = 4
  MaxChunk = 5
  RecLens = {2, 3, 4, 5, 7}
  MaxRecs = 4
  MaxZeros = 2
  MaxSteps = 100000
  Defect_IsEmptyDrained = FALSE
VIEW View
INVARIANTS TypeOK CursorsAgree WindowAgrees NextRefines IsEmptyRefines NoEarlyStop
CHECK_DEADLOCK FALSE
