SPECIFICATION Spec
CONSTANTS
  Late = 6500
  Budget = 3500
  Never = 999999999
INVARIANTS Chk
CHECK_DEADLOCK FALSE
