------------------------------ MODULE Registry ------------------------------
(***************************************************************************)
(* The service registry of one node (NamingActor + Service,                *)
(* src/naming/core.rs, src/naming/service.rs): instances and the           *)
(* INCREMENTALLY maintained bookkeeping around them - counters, the        *)
(* persistent-instance set, the per-connection reverse map, the service    *)
(* index, the two heart-beat timeout queues (C11, C12, C13).               *)
(*                                                                         *)
(* An instance is [h healthy, en enabled, eph ephemeral, grpc, fc from     *)
(* another cluster node, cl owning client/connection id ("" = none),       *)
(* lm last-modified time, w weight].                                       *)
(* Actions = the code paths that touch the bookkeeping:                    *)
(*   Register      NamingCmd::Update from HTTP (cl = "") or a gRPC         *)
(*                 connection, optional update tag                         *)
(*   Beat          HTTP heart-beat = Update with the all-false tag         *)
(*   SyncUpdate    NamingCmd::UpdateFromSync / UpdateBatch (other node)    *)
(*   RefreshRange  NamingCmd::ClusterRefreshProcessRange: the set of       *)
(*                 services this node is responsible for changes (a node   *)
(*                 died or joined); HTTP instances of the services it now  *)
(*                 owns are TAKEN OVER: they become its own and are put    *)
(*                 under heart-beat supervision                            *)
(*   Deregister    NamingCmd::Delete with a presented client id            *)
(*   Disconnect    NamingCmd::RemoveClient                                 *)
(*   TimeCheck     the periodic sweep of the two timeout queues            *)
(*   ClearEmpty    the periodic removal of services without instances      *)
(*   Tick          time passes                                             *)
(* Time is an integer clock; H < T are the health / instance time-outs.    *)
(***************************************************************************)
EXTENDS Naturals, Integers, Sequences, FiniteSets, TLC, Json

CONSTANTS
    Svcs, Addrs, Conns,     \* services, instance addresses, gRPC connection ids
    Nodes,                  \* other cluster nodes (their sync client ids)
    H, T,                   \* health / instance time-out in ticks, H < T
    MaxNow, MaxOps,
    SyncHttpClientIds,      \* TRUE: HTTP instances synced from other nodes may carry a client id (no real sender does)
    Record,                 \* TRUE: keep the full history of operations and observations (generation of behaviours)
    Defect_ClientSetBeforeOwner, \* TRUE: the connection map is updated from the REQUEST's client id before the
                                 \* service decided who owns the instance (code before the fix)
    Defect_NoArmOnSync,          \* TRUE: an update that arrives by cluster sync never arms a time-out queue, and an
                                 \* unhealthy instance is armed in the healthy queue (code before fix 4a2756a)
    Defect_EchoRemovesFlipped,   \* TRUE: the applied RemoveInstance entry removes the instance stored at the address also
                                 \* when it is ephemeral by now (code before the fix)
    Defect_TakeoverKeepsOrigin   \* TRUE: a taken-over instance keeps its from-cluster mark, so the sweep skips it
                                 \* (code before the take-over fix)

VARIABLES
    inst,       \* svc -> (addr -> instance record)
    cnt, hcnt,  \* svc -> Int      (reported instance count / healthy count)
    perp,       \* svc -> set of addrs (perpetual_host_set)
    hto, uto,   \* svc -> set of [a, t]  (healthy / unhealthy timeout queue entries)
    cset,       \* client id -> set of <<svc, addr>> (client_instance_set)
    index,      \* set of services listed in the namespace/group index
    exists,     \* set of services present in service_map
    emptyAt,    \* svc -> time at which the service last became empty (last_empty_times), -1 = never
    own,        \* set of services in this node's process range (current_range; {} on a stand-alone node)
    now, ops, hist

vars == <<inst, cnt, hcnt, perp, hto, uto, cset, index, exists, emptyAt, own, now, ops, hist>>

Clients == Conns \cup Nodes
NoTag == [weight |-> TRUE, metadata |-> TRUE, enabled |-> TRUE, ephemeral |-> TRUE]    \* full update
BeatTag == [weight |-> FALSE, metadata |-> FALSE, enabled |-> FALSE, ephemeral |-> FALSE]
TimeoutEnabled(i) == i.eph /\ ~i.grpc /\ ~i.fc

\* the history of a behaviour (for export to the replay harness) is kept only when Record is set; model checking keeps
\* just the name of the last operation, which the action properties below look at
Rec(opname, r) == IF Record THEN Append(hist, r) ELSE <<[op |-> opname]>>
Put(f, k, v) == [x \in (DOMAIN f) \cup {k} |-> IF x = k THEN v ELSE f[x]]
Del(f, k) == [x \in (DOMAIN f) \ {k} |-> f[x]]
Has(s, a) == a \in DOMAIN inst[s]

\* ------------------------------------------------------------------ C12: what an instance query returns
\* only enabled instances; healthy-only filters the unhealthy ones out - unless the protection threshold
\* (default 0) is reached, i.e. no enabled instance is healthy: then all enabled instances are returned
QueryOf(is, healthyOnly) ==
    LET en == {a \in DOMAIN is : is[a].en}
        hl == {a \in en : is[a].h}
    IN IF en # {} /\ hl = {} THEN en ELSE IF healthyOnly THEN hl ELSE en
\* the same with the service's protection threshold Prot[s]/2 (0 = the default, 1 = a threshold of 0.5 set through the
\* service API): protection applies when healthy / enabled <= threshold, counted over the ENABLED instances - the list the
\* query is about to return - and then every enabled instance is returned and REPORTED healthy.  Prot is a definition
\* (all 0) that the front-door configuration overrides.
Prot == [s \in Svcs |-> 0]
Protected(s, is) ==
    LET en == {a \in DOMAIN is : is[a].en}
        hl == {a \in en : is[a].h}
    IN en # {} /\ 2 * Cardinality(hl) <= Prot[s] * Cardinality(en)
QueryOfS(s, is, healthyOnly) ==
    LET en == {a \in DOMAIN is : is[a].en}
        hl == {a \in en : is[a].h}
    IN IF Protected(s, is) THEN en ELSE IF healthyOnly THEN hl ELSE en

\* ------------------------------------------------------------------ Service::update_instance
\* returns the new per-service pieces; `new` is the instance as the caller built it
SvcUpdate(s, a, new0, tag, fromSync) ==
    LET old == IF Has(s, a) THEN inst[s][a] ELSE [none |-> TRUE]
        exists0 == Has(s, a)
        \* an ephemeral HTTP update over a gRPC-owned instance keeps the gRPC ownership
        keepOwner == exists0 /\ new0.eph /\ ~new0.grpc /\ old.grpc
        n1 == IF keepOwner THEN [new0 EXCEPT !.grpc = old.grpc, !.cl = old.cl, !.fc = old.fc] ELSE new0
        replaced == IF exists0 /\ old.cl # "" /\ n1.cl # old.cl THEN old.cl ELSE ""
        \* health counter follows old.healthy -> new.healthy (BEFORE the tag is applied, as in the code)
        hdelta == IF ~exists0 THEN (IF n1.h THEN 1 ELSE 0)
                  ELSE IF ~old.h /\ n1.h THEN 1 ELSE IF old.h /\ ~n1.h THEN -1 ELSE 0
        \* fields not selected by the tag keep their old value
        n2 == IF exists0 /\ tag # NoTag
              THEN [n1 EXCEPT !.en = IF tag.enabled THEN n1.en ELSE old.en,
                              !.eph = IF tag.ephemeral THEN n1.eph ELSE old.eph,
                              !.w = IF tag.weight THEN n1.w ELSE old.w]
              ELSE n1
        addPerp == IF exists0 THEN (~n2.eph /\ old.eph) ELSE ~n2.eph
        remPerp == exists0 /\ n2.eph /\ ~old.eph
        \* what the node replicates afterwards (UpdatePerpetualType): a persistent instance that is new or whose
        \* selected enabled flag / weight changed is written to Raft, an instance that stopped being persistent is
        \* taken out of the replicated set (RaftEchoUpdate / RaftEchoRemove below are the applied entries)
        tagNone == ~tag.weight /\ ~tag.metadata /\ ~tag.enabled /\ ~tag.ephemeral
        pchanged == exists0 /\ tag # NoTag /\ ~tagNone /\ ((tag.enabled /\ old.en # n1.en) \/ (tag.weight /\ old.w # n1.w))
        ptype == IF addPerp THEN "new" ELSE IF remPerp THEN "remove" ELSE IF ~n2.eph /\ pchanged THEN "update" ELSE "none"
    IN [ptype |-> ptype, inst |-> Put(inst[s], a, n2),
        cnt |-> IF exists0 THEN cnt[s] ELSE cnt[s] + 1,
        hcnt |-> hcnt[s] + hdelta,
        perp |-> IF addPerp THEN perp[s] \cup {a} ELSE IF remPerp THEN perp[s] \ {a} ELSE perp[s],
        \* every instance this node supervises is armed, whatever path delivered it: healthy ones wait for the
        \* health time-out, already unhealthy ones for the instance time-out
        hto |-> IF Defect_NoArmOnSync
                THEN (IF TimeoutEnabled(n2) /\ ~fromSync THEN hto[s] \cup {[a |-> a, t |-> n2.lm]} ELSE hto[s])
                ELSE (IF TimeoutEnabled(n2) /\ n2.h THEN hto[s] \cup {[a |-> a, t |-> n2.lm]} ELSE hto[s]),
        uto |-> IF ~Defect_NoArmOnSync /\ TimeoutEnabled(n2) /\ ~n2.h THEN uto[s] \cup {[a |-> a, t |-> n2.lm]} ELSE uto[s],
        replaced |-> replaced, final |-> n2]

\* NamingActor::update_instance
\* an instance of a service this node is responsible for that is not owned by a gRPC connection becomes the node's own
Adopt(s, i) == IF s \in own /\ ~i.grpc THEN [i EXCEPT !.fc = FALSE, !.cl = ""] ELSE i
DoUpdate(s, a, new0, tag, fromSync, opname) ==
    LET new == Adopt(s, new0)
        r == SvcUpdate(s, a, new, tag, fromSync)
        who == IF Defect_ClientSetBeforeOwner THEN new ELSE r.final
        cs1 == IF (who.grpc \/ who.fc) /\ who.cl # ""
               THEN [cset EXCEPT ![who.cl] = @ \cup {<<s, a>>}] ELSE cset
        cs2 == IF r.replaced # "" THEN [cs1 EXCEPT ![r.replaced] = @ \ {<<s, a>>}] ELSE cs1
    IN /\ inst' = [inst EXCEPT ![s] = r.inst]
       /\ cnt' = [cnt EXCEPT ![s] = r.cnt]
       /\ hcnt' = [hcnt EXCEPT ![s] = r.hcnt]
       /\ perp' = [perp EXCEPT ![s] = r.perp]
       /\ hto' = [hto EXCEPT ![s] = r.hto]
       /\ uto' = [uto EXCEPT ![s] = r.uto]
       /\ cset' = cs2
       /\ index' = index \cup {s} /\ exists' = exists \cup {s}
       /\ UNCHANGED <<emptyAt, own, now>>
       /\ ops < MaxOps /\ ops' = ops + 1
       /\ hist' = Rec(opname, [op |-> opname, s |-> s, a |-> a, new |-> new0, eff |-> new, tag |-> tag, from_sync |-> fromSync, now |-> now, ptype |-> r.ptype,
                                obs |-> [inst |-> inst', cnt |-> cnt', hcnt |-> hcnt', perp |-> perp', cset |-> cset', index |-> index',
                                      q_all |-> [x \in Svcs |-> QueryOfS(x, inst'[x], FALSE)], q_healthy |-> [x \in Svcs |-> QueryOfS(x, inst'[x], TRUE)], q_prot |-> [x \in Svcs |-> Protected(x, inst'[x])], prot |-> Prot]])

HttpInst(eph, en, w) == [h |-> TRUE, en |-> en, eph |-> eph, grpc |-> FALSE, fc |-> FALSE, cl |-> "", lm |-> now, w |-> w]
GrpcInst(c, eph, en, w) == [h |-> TRUE, en |-> en, eph |-> eph, grpc |-> TRUE, fc |-> FALSE, cl |-> c, lm |-> now, w |-> w]
\* what the other nodes send: a connection-owned instance carries its connection's id (here: one id per sending node),
\* an HTTP instance carries none (its owner cleared it) - unless SyncHttpClientIds over-approximates the senders
SyncInst(n, grpc, h) == [h |-> h, en |-> TRUE, eph |-> TRUE, grpc |-> grpc, fc |-> TRUE, cl |-> IF grpc \/ SyncHttpClientIds THEN n ELSE "", lm |-> now, w |-> 1]

RegisterHttp(s, a, eph, en, w) == DoUpdate(s, a, HttpInst(eph, en, w), NoTag, FALSE, "register_http")
RegisterGrpc(s, a, c, eph) == DoUpdate(s, a, GrpcInst(c, eph, TRUE, 1), NoTag, FALSE, "register_grpc")
\* console / openapi partial update: only the weight (tag.weight), request carries default ephemeral = TRUE
UpdateWeight(s, a, w) == Has(s, a) /\ DoUpdate(s, a, HttpInst(TRUE, TRUE, w), [BeatTag EXCEPT !.weight = TRUE], FALSE, "update_weight")
\* a heart-beat (tag selects nothing).  eph is the ephemeral flag AS THE REQUEST SPELLS IT: the beat handler copies it into
\* the instance it builds, and although the tag never lets it change the stored kind, it decides whether the beat is adopted by
\* the gRPC connection that owns the address (keepOwner asks for an ephemeral request) - a beat that says ephemeral=false
\* over a connection-owned instance takes the instance away from its connection
Beat(s, a, eph) == DoUpdate(s, a, HttpInst(eph, TRUE, 1), BeatTag, FALSE, "beat")
SyncUpdate(s, a, n, grpc, h) == DoUpdate(s, a, SyncInst(n, grpc, h), NoTag, TRUE, "sync_update")

\* ------------------------------------------------------------------ the same operations as the ENTRY POINTS build them
\* (front-door leg, SimRegistryFront.tla): every handler derives its own update tag from the request, and an existing
\* instance keeps what the tag does not select.
\*   HTTP  POST/PUT /nacos/v1/ns/instance (openapi/naming/instance.rs): weight selected iff it is given and not 1,
\*         enabled / ephemeral selected iff the parameter is given (the leg always gives both), metadata not given
\*   gRPC  InstanceRequest registerInstance (grpc/handler/naming_instance.rs): weight iff not 1, metadata always,
\*         enabled only when the request DISABLES the instance, ephemeral never (an existing instance keeps its kind)
ApiTagHttp(w) == [weight |-> w # 1, metadata |-> FALSE, enabled |-> TRUE, ephemeral |-> TRUE]
ApiTagGrpc(en, w) == [weight |-> w # 1, metadata |-> TRUE, enabled |-> ~en, ephemeral |-> FALSE]
ApiRegisterHttp(s, a, eph, en, w) == DoUpdate(s, a, HttpInst(eph, en, w), ApiTagHttp(w), FALSE, "api_register_http")
ApiRegisterGrpc(s, a, c, eph, en, w) == DoUpdate(s, a, GrpcInst(c, eph, en, w), ApiTagGrpc(en, w), FALSE, "api_register_grpc")
\* the gRPC request carries the instance's health as the client reports it (the HTTP handler always registers healthy)
ApiRegisterGrpcH(s, a, c, eph, en, w, h) == DoUpdate(s, a, [GrpcInst(c, eph, en, w) EXCEPT !.h = h], ApiTagGrpc(en, w), FALSE, "api_register_grpc")
\* PUT with the weight alone (w # 1): everything else is kept
ApiUpdateWeight(s, a, w) == Has(s, a) /\ w # 1 /\ DoUpdate(s, a, HttpInst(TRUE, TRUE, w), [BeatTag EXCEPT !.weight = TRUE], FALSE, "api_update_weight")
ApiBeat(s, a) == DoUpdate(s, a, HttpInst(TRUE, TRUE, 1), BeatTag, FALSE, "api_beat")

\* ------------------------------------------------------------------ Service::remove_instance + NamingActor::remove_instance
RemoveOne(st, s, a, client, checkClient) ==
    \* st = [inst, cnt, hcnt, perp, cset, emptyAt] ; returns the same shape
    IF a \notin DOMAIN st.inst[s] THEN st
    ELSE LET old == st.inst[s][a]
             refused == checkClient /\ old.eph /\ client # "" /\ old.cl # client
         IN IF refused THEN st
            ELSE [inst |-> [st.inst EXCEPT ![s] = Del(@, a)],
                  cnt |-> [st.cnt EXCEPT ![s] = @ - 1],
                  hcnt |-> [st.hcnt EXCEPT ![s] = IF old.h THEN @ - 1 ELSE @],
                  perp |-> [st.perp EXCEPT ![s] = IF old.eph THEN @ ELSE @ \ {a}],
                  cset |-> IF old.cl # "" THEN [st.cset EXCEPT ![old.cl] = @ \ {<<s, a>>}] ELSE st.cset,
                  emptyAt |-> IF st.cnt[s] - 1 = 0 THEN [st.emptyAt EXCEPT ![s] = now] ELSE st.emptyAt]

Cur == [inst |-> inst, cnt |-> cnt, hcnt |-> hcnt, perp |-> perp, cset |-> cset, emptyAt |-> emptyAt]
Install(st) == /\ inst' = st.inst /\ cnt' = st.cnt /\ hcnt' = st.hcnt /\ perp' = st.perp
               /\ cset' = st.cset /\ emptyAt' = st.emptyAt

Deregister(s, a, client) ==
    /\ s \in exists
    /\ Install(RemoveOne(Cur, s, a, client, TRUE))
    /\ UNCHANGED <<hto, uto, index, exists, own, now>>
    /\ ops < MaxOps /\ ops' = ops + 1
    /\ hist' = Rec("deregister", [op |-> "deregister", s |-> s, a |-> a, client |-> client, now |-> now,
                             obs |-> [inst |-> inst', cnt |-> cnt', hcnt |-> hcnt', perp |-> perp', cset |-> cset', index |-> index',
                                      q_all |-> [x \in Svcs |-> QueryOfS(x, inst'[x], FALSE)], q_healthy |-> [x \in Svcs |-> QueryOfS(x, inst'[x], TRUE)], q_prot |-> [x \in Svcs |-> Protected(x, inst'[x])], prot |-> Prot]])

\* ------------------------------------------------------------------ the replicated side of persistent instances
\* A node with Raft (every real node, a single one too) writes a persistent instance to the Raft log after the local
\* update (NamingCmd::NotifyUpdateRaftInstance -> NamingRaftReq::UpdateInstance); the applied entry comes back through
\* process_naming_raft_request as an update that carries no connection (InstanceRegisterParam has no client id):
\* the instance stops belonging to the gRPC connection that registered it - which is how "a persistent instance is
\* never removed when a connection ends" (C12) comes about.
RaftEchoUpdate(s, a) ==
    /\ Has(s, a) /\ ~inst[s][a].eph
    /\ DoUpdate(s, a, [inst[s][a] EXCEPT !.grpc = FALSE, !.cl = "", !.fc = FALSE], NoTag, TRUE, "raft_echo_update")
\* the applied NamingRaftReq::RemoveInstance that follows a persistent -> ephemeral flip (or the removal of a persistent
\* instance): the address leaves the REPLICATED set.  An instance that is ephemeral by now is not replicated state and
\* stays (Defect_EchoRemovesFlipped = the code before the fix: the entry removed whatever was stored at the address)
RaftEchoRemove(s, a) ==
    /\ s \in exists
    /\ IF Has(s, a) /\ (~inst[s][a].eph \/ Defect_EchoRemovesFlipped)
       THEN Install(RemoveOne(Cur, s, a, "", FALSE))
       ELSE UNCHANGED <<inst, cnt, hcnt, perp, cset, emptyAt>>
    /\ UNCHANGED <<hto, uto, index, exists, own, now>>
    /\ ops < MaxOps /\ ops' = ops + 1
    /\ hist' = Rec("raft_echo_remove", [op |-> "raft_echo_remove", s |-> s, a |-> a, now |-> now,
                             obs |-> [inst |-> inst', cnt |-> cnt', hcnt |-> hcnt', perp |-> perp', cset |-> cset', index |-> index',
                                      q_all |-> [x \in Svcs |-> QueryOfS(x, inst'[x], FALSE)], q_healthy |-> [x \in Svcs |-> QueryOfS(x, inst'[x], TRUE)], q_prot |-> [x \in Svcs |-> Protected(x, inst'[x])], prot |-> Prot]])

RECURSIVE RemoveAll(_, _, _)
RemoveAll(st, keys, c) ==
    IF keys = {} THEN st
    ELSE LET k == CHOOSE x \in keys : TRUE IN RemoveAll(RemoveOne(st, k[1], k[2], c, TRUE), keys \ {k}, c)

Disconnect(c) ==
    /\ LET keys == cset[c]
           st0 == [Cur EXCEPT !.cset = [cset EXCEPT ![c] = {}]]
       IN Install(RemoveAll(st0, keys, c))
    /\ UNCHANGED <<hto, uto, index, exists, own, now>>
    /\ ops < MaxOps /\ ops' = ops + 1
    /\ hist' = Rec("disconnect", [op |-> "disconnect", client |-> c, now |-> now,
                             obs |-> [inst |-> inst', cnt |-> cnt', hcnt |-> hcnt', perp |-> perp', cset |-> cset', index |-> index',
                                      q_all |-> [x \in Svcs |-> QueryOfS(x, inst'[x], FALSE)], q_healthy |-> [x \in Svcs |-> QueryOfS(x, inst'[x], TRUE)], q_prot |-> [x \in Svcs |-> Protected(x, inst'[x])], prot |-> Prot]])

\* ------------------------------------------------------------------ Service::time_check for every service
\* unhealthy queue first (removal), then healthy queue (mark unhealthy), each entry re-validated
SvcTimeCheck(st, s, healthyTime, offlineTime) ==
    LET due_u == {e \in st.uto[s] : e.t <= offlineTime}
        removable == {e.a : e \in {x \in due_u : x.a \in DOMAIN st.inst[s] =>
                                      (TimeoutEnabled(st.inst[s][x.a]) /\ st.inst[s][x.a].lm <= offlineTime)}}
        rem == removable \cap DOMAIN st.inst[s]
        inst1 == [x \in (DOMAIN st.inst[s]) \ rem |-> st.inst[s][x]]
        cnt1 == st.cnt[s] - Cardinality(rem)
        hcnt1 == st.hcnt[s] - Cardinality({a \in rem : st.inst[s][a].h})
        due_h == {e \in st.hto[s] : e.t <= healthyTime}
        markable == {e.a : e \in {x \in due_h : x.a \in DOMAIN inst1 =>
                                     (TimeoutEnabled(inst1[x.a]) /\ inst1[x.a].lm <= healthyTime)}}
        mark == {a \in markable \cap DOMAIN inst1 : inst1[a].h}          \* already unhealthy ones are left alone
        inst2 == [x \in DOMAIN inst1 |-> IF x \in mark THEN [inst1[x] EXCEPT !.h = FALSE] ELSE inst1[x]]
    IN [inst |-> inst2, cnt |-> cnt1, hcnt |-> hcnt1 - Cardinality(mark),
        uto |-> (st.uto[s] \ due_u) \cup {[a |-> a, t |-> inst1[a].lm] : a \in mark},
        hto |-> st.hto[s] \ due_h,
        removed |-> rem, marked |-> mark]

TimeCheck ==
    /\ LET ht == now - H
           ot == now - T
           base == [inst |-> inst, cnt |-> cnt, hcnt |-> hcnt, uto |-> uto, hto |-> hto]
           res == [s \in Svcs |-> SvcTimeCheck(base, s, ht, ot)]
       IN /\ inst' = [s \in Svcs |-> res[s].inst]
          /\ cnt' = [s \in Svcs |-> res[s].cnt]
          /\ hcnt' = [s \in Svcs |-> res[s].hcnt]
          /\ uto' = [s \in Svcs |-> res[s].uto]
          /\ hto' = [s \in Svcs |-> res[s].hto]
          /\ emptyAt' = [s \in Svcs |-> IF res[s].removed # {} /\ res[s].cnt = 0 THEN now ELSE emptyAt[s]]
          /\ UNCHANGED <<perp, cset, index, exists, own, now>>
          /\ hist' = Rec("time_check", [op |-> "time_check", now |-> now,
                                   removed |-> [s \in Svcs |-> res[s].removed], marked |-> [s \in Svcs |-> res[s].marked],
                                   obs |-> [inst |-> inst', cnt |-> cnt', hcnt |-> hcnt', perp |-> perp', cset |-> cset', index |-> index',
                                      q_all |-> [x \in Svcs |-> QueryOfS(x, inst'[x], FALSE)], q_healthy |-> [x \in Svcs |-> QueryOfS(x, inst'[x], TRUE)], q_prot |-> [x \in Svcs |-> Protected(x, inst'[x])], prot |-> Prot]])
    /\ ops < MaxOps /\ ops' = ops + 1

\* services without instances disappear from the map and the index
ClearEmpty ==
    /\ \E s \in exists : cnt[s] <= 0
    /\ LET gone == {s \in exists : cnt[s] <= 0} IN
         /\ exists' = exists \ gone /\ index' = index \ gone
         /\ hto' = [s \in Svcs |-> IF s \in gone THEN {} ELSE hto[s]]
         /\ uto' = [s \in Svcs |-> IF s \in gone THEN {} ELSE uto[s]]
    /\ UNCHANGED <<inst, cnt, hcnt, perp, cset, emptyAt, own, now>>
    /\ ops < MaxOps /\ ops' = ops + 1
    /\ hist' = Rec("clear_empty", [op |-> "clear_empty", now |-> now,
                             obs |-> [inst |-> inst', cnt |-> cnt', hcnt |-> hcnt', perp |-> perp', cset |-> cset', index |-> index',
                                      q_all |-> [x \in Svcs |-> QueryOfS(x, inst'[x], FALSE)], q_healthy |-> [x \in Svcs |-> QueryOfS(x, inst'[x], TRUE)], q_prot |-> [x \in Svcs |-> Protected(x, inst'[x])], prot |-> Prot]])

\* ------------------------------------------------------------------ NamingActor::refresh_process_range
\* the range of services this node is responsible for becomes newOwn; in every service of the new range the instances
\* that came from another node and are not connection-owned are taken over (Service::do_refresh_process_range)
TakeOver(s) ==
    LET taken == {a \in DOMAIN inst[s] : ~inst[s][a].grpc /\ inst[s][a].fc}
        flip(i) == IF i.eph /\ ~Defect_TakeoverKeepsOrigin THEN [i EXCEPT !.fc = FALSE] ELSE i
    IN [inst |-> [a \in DOMAIN inst[s] |-> IF a \in taken THEN flip(inst[s][a]) ELSE inst[s][a]],
        hto |-> hto[s] \cup {[a |-> a, t |-> inst[s][a].lm] : a \in {x \in taken : inst[s][x].h \/ Defect_TakeoverKeepsOrigin}},
        uto |-> uto[s] \cup {[a |-> a, t |-> inst[s][a].lm] : a \in {x \in taken : ~inst[s][x].h /\ ~Defect_TakeoverKeepsOrigin}}]
RefreshRange(newOwn) ==
    /\ newOwn # own /\ own' = newOwn
    /\ inst' = [s \in Svcs |-> IF s \in newOwn /\ s \in exists THEN TakeOver(s).inst ELSE inst[s]]
    /\ hto' = [s \in Svcs |-> IF s \in newOwn /\ s \in exists THEN TakeOver(s).hto ELSE hto[s]]
    /\ uto' = [s \in Svcs |-> IF s \in newOwn /\ s \in exists THEN TakeOver(s).uto ELSE uto[s]]
    /\ UNCHANGED <<cnt, hcnt, perp, cset, index, exists, emptyAt, now>>
    /\ ops < MaxOps /\ ops' = ops + 1
    /\ hist' = Rec("refresh_range", [op |-> "refresh_range", own |-> newOwn, now |-> now,
                             obs |-> [inst |-> inst', cnt |-> cnt', hcnt |-> hcnt', perp |-> perp', cset |-> cset', index |-> index',
                                      q_all |-> [x \in Svcs |-> QueryOfS(x, inst'[x], FALSE)], q_healthy |-> [x \in Svcs |-> QueryOfS(x, inst'[x], TRUE)], q_prot |-> [x \in Svcs |-> Protected(x, inst'[x])], prot |-> Prot]])

Tick ==
    /\ now < MaxNow /\ now' = now + 1
    /\ UNCHANGED <<inst, cnt, hcnt, perp, hto, uto, cset, index, exists, emptyAt, own>>
    /\ ops < MaxOps /\ ops' = ops + 1
    /\ hist' = Rec("tick", [op |-> "tick", now |-> now + 1,
                             obs |-> [inst |-> inst', cnt |-> cnt', hcnt |-> hcnt', perp |-> perp', cset |-> cset', index |-> index',
                                      q_all |-> [x \in Svcs |-> QueryOfS(x, inst'[x], FALSE)], q_healthy |-> [x \in Svcs |-> QueryOfS(x, inst'[x], TRUE)], q_prot |-> [x \in Svcs |-> Protected(x, inst'[x])], prot |-> Prot]])

Init ==
    /\ inst = [s \in Svcs |-> [a \in {} |-> 0]]
    /\ cnt = [s \in Svcs |-> 0] /\ hcnt = [s \in Svcs |-> 0]
    /\ perp = [s \in Svcs |-> {}] /\ hto = [s \in Svcs |-> {}] /\ uto = [s \in Svcs |-> {}]
    /\ cset = [c \in Clients |-> {}]
    /\ index = {} /\ exists = {} /\ emptyAt = [s \in Svcs |-> -1] /\ own = {}
    /\ now = 0 /\ ops = 0 /\ hist = <<>>

Next ==
    \/ \E s \in Svcs, a \in Addrs, eph \in BOOLEAN, en \in BOOLEAN : RegisterHttp(s, a, eph, en, 1)
    \/ \E s \in Svcs, a \in Addrs, c \in Conns, eph \in BOOLEAN : RegisterGrpc(s, a, c, eph)
    \/ \E s \in Svcs, a \in Addrs : UpdateWeight(s, a, 2)
    \/ \E s \in Svcs, a \in Addrs, eph \in BOOLEAN : Beat(s, a, eph)
    \/ \E s \in Svcs, a \in Addrs, n \in Nodes, g \in BOOLEAN, h \in BOOLEAN : SyncUpdate(s, a, n, g, h)
    \/ \E s \in Svcs, a \in Addrs, c \in Clients \cup {""} : Deregister(s, a, c)
    \/ \E c \in Clients : Disconnect(c)
    \/ \E o \in SUBSET Svcs : RefreshRange(o)
    \/ \E s \in Svcs, a \in Addrs : RaftEchoUpdate(s, a)
    \/ \E s \in Svcs, a \in Addrs : RaftEchoRemove(s, a)
    \/ TimeCheck
    \/ ClearEmpty
    \/ Tick

Spec == Init /\ [][Next]_vars

\* ------------------------------------------------------------------ C11: bookkeeping matches the instances
CountsMatch == \A s \in Svcs : cnt[s] = Cardinality(DOMAIN inst[s])
HealthyCountsMatch == \A s \in Svcs : hcnt[s] = Cardinality({a \in DOMAIN inst[s] : inst[s][a].h})
PerpetualMatches == \A s \in Svcs : perp[s] = {a \in DOMAIN inst[s] : ~inst[s][a].eph}
IndexedOnce == index = exists /\ \A s \in Svcs : DOMAIN inst[s] # {} => s \in index
ClientSetSound == \A c \in Clients : \A k \in cset[c] : k[2] \in DOMAIN inst[k[1]] /\ inst[k[1]][k[2]].cl = c
\* the converse for connections: every instance owned by a gRPC connection is recorded for it
ClientSetComplete == \A s \in Svcs : \A a \in DOMAIN inst[s] :
                        (inst[s][a].grpc /\ inst[s][a].cl \in Conns) => <<s, a>> \in cset[inst[s][a].cl]

\* ------------------------------------------------------------------ C13: heart-beat expiry
\* every healthy instance under heart-beat supervision is armed in the healthy queue at its last-modified time
ArmedHealthy == \A s \in Svcs : \A a \in DOMAIN inst[s] :
                    (TimeoutEnabled(inst[s][a]) /\ inst[s][a].h /\ s \in exists) => [a |-> a, t |-> inst[s][a].lm] \in hto[s]
ArmedUnhealthy == \A s \in Svcs : \A a \in DOMAIN inst[s] :
                    (TimeoutEnabled(inst[s][a]) /\ ~inst[s][a].h /\ s \in exists) => \E e \in uto[s] : e.a = a /\ e.t <= inst[s][a].lm
\* the node supervises every ephemeral instance of a service it is responsible for that no gRPC connection owns
OwnedSupervised == \A s \in own : \A a \in DOMAIN inst[s] : (inst[s][a].eph /\ ~inst[s][a].grpc) => ~inst[s][a].fc
\* ... so that a silent one is unhealthy after the next sweep once H has passed - also after a take-over
OwnedExpiredAfterSweep ==
    [][(ops' = ops + 1 /\ hist'[Len(hist')].op = "time_check") =>
         \A s \in own : \A a \in DOMAIN inst[s] :
            (inst[s][a].eph /\ ~inst[s][a].grpc /\ inst[s][a].h /\ inst[s][a].lm <= now - H /\ s \in exists)
               => (a \in DOMAIN inst'[s] => ~inst'[s][a].h)]_vars
\* an instance whose beats keep arriving within H is never marked unhealthy or removed by the sweep
NeverExpireWhileBeating ==
    [][(ops' = ops + 1 /\ hist'[Len(hist')].op = "time_check") =>
         \A s \in Svcs : \A a \in DOMAIN inst[s] :
            (inst[s][a].lm > now - H) => (a \in DOMAIN inst'[s] /\ inst'[s][a].h = inst[s][a].h)]_vars
\* persistent and gRPC-connected instances are never expired by the heart-beat clock
NeverExpireGrpcOrPersistent ==
    [][(ops' = ops + 1 /\ hist'[Len(hist')].op = "time_check") =>
         \A s \in Svcs : \A a \in DOMAIN inst[s] :
            (~TimeoutEnabled(inst[s][a])) => (a \in DOMAIN inst'[s] /\ inst'[s][a] = inst[s][a])]_vars
\* after a sweep, a silent supervised instance is unhealthy once H has passed and gone once T has passed
ExpiredAfterSweep ==
    [][(ops' = ops + 1 /\ hist'[Len(hist')].op = "time_check") =>
         \A s \in Svcs : \A a \in DOMAIN inst[s] :
            (TimeoutEnabled(inst[s][a]) /\ inst[s][a].h /\ inst[s][a].lm <= now - H) => (a \in DOMAIN inst'[s] => ~inst'[s][a].h)]_vars

\* C12 "no registered address is missing": what the node replicates about persistent instances never takes a registered
\* EPHEMERAL instance away (the applied removal that follows a persistent -> ephemeral re-registration must leave it)
EchoKeepsEphemeral ==
    [][(ops' = ops + 1 /\ hist'[Len(hist')].op = "raft_echo_remove") =>
         \A s \in Svcs : \A a \in DOMAIN inst[s] : inst[s][a].eph => (a \in DOMAIN inst'[s] /\ inst'[s][a] = inst[s][a])]_vars

NoRange == own = {}
Done == ops = MaxOps
Obs == [inst |-> inst, cnt |-> cnt, hcnt |-> hcnt, perp |-> perp, cset |-> cset, index |-> index]
ExportBehaviour == Done => PrintT(<<"REPLAY", ToJson([steps |-> hist, final |-> Obs])>>)
StateView == <<inst, cnt, hcnt, perp, hto, uto, cset, index, exists, emptyAt, own, now>>
=============================================================================
