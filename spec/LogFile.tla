------------------------------ MODULE LogFile ------------------------------
(***************************************************************************)
(* IMPLEMENTATION-SHAPED model of one raft log file                        *)
(* (LogInnerManager, src/raft/filestore/raftlog/mod.rs), refining the      *)
(* abstract log of RaftLog.tla.                                            *)
(*                                                                         *)
(* Units: one CELL of the data area is U real bytes (harness: U = 128 so   *)
(* that 8 cells = one 1024-byte read chunk, and U = 65280 so that FILE0 =  *)
(* 16 cells = the 1 MiB - 4096 bytes a fresh file preallocates).  The      *)
(* index area is modelled in BYTES: an entry is the varint of the offset   *)
(* delta (in cells; width 1 below VB, 2 below VB*VB, else 3).              *)
(*                                                                         *)
(* Transcribed (as repaired by the `fix:` commits; the pre-fix variants    *)
(* are the Defect_* constants, kept as negative controls):                 *)
(*   write             growth rule `file_len <= data_cursor + len`,        *)
(*                     index entry every INTERVAL records                  *)
(*   strip_log_to      pop index points, rewind index cursor by the        *)
(*                     stored widths, clear removed index bytes and data   *)
(*   init (reopen)     read_indexs + move_to_end (scan until zero / EOF;   *)
(*                     the EOF exit returns the count WITHOUT the records  *)
(*                     scanned since the index point - harmless only       *)
(*                     because a zero cell always follows the data)        *)
(* Refinement: in every state, re-deriving the state from the physical     *)
(* file gives the in-memory state, and the records found on disk are       *)
(* exactly the abstract log.                                               *)
(***************************************************************************)
EXTENDS Naturals, Sequences, FiniteSets, TLC, Json

CONSTANTS
    INTERVAL,       \* index interval (real: 128; harness patches 2..4 into the header)
    VB,             \* varint base for index deltas in cells (real: 128 bytes -> scaled)
    FILE0,          \* initial data capacity in cells
    GROW,           \* growth step in cells
    Sizes,          \* record sizes in cells
    MaxRecs,        \* bound on ids
    MaxOps,
    Defect_CutOnIndexPoint,     \* strip at an index point scans to the end (count = 0 never matches)
    Defect_RewindWidth,         \* index cursor rewound by 2 bytes per popped entry
    Defect_ClearTwoBytes,       \* only the cut point is cleared, not the removed suffix
    Defect_GrowStrict           \* growth rule `<` instead of `<=` (seeded change; negative control)

VARIABLES
    log,        \* abstract: sequence of [index, term, id, sz]
    first,      \* abstract: start index of the file
    sizes,      \* id -> sz of every record ever written (to interpret stale cells)
    data,       \* physical data area: sequence of cells, 0 or [id, off]
    iarea,      \* physical index area: sequence of bytes, 0 or [e, j, w, delta]
    indexs,     \* memory: sequence of [li, fo] index points (fo in cells from the data area start)
    icur,       \* memory: index cursor (bytes from the start of the index area)
    dcur,       \* memory: data cursor (cells)
    cnt,        \* memory: msg_count
    cic,        \* memory: current_index_count
    nextE,      \* ordinal for index entries (to recognise their bytes)
    curTerm, nextId, ops, hist

vars == <<log, first, sizes, data, iarea, indexs, icur, dcur, cnt, cic, nextE, curTerm, nextId, ops, hist>>

IAREA == 24     \* bytes of index area modelled (real 4064)

End == first + Len(log)
Cap == Len(data)
ZC == [id |-> 0, off |-> 0]                          \* a zero data cell
ZB == [e |-> 0, j |-> 0, w |-> 0, delta |-> 0]     \* a zero index byte
Zeros(n) == [i \in 1..n |-> ZC]
ZeroBytes(n) == [i \in 1..n |-> ZB]
Max(a, b) == IF a > b THEN a ELSE b
Width(d) == IF d < VB THEN 1 ELSE IF d < VB * VB THEN 2 ELSE 3
Last(s) == s[Len(s)]

\* ---------------------------------------------------------------- reading the physical file

\* scan records from cell q (0-based); stops at a zero cell, at EOF, at garbage, or after maxc records
RECURSIVE Scan(_, _, _)
Scan(q, c, maxc) ==
    IF c = maxc THEN [cur |-> q, c |-> c, eof |-> FALSE, bad |-> FALSE]
    ELSE IF q >= Cap THEN [cur |-> q, c |-> c, eof |-> TRUE, bad |-> FALSE]
    ELSE LET cell == data[q + 1] IN
         IF cell.id = 0 THEN [cur |-> q, c |-> c, eof |-> FALSE, bad |-> FALSE]
         ELSE IF cell.off # 1 \/ q + sizes[cell.id] > Cap
              THEN [cur |-> q, c |-> c, eof |-> FALSE, bad |-> TRUE]
              ELSE Scan(q + sizes[cell.id], c + 1, maxc)

\* ids of the records found by a scan from cell 0
RECURSIVE ScanIds(_)
ScanIds(q) ==
    IF q >= Cap THEN <<>>
    ELSE LET cell == data[q + 1] IN
         IF cell.id = 0 \/ cell.off # 1 \/ q + sizes[cell.id] > Cap THEN <<>>
         ELSE <<cell.id>> \o ScanIds(q + sizes[cell.id])

\* record bodies are intact (every cell of a found record belongs to it)
RECURSIVE Intact(_)
Intact(q) ==
    IF q >= Cap THEN TRUE
    ELSE LET cell == data[q + 1] IN
         IF cell.id = 0 THEN TRUE
         ELSE /\ cell.off = 1 /\ q + sizes[cell.id] <= Cap
              /\ \A j \in 1..sizes[cell.id] : data[q + j] = [id |-> cell.id, off |-> j]
              /\ Intact(q + sizes[cell.id])

\* read_indexs: parse entries until a zero byte; garbage if an entry's bytes are not contiguous
RECURSIVE ParseIdx(_, _)
ParseIdx(p, acc) ==     \* p 0-based byte position
    IF p >= Len(iarea) THEN [pts |-> acc, cur |-> p, bad |-> FALSE]
    ELSE LET b == iarea[p + 1] IN
         IF b.e = 0 THEN [pts |-> acc, cur |-> p, bad |-> FALSE]
         ELSE IF b.j # 1 \/ p + b.w > Len(iarea) \/ \E j \in 1..b.w : iarea[p + j] # [e |-> b.e, j |-> j, w |-> b.w, delta |-> b.delta]
              THEN [pts |-> acc, cur |-> p, bad |-> TRUE]
              ELSE ParseIdx(p + b.w, Append(acc, [li |-> Last(acc).li + INTERVAL, fo |-> Last(acc).fo + b.delta]))

Parsed == ParseIdx(0, <<[li |-> first, fo |-> 0]>>)

\* what init() would compute from the physical file
ReopenState ==
    LET pr == Parsed
        lp == Last(pr.pts)
        base == lp.li - first
        sc == Scan(lp.fo, 0, 65535)
    IN [indexs |-> pr.pts, icur |-> pr.cur,
        dcur |-> sc.cur,
        cnt |-> IF sc.eof THEN base ELSE base + sc.c,      \* the EOF exit forgets sc.c
        bad |-> pr.bad \/ sc.bad]

\* ---------------------------------------------------------------- actions

Obs(l) == [first |-> first, end |-> first + Len(l), floor |-> first,
           log |-> [i \in 1..Len(l) |-> [index |-> l[i].index, term |-> l[i].term, id |-> l[i].id]]]

Step(rec) == /\ ops < MaxOps /\ ops' = ops + 1 /\ hist' = Append(hist, rec)

Init ==
    /\ first \in {0, 1} /\ log = <<>> /\ sizes = [i \in 1..MaxRecs |-> 0]
    /\ data = Zeros(FILE0) /\ iarea = ZeroBytes(IAREA)
    /\ indexs = <<[li |-> first, fo |-> 0]>> /\ icur = 0 /\ dcur = 0 /\ cnt = 0 /\ cic = 0
    /\ nextE = 1 /\ curTerm = 1 /\ nextId = 1 /\ ops = 0 /\ hist = <<>>

PutCells(d, at, id, sz) == [i \in 1..Len(d) |-> IF i > at /\ i <= at + sz THEN [id |-> id, off |-> i - at] ELSE d[i]]
PutIdx(a, at, e, w, delta) == [i \in 1..Len(a) |-> IF i > at /\ i <= at + w THEN [e |-> e, j |-> i - at, w |-> w, delta |-> delta] ELSE a[i]]
ZeroRange(s, from, to, z) == [i \in 1..Len(s) |-> IF i > from /\ i <= to THEN z ELSE s[i]]   \* 0-based [from, to)

Write(sz) ==
    /\ nextId <= MaxRecs
    /\ icur + 10 < IAREA                                      \* else: Failure -> rollover (not modelled here)
    /\ LET needGrow == IF Defect_GrowStrict THEN dcur + sz > Cap ELSE Cap <= dcur + sz
           grown == IF needGrow THEN data \o Zeros(Max(sz, GROW)) ELSE data
           d2 == PutCells(grown, dcur, nextId, sz)
           ncur == dcur + sz
           full == cic + 1 = INTERVAL
           delta == ncur - Last(indexs).fo
           w == Width(delta)
       IN /\ data' = d2
          /\ dcur' = ncur
          /\ cnt' = cnt + 1
          /\ cic' = IF full THEN 0 ELSE cic + 1
          /\ iarea' = IF full THEN PutIdx(iarea, icur, nextE, w, delta) ELSE iarea
          /\ icur' = IF full THEN icur + w ELSE icur
          /\ indexs' = IF full THEN Append(indexs, [li |-> cnt + 1 + first, fo |-> ncur]) ELSE indexs
          /\ nextE' = IF full THEN nextE + 1 ELSE nextE
    /\ sizes' = [sizes EXCEPT ![nextId] = sz]
    /\ log' = Append(log, [index |-> End, term |-> curTerm, id |-> nextId, sz |-> sz])
    /\ nextId' = nextId + 1
    /\ UNCHANGED <<first, curTerm>>
    /\ Step([op |-> "append", index |-> End, term |-> curTerm, id |-> nextId, sz |-> sz, res |-> "ok",
             exact_fit |-> (dcur + sz = Cap), obs |-> Obs(log')])

\* get_file_index_by_log_index: walk index points newest -> oldest
RECURSIVE Walk(_, _, _, _)
Walk(i, k, widthSum, pops) ==       \* i = position in indexs of the point under inspection
    IF indexs[i].li <= k \/ i = 1 THEN [pt |-> indexs[i], keep |-> i, w |-> widthSum, pops |-> pops]
    ELSE LET stored == Width(indexs[i].fo - indexs[i - 1].fo) IN
         Walk(i - 1, k, widthSum + (IF Defect_RewindWidth THEN 2 ELSE stored), pops + 1)

Strip(k) ==
    /\ k >= first /\ k < End
    /\ LET wk == Walk(Len(indexs), k, 0, 0)
           pt == wk.pt
           want == k - pt.li
           sc == IF want = 0
                 THEN (IF Defect_CutOnIndexPoint THEN Scan(pt.fo, 0, 65535)
                       ELSE [cur |-> pt.fo, c |-> 0, eof |-> FALSE, bad |-> FALSE])
                 ELSE Scan(pt.fo, 0, want)
           nicur == IF wk.pops > 0 THEN (IF icur >= wk.w THEN icur - wk.w ELSE 0) ELSE icur
           ia1 == IF wk.pops > 0
                  THEN (IF Defect_ClearTwoBytes THEN ZeroRange(iarea, nicur, nicur + 1, ZB)   \* [0,1] marker: first byte 0
                        ELSE ZeroRange(iarea, nicur, nicur + wk.w, ZB))
                  ELSE iarea
           ncur == sc.cur
           d1 == IF Defect_ClearTwoBytes THEN ZeroRange(data, ncur, ncur + 1, ZC) ELSE ZeroRange(data, ncur, Max(dcur, ncur + 1), ZC)
       IN /\ indexs' = SubSeq(indexs, 1, wk.keep)
          /\ icur' = nicur
          /\ iarea' = ia1
          /\ dcur' = ncur
          /\ cnt' = (pt.li - first) + sc.c
          /\ cic' = want
          /\ data' = d1
    /\ log' = SubSeq(log, 1, k - first)
    /\ curTerm' = curTerm + 1
    /\ UNCHANGED <<first, sizes, nextE, nextId>>
    /\ Step([op |-> "truncate", k |-> k, res |-> "ok", obs |-> Obs(log')])

Reopen ==
    /\ ops > 0 /\ hist[Len(hist)].op # "reopen"
    /\ LET rs == ReopenState IN
         /\ indexs' = rs.indexs /\ icur' = rs.icur /\ dcur' = rs.dcur /\ cnt' = rs.cnt
         /\ cic' = rs.cnt % INTERVAL
    /\ UNCHANGED <<log, first, sizes, data, iarea, nextE, curTerm, nextId>>
    /\ Step([op |-> "reopen", res |-> "ok", obs |-> Obs(log)])

Next ==
    \/ \E sz \in Sizes : Write(sz)
    \/ \E k \in 0..(MaxRecs + 1) : Strip(k)
    \/ Reopen

Spec == Init /\ [][Next]_vars

\* ---------------------------------------------------------------- refinement invariants

\* the records on disk are exactly the abstract log, bodies intact
DiskIsLog ==
    /\ ScanIds(0) = [i \in 1..Len(log) |-> log[i].id]
    /\ Intact(0)

\* a reopen would reconstruct the in-memory state (so Reopen is the identity: C02)
ReopenAgrees ==
    LET rs == ReopenState IN
    /\ ~rs.bad
    /\ rs.indexs = indexs /\ rs.icur = icur /\ rs.dcur = dcur /\ rs.cnt = cnt

\* memory agrees with the abstract log
CountersAgree == cnt = Len(log) /\ cic = cnt % INTERVAL /\ dcur <= Cap

\* a zero cell always follows the data (this is what keeps the EOF exit of the scan unreachable)
TerminatorPresent == dcur < Cap /\ data[dcur + 1] = ZC

Done == ops = MaxOps
ExportBehaviour == Done => PrintT(<<"REPLAY", ToJson([first |-> first, with_compaction |-> FALSE, steps |-> hist])>>)
View == <<log, first, sizes, data, iarea, indexs, icur, dcur, cnt, cic, curTerm, nextId>>
=============================================================================
