SPECIFICATION Spec
CONSTANTS
  MaxN = 5
  LCM = 60
  Defect_IndexAmongAll = TRUE
  Defect_StaleActorRange = FALSE
INVARIANTS ExactlyOneOwner RoutingAgrees
CHECK_DEADLOCK FALSE
