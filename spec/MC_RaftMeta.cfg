SPECIFICATION Spec
CONSTANTS
  Nodes = {1, 2}
  MaxTerm = 3
  AddrLens = {9, 40}
  MaxOps = 100000
  InitThreshold = 9
VIEW View
INVARIANTS TypeOK FileCoversRecord
PROPERTIES Durable NoVoteRegress
CHECK_DEADLOCK FALSE
