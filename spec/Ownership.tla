----------------------------- MODULE Ownership -----------------------------
(***************************************************************************)
(* Distro ownership of services (C14): src/naming/cluster/node_manage.rs,  *)
(* ProcessRange (cluster/model.rs), NamingActor.current_range.             *)
(*                                                                         *)
(* A VIEW is the set of known nodes and the subset currently considered    *)
(* alive; every live node holds the same view.  A live node x considers    *)
(* itself owner of hash value h iff Range(x).is_range(h); an HTTP write    *)
(* for h is routed (by any live node) to Route(h).                         *)
(*   Range(x) = [index, len]:  len   = number of valid nodes               *)
(*              index = position of x among the VALID nodes  (repaired)    *)
(*              index = position of x among ALL nodes        (as it was:   *)
(*                                           Defect_IndexAmongAll)         *)
(*   Route(h) = the (h mod |valid|)-th valid node                          *)
(* Defect_StaleActorRange: the liveness check recomputes the range but     *)
(* does not hand it to the registry actor, which keeps deciding with the   *)
(* range of the previous view.                                             *)
(* The space is finite and TLC enumerates it completely: cluster sizes     *)
(* 1..MaxN, every alive subset, every residue 0..LCM-1.                    *)
(***************************************************************************)
EXTENDS Naturals, Sequences, FiniteSets, TLC, Json

CONSTANTS MaxN, LCM, Defect_IndexAmongAll, Defect_StaleActorRange

VARIABLES n, alive, done

vars == <<n, alive, done>>

All == 1..n
\* position (0-based) of x in the ascending order of S
Pos(x, S) == Cardinality({y \in S : y < x})
Nth(i, S) == CHOOSE x \in S : Pos(x, S) = i

\* the range a live node computes in this view
Range(x) == [index |-> IF Defect_IndexAmongAll THEN Pos(x, All) ELSE Pos(x, alive), len |-> Cardinality(alive)]
\* the range its registry actor decides with: with the stale-range defect it is still the range of the
\* previous view (everybody alive)
ActorRange(x) == IF Defect_StaleActorRange THEN [index |-> Pos(x, All), len |-> n] ELSE Range(x)
IsRange(r, h) == r.len < 2 \/ (h % r.len) = r.index
Owners(h) == {x \in alive : IsRange(ActorRange(x), h)}
Route(h) == Nth(h % Cardinality(alive), alive)

Init == n \in 1..MaxN /\ alive \in (SUBSET (1..MaxN)) \ {{}} /\ alive \subseteq 1..n /\ done = FALSE
Next == ~done /\ done' = TRUE /\ UNCHANGED <<n, alive>>
Spec == Init /\ [][Next]_vars

\* C14
ExactlyOneOwner == \A h \in 0..(LCM - 1) : Cardinality(Owners(h)) = 1
RoutingAgrees == \A h \in 0..(LCM - 1) : Owners(h) = {Route(h)}

\* one record per view for the conformance leg: what every live node must report
Export == done => PrintT(<<"REPLAY", ToJson([n |-> n, alive |-> alive,
                     ranges |-> [x \in alive |-> Range(x)],
                     owner |-> [h \in 0..(LCM - 1) |-> Route(h)]])>>)
=============================================================================
