------------------------------ MODULE RaftMeta ------------------------------
(***************************************************************************)
(* Raft metadata store (C05): the `index` file of src/raft/filestore/      *)
(* raftindex.rs.                                                           *)
(*                                                                         *)
(* ABSTRACT CONTRACT: the node's hard state (term, vote), membership       *)
(* (members, members-after-consensus) and node addresses are a record that *)
(* every acknowledged save replaces field-wise; Reopen is the identity.    *)
(* Catalogue updates made by the log (new log file, compaction, pointer    *)
(* log) rewrite the same file but must not disturb the other fields.       *)
(*                                                                         *)
(* IMPLEMENTATION-SHAPED LAYER: the file is 8 bytes of last_applied        *)
(* followed by ONE length-prefixed record rewritten in place at offset 8;  *)
(* the file never shrinks (fileLen only grows); at start-up a file of at   *)
(* most InitThreshold bytes is taken for a new one and overwritten with    *)
(* defaults.  InitThreshold = 20 is the code before the `fix:` commit (a   *)
(* record of <= 11 bytes - e.g. only term and vote - was forgotten),       *)
(* InitThreshold = 9 is the repaired code (9 bytes = header + empty        *)
(* record, exactly what the initial write leaves).                         *)
(***************************************************************************)
EXTENDS Naturals, Sequences, FiniteSets, TLC, Json

CONSTANTS
    Nodes,          \* node ids that can be voted for / be members (the local node is not one of them)
    MaxTerm,
    AddrLens,       \* set of address lengths (bytes)
    MaxOps,
    InitThreshold   \* 9 (repaired) or 20 (as before the fix)

VARIABLES
    term, vote,         \* hard state (vote = 0: none)
    members, after,     \* membership sets
    addrs,              \* function: node id -> address length (0 = unknown); the harness derives the text
    nlogs, nsnaps,      \* catalogue: number of log ranges / snapshot ranges recorded
    fileLen,            \* impl: physical length of the index file
    ops, hist

vars == <<term, vote, members, after, addrs, nlogs, nsnaps, fileLen, ops, hist>>
meta == <<term, vote, members, after, addrs>>

\* ------------------------------------------------------------------ sizes of the encoded record (bytes)
VarintLen(n) == IF n < 128 THEN 1 ELSE IF n < 16384 THEN 2 ELSE 3
FieldU64(n) == IF n = 0 THEN 0 ELSE 1 + VarintLen(n)
Packed(S) == IF S = {} THEN 0 ELSE 2 + Cardinality(S)
AddrBytes == LET known == {n \in Nodes : addrs[n] > 0} IN
    IF known = {} THEN 0
    ELSE LET RECURSIVE Sum(_)
             Sum(S) == IF S = {} THEN 0 ELSE LET x == CHOOSE y \in S : TRUE IN (2 + 2 + 2 + addrs[x]) + Sum(S \ {x})
         IN Sum(known)
RecLen == FieldU64(term) + FieldU64(vote) + Packed(members) + Packed(after) + AddrBytes
          + nlogs * 12 + nsnaps * 6
WrittenLen == 8 + VarintLen(RecLen) + RecLen
Max(a, b) == IF a > b THEN a ELSE b

Obs == [term |-> term, vote |-> vote, members |-> members, after |-> after,
        addrs |-> [n \in Nodes |-> addrs[n]]]

\* (flen = model's file length after the step: lets the driver prioritise thin cases)
Step(rec) == /\ ops < MaxOps /\ ops' = ops + 1 /\ hist' = Append(hist, rec @@ [flen |-> fileLen'])

\* every writer rewrites the whole record at offset 8 (file grows, never shrinks)
Rewritten == fileLen' = Max(fileLen, 8 + VarintLen(RecLen') + RecLen')

Init ==
    /\ term = 0 /\ vote = 0 /\ members = {} /\ after = {}
    /\ addrs = [n \in Nodes |-> 0]
    /\ nlogs = 0 /\ nsnaps = 0
    /\ fileLen = 9          \* header + empty record, written by the first start
    /\ ops = 0 /\ hist = <<>>

SaveHardState(t, v) ==
    /\ t >= term /\ (t = term => (vote = 0 \/ v = vote))      \* what a correct Raft asks for
    /\ term' = t /\ vote' = v
    /\ UNCHANGED <<members, after, addrs, nlogs, nsnaps>>
    /\ Rewritten
    /\ Step([op |-> "save_hs", term |-> t, vote |-> v,
             obs |-> [Obs EXCEPT !.term = t, !.vote = v]])

\* ClientRequest::Members applied: members replaced, members-after-consensus kept
ApplyMembers(m) ==
    /\ m # {} /\ members' = m
    /\ UNCHANGED <<term, vote, after, addrs, nlogs, nsnaps>>
    /\ Rewritten
    /\ Step([op |-> "members", members |-> m, obs |-> [Obs EXCEPT !.members = m]])

\* ClientRequest::NodeAddr applied
ApplyNodeAddr(n, len) ==
    /\ addrs' = [addrs EXCEPT ![n] = len]
    /\ UNCHANGED <<term, vote, members, after, nlogs, nsnaps>>
    /\ Rewritten
    /\ Step([op |-> "node_addr", id |-> n, len |-> len,
             obs |-> [Obs EXCEPT !.addrs = [x \in Nodes |-> IF x = n THEN len ELSE addrs[x]]]])

\* the log opens its first file / rolls over: catalogue rewritten, nothing else may change
CatalogueLog ==
    /\ nlogs < 3 /\ nlogs' = nlogs + 1
    /\ UNCHANGED <<term, vote, members, after, addrs, nsnaps>>
    /\ Rewritten
    /\ Step([op |-> "cat_log", obs |-> Obs])

\* a compaction completes: snapshot catalogue rewritten (at most two snapshots are kept)
CatalogueSnapshot ==
    /\ nlogs > 0 /\ nsnaps' = IF nsnaps < 2 THEN nsnaps + 1 ELSE 2
    /\ UNCHANGED <<term, vote, members, after, addrs, nlogs>>
    /\ Rewritten
    /\ Step([op |-> "cat_snapshot", obs |-> Obs])

\* stop and start: read the file back - or take it for a new one
Reopen ==
    /\ ops > 0 /\ hist[Len(hist)].op # "reopen"
    /\ IF fileLen <= InitThreshold
       THEN /\ term' = 0 /\ vote' = 0 /\ members' = {} /\ after' = {}
            /\ addrs' = [n \in Nodes |-> 0] /\ nlogs' = 0 /\ nsnaps' = 0
            /\ fileLen' = Max(fileLen, 9)
       ELSE UNCHANGED <<term, vote, members, after, addrs, nlogs, nsnaps, fileLen>>
    /\ Step([op |-> "reopen", obs |-> Obs])     \* the CONTRACT expects the identity

Next ==
    \/ \E t \in 1..MaxTerm, v \in Nodes \cup {0} : SaveHardState(t, v)
    \/ \E m \in SUBSET Nodes : ApplyMembers(m)
    \/ \E n \in Nodes, len \in AddrLens : ApplyNodeAddr(n, len)
    \/ CatalogueLog
    \/ CatalogueSnapshot
    \/ Reopen

Spec == Init /\ [][Next]_vars

\* ------------------------------------------------------------------ properties
TypeOK == term \in 0..MaxTerm /\ vote \in Nodes \cup {0} /\ members \subseteq Nodes /\ fileLen >= 9

\* C05: a reopen never changes what was saved (checked on the impl-shaped Reopen)
Durable == [][(ops' = ops + 1 /\ hist'[Len(hist')].op = "reopen") => (meta' = meta /\ nlogs' = nlogs /\ nsnaps' = nsnaps)]_vars

\* a vote is never replaced by a different one within a term - across restarts too
NoVoteRegress == [][(term' = term /\ vote # 0) => vote' = vote]_vars

\* the file is never shorter than what the current record needs
FileCoversRecord == fileLen >= WrittenLen \/ (RecLen = 0 /\ fileLen = 9)

Done == ops = MaxOps
ExportBehaviour == Done => PrintT(<<"REPLAY", ToJson([steps |-> hist])>>)
\* ---- thin cases: exactly ONE write of the file between two restarts (the first thing a restarted node does is grant a
\* vote, learn an address, roll its log ... and then it restarts again).  Write positions that are kept across calls, and
\* anything else a process sets up while it reads the file at start, show in this shape and are healed by a second write.
\* Exported from the COMPLETE graph of all sequences of length 4 (GEN_RaftMeta_single.cfg).
ThinSingleWrite ==
    /\ Len(hist) = 4
    /\ hist[1].op # "reopen" /\ hist[2].op = "reopen" /\ hist[3].op # "reopen" /\ hist[4].op = "reopen"
ExportThinSingle == ThinSingleWrite => PrintT(<<"REPLAY", ToJson([steps |-> hist])>>)
View == <<term, vote, members, after, addrs, nlogs, nsnaps, fileLen>>
=============================================================================
