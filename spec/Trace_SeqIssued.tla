--------------------------- MODULE Trace_SeqIssued ---------------------------
(***************************************************************************)
(* Black-box validation of a real node's id streams against C19 itself:    *)
(* ids of a named sequence are never handed out twice and each call returns *)
(* ids above everything returned before (also across compaction + restart), *)
(* and config history ids are never stamped twice / never go backwards.     *)
(* Events: ids(k, ids) | hist(ids = <<key, id>> pairs currently stored)     *)
(*         | compact | import | restart | reset                             *)
(***************************************************************************)
EXTENDS Naturals, Sequences, FiniteSets, TLC, Json, IOUtils

Rec == ndJsonDeserialize(IOEnv.TRACE)
VARIABLES l, seen, hi, hseen, hhi
vars == <<l, seen, hi, hseen, hhi>>

SeqKeys == {"sa", "sb"}
Max(S) == IF S = {} THEN 0 ELSE CHOOSE x \in S : \A y \in S : y <= x
ToSet(s) == {s[i] : i \in 1..Len(s)}

TraceInit == l = 1 /\ seen = [k \in SeqKeys |-> {}] /\ hi = [k \in SeqKeys |-> 0] /\ hseen = {} /\ hhi = 0
IsEvent(e) == l <= Len(Rec) /\ Rec[l].event = e /\ l' = l + 1

TReset == IsEvent("reset") /\ UNCHANGED <<seen, hi, hseen, hhi>>
TIds ==
    /\ IsEvent("ids") /\ Rec[l].errors = 0
    /\ LET k == Rec[l].k
           ids == ToSet(Rec[l].ids)
       IN /\ Cardinality(ids) = Len(Rec[l].ids)               \* no id twice within one concurrent batch
          /\ ids \cap seen[k] = {}                            \* never issued twice
          /\ \A x \in ids : x > hi[k]                         \* never backwards between calls
          /\ seen' = [seen EXCEPT ![k] = @ \cup ids]
          /\ hi' = [hi EXCEPT ![k] = Max(ids \cup {@})]
    /\ UNCHANGED <<hseen, hhi>>
\* the stored history entries: every NEW (key, id) pair carries an id above every id seen so far, ids are unique
THist ==
    /\ IsEvent("hist")
    /\ LET cur == {<<Rec[l].ids[i][1], Rec[l].ids[i][2]>> : i \in 1..Len(Rec[l].ids)}
           new == cur \ hseen
           newids == {p[2] : p \in new}
       IN /\ Cardinality(cur) = Len(Rec[l].ids)                 \* no entry listed twice (one key stamped twice with one id)
          /\ Cardinality(newids) = Cardinality(new)
          /\ \A x \in newids : x > hhi
          /\ \A p, q \in cur : p[2] = q[2] => p = q
          /\ hseen' = hseen \cup cur
          /\ hhi' = Max(newids \cup {hhi})
    /\ UNCHANGED <<seen, hi>>
\* (a data import re-stamps the imported history entries from a reserved section of ids; the next hist event judges them)
TOther == (IsEvent("compact") \/ IsEvent("import") \/ (IsEvent("restart") /\ Rec[l].leader = "ok")) /\ UNCHANGED <<seen, hi, hseen, hhi>>

TraceNext == TReset \/ TIds \/ THist \/ TOther
TraceSpec == TraceInit /\ [][TraceNext]_vars

TraceAccepted ==
    LET d == TLCGet("stats").diameter IN
    IF d - 1 = Len(Rec) THEN TRUE
    ELSE Print(<<"TRACE-REJECTED at line", d, Rec[d]>>, FALSE)
=============================================================================
