SPECIFICATION TraceSpec
CONSTANTS
  Keep = 0
  Slack = 1600
POSTCONDITION TraceAccepted
CHECK_DEADLOCK FALSE
