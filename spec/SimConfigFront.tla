--------------------------- MODULE SimConfigFront ---------------------------
(* Generation wrapper for the FRONT-DOOR leg of C09 / C10 (and the client-visible part of C06): behaviours of       *)
(* ConfigCenter.tla over the operations a client of a node can perform through the HTTP routes and the gRPC services  *)
(* - publish, remove, read, list, long poll, batch listen, unsubscribe, connection close - in one alphabet.  Import   *)
(* and Echo (internal paths) are not offered; long polls use "no wait" or a time-out far beyond the behaviour (the    *)
(* HTTP handler accepts nothing shorter than 10 s - the expiry of a poll is a separate timed run of the harness).     *)
EXTENDS MC_ConfigCenter

VARIABLE pending

SimInit == Init /\ pending = "none"

\* several tokens per kind = weights (TLC's simulator picks uniformly among successor states)
Kinds == {"publish1", "publish2", "publish3", "publish4", "remove1", "remove2", "listen", "listen_current1", "listen_current2",
          "tick", "subscribe1", "subscribe2", "unsubscribe", "disconnect"}

SimNext ==
    \/ /\ pending = "none" /\ ops < MaxOps
       /\ \E k \in Kinds : pending' = k
       /\ UNCHANGED vars
    \/ /\ pending \in {"publish1", "publish2", "publish3", "publish4"} /\ pending' = "none"
       /\ \E k \in Keys, v \in Contents, ty \in Types \cup {""} : Publish(k, v, ty, FALSE)
    \/ /\ pending \in {"remove1", "remove2"} /\ pending' = "none" /\ \E k \in Keys : Remove(k)
    \/ /\ pending = "listen" /\ pending' = "none"
       /\ \E l \in Lids, items \in ItemSets, dt \in {0, 100} : (l = Cardinality(usedL) + 1 /\ Listen(l, items, dt))
    \/ /\ pending \in {"listen_current1", "listen_current2"} /\ pending' = "none"
       /\ \E l \in Lids, ks \in (SUBSET Keys) \ {{}} : (l = Cardinality(usedL) + 1 /\ Listen(l, [k \in ks |-> Md5(k)], 100))
    \/ /\ pending = "tick" /\ pending' = "none" /\ Tick
    \/ /\ pending \in {"subscribe1", "subscribe2"} /\ pending' = "none" /\ \E c \in Clients, items \in ItemSets : Subscribe(c, items)
    \/ /\ pending = "unsubscribe" /\ pending' = "none" /\ \E c \in Clients, ks \in SUBSET Keys : Unsubscribe(c, ks)
    \/ /\ pending = "disconnect" /\ pending' = "none" /\ \E c \in Clients : Disconnect(c)
    \/ /\ pending \in {"tick", "unsubscribe", "disconnect", "listen", "listen_current1", "listen_current2"} /\ pending' = "none" /\ UNCHANGED vars

SimSpec == SimInit /\ [][SimNext]_<<vars, pending>>
=============================================================================
