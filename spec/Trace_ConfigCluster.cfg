SPECIFICATION TraceSpec
CONSTANTS
  Node = {1, 2, 3}
  Key = {"k1", "k2", "k3"}
  MaxReq = 1000
  Defect_AckWithoutCommit = FALSE
  Defect_LateEchoOverwrites = FALSE
  Defect_TmpLostAtRestart = FALSE
CONSTRAINT Progress
INVARIANTS AckedCommitted
POSTCONDITION TraceAccepted
CHECK_DEADLOCK FALSE
