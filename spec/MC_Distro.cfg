SPECIFICATION Spec
CONSTANTS
  Node = {1, 2, 3}
  Conn <- MCConn
  Home <- MCHome
  Addr = {"a", "b"}
  Attr = {"e1", "d1"}
  AllowReorder = FALSE
  MaxOps = 3
  Defect_StaleClientIndexOnSync = FALSE
INVARIANTS OwnerIndexExact
PROPERTIES Converges
CHECK_DEADLOCK FALSE
