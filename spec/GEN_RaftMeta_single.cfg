SPECIFICATION Spec
CONSTANTS
  Nodes = {1, 2}
  MaxTerm = 2
  AddrLens = {9, 12}
  MaxOps = 4
  InitThreshold = 9
INVARIANTS ExportThinSingle
CHECK_DEADLOCK FALSE
