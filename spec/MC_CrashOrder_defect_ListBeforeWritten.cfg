SPECIFICATION Spec
CONSTANTS
  LogIds = {0, 1}
  SnapIds = {1, 2}
  MaxIndex = 2
  Defect_CatTruncateFirst = FALSE
  Defect_ListBeforeWritten = TRUE
  Defect_UnlinkUncovered = FALSE
INVARIANTS Recoverable TypeOK
CHECK_DEADLOCK FALSE
