-------------------------- MODULE SimRegistryFront --------------------------
(* Generation wrapper for the FRONT-DOOR leg of C12 (and the bookkeeping a client can see, C11): behaviours of          *)
(* Registry.tla over the operations a client performs through the HTTP routes (/nacos/v1/ns/instance, /beat, /list) and  *)
(* through a gRPC connection (InstanceRequest register / deregister, ServiceQueryRequest, closing the connection).       *)
(* Each registration uses the update tag its handler derives (ApiRegisterHttp / ApiRegisterGrpc in Registry.tla).        *)
(* Time does not pass inside a behaviour (the real time-outs are 15 s / 30 s; expiry is C13's subject), and nothing     *)
(* arrives by cluster sync (C15).                                                                                         *)
EXTENDS Registry

VARIABLES pending,
          echoq      \* replicated entries on their way back to this node: sequence of <<kind, service, address>>

\* service s2 runs with a protection threshold of 0.5 (set through PUT /nacos/v1/ns/service before the behaviour starts)
ProtFront == [s \in Svcs |-> IF s = "s2" THEN 1 ELSE 0]

SimInit == Init /\ pending = "none" /\ echoq = <<>>

\* a registration that made or changed a persistent instance is followed by the applied Raft entry of the update, one
\* that ended an instance's persistence by the applied removal; the (sequential) client's next call comes after it
Last == hist'[Len(hist')]
EchoAfter == echoq' = IF Last.ptype \in {"new", "update"} THEN <<<<"update", Last.s, Last.a>>>>
                      ELSE IF Last.ptype = "remove" THEN <<<<"remove", Last.s, Last.a>>>> ELSE <<>>
\* removing a persistent instance is replicated too (an applied removal of an address that is already gone)
EchoAfterDeregister(s, a) == echoq' = IF Has(s, a) /\ ~inst[s][a].eph /\ a \notin DOMAIN inst'[s] THEN <<<<"remove", s, a>>>> ELSE <<>>

Kinds == {"http1", "http2", "grpc1", "grpc2", "grpc3", "weight", "beat", "dereg_http", "dereg_grpc1", "dereg_grpc2", "disc1", "disc2"}

SimNext ==
    \/ /\ pending = "none" /\ echoq = <<>> /\ ops < MaxOps /\ \E k \in Kinds : pending' = k /\ UNCHANGED <<vars, echoq>>
    \/ /\ echoq # <<>> /\ echoq' = Tail(echoq) /\ UNCHANGED pending
       /\ IF echoq[1][1] = "update" THEN RaftEchoUpdate(echoq[1][2], echoq[1][3]) ELSE RaftEchoRemove(echoq[1][2], echoq[1][3])
    \/ /\ pending \in {"http1", "http2"} /\ pending' = "none"
       /\ \E s \in Svcs, a \in Addrs, eph \in BOOLEAN, en \in BOOLEAN, w \in {1, 2, 3} : (ApiRegisterHttp(s, a, eph, en, w) /\ EchoAfter)
    \/ /\ pending \in {"grpc1", "grpc2", "grpc3"} /\ pending' = "none"
       /\ \E s \in Svcs, a \in Addrs, c \in Conns, eph \in BOOLEAN, en \in BOOLEAN, w \in {1, 2, 3}, h \in BOOLEAN : (ApiRegisterGrpcH(s, a, c, eph, en, w, h) /\ EchoAfter)
    \/ /\ pending = "weight" /\ pending' = "none" /\ \E s \in Svcs, a \in Addrs, w \in {2, 3} : (ApiUpdateWeight(s, a, w) /\ EchoAfter)
    \/ /\ pending = "beat" /\ pending' = "none" /\ \E s \in Svcs, a \in Addrs : (Has(s, a) /\ ApiBeat(s, a) /\ EchoAfter)
    \/ /\ pending = "dereg_http" /\ pending' = "none" /\ \E s \in Svcs, a \in Addrs : (Deregister(s, a, "") /\ EchoAfterDeregister(s, a))
    \/ /\ pending \in {"dereg_grpc1", "dereg_grpc2"} /\ pending' = "none" /\ \E s \in Svcs, a \in Addrs, c \in Conns : (Deregister(s, a, c) /\ EchoAfterDeregister(s, a))
    \/ /\ pending \in {"disc1", "disc2"} /\ pending' = "none" /\ \E c \in Conns : (Disconnect(c) /\ echoq' = <<>>)
    \/ /\ pending \in {"weight", "beat", "dereg_http", "dereg_grpc1", "dereg_grpc2"} /\ pending' = "none" /\ UNCHANGED <<vars, echoq>>

SimSpec == SimInit /\ [][SimNext]_<<vars, pending, echoq>>
=============================================================================
