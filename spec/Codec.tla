------------------------------- MODULE Codec -------------------------------
(***************************************************************************)
(* Length-prefixed record streams (src/common/protobuf_utils.rs).          *)
(*                                                                         *)
(* Two layers in one module:                                               *)
(*                                                                         *)
(*  * the ABSTRACT CONTRACT (variables stream, zeros, fed, pos, nrec): a   *)
(*    stream is a sequence of records followed by zero bytes; bytes are    *)
(*    fed to a reader in arbitrary chunks; `Next` hands out record i       *)
(*    exactly when its last byte has been fed; `IsEmpty` is TRUE only when *)
(*    the next unread byte HAS BEEN FED and is zero.                       *)
(*                                                                         *)
(*  * the IMPLEMENTATION-SHAPED layer (variables buf, bstart, bend): a     *)
(*    transcription of MessageBufReader::{append_next_buf,                 *)
(*    next_message_vec, is_empty} in units of cells, including the buffer  *)
(*    that is shifted, doubled, never cleared (stale cells).               *)
(*                                                                         *)
(* A cell is U real bytes (the harness runs U = 1 and U = 128, so that the *)
(* model's BUF0 = 8 cells is the real 1024-byte buffer).  A record of      *)
(* total length L >= 2 cells is one "p" cell (carries the varint prefix,   *)
(* never zero) followed by L-1 body cells, which are all "n" (non-zero) or *)
(* all "z" (zero) depending on the record's flag.  The zero tail is "z".   *)
(*                                                                         *)
(* Defect_IsEmptyDrained = TRUE reproduces the algorithm as it was before  *)
(* the `fix:` commit (is_empty looks at buf[start] even when start = end). *)
(***************************************************************************)
EXTENDS Naturals, Sequences, FiniteSets, TLC, Json

CONSTANTS
    BUF0,                   \* initial buffer size in cells (real: 1024 bytes)
    MaxChunk,               \* largest chunk fed at once (real: 1024 bytes)
    RecLens,                \* set of allowed total record lengths (cells, >= 2)
    MaxRecs,                \* records per stream
    MaxZeros,               \* length of the zero tail
    MaxSteps,               \* bound on the number of actions (history length)
    Defect_IsEmptyDrained   \* BOOLEAN: model the pre-fix is_empty

VARIABLES
    stream,     \* sequence of [len |-> total cells, zb |-> body cells are zero]
    zeros,      \* number of zero cells after the last record
    fed,        \* abstract: cells fed so far
    pos,        \* abstract: cells consumed by returned records
    nrec,       \* abstract: number of records returned
    buf,        \* impl: buffer cells, each in {"p","n","z"}
    bstart,     \* impl: start cursor (0-based)
    bend,       \* impl: end cursor (0-based, exclusive)
    started,    \* FALSE while the stream is still being chosen (AddRec)
    hist        \* history for replay: sequence of op records with expected results

vars == <<stream, zeros, fed, pos, nrec, buf, bstart, bend, started, hist>>
absvars == <<stream, zeros, fed, pos, nrec>>
implvars == <<buf, bstart, bend>>

-----------------------------------------------------------------------------
(* helpers *)

RECURSIVE SumLens(_)
SumLens(s) == IF s = <<>> THEN 0 ELSE Head(s).len + SumLens(Tail(s))

RepeatCell(c, n) == [i \in 1..n |-> c]

RecCells(r) == <<"p">> \o RepeatCell(IF r.zb THEN "z" ELSE "n", r.len - 1)

RECURSIVE StreamCells(_)
StreamCells(s) == IF s = <<>> THEN <<>> ELSE RecCells(Head(s)) \o StreamCells(Tail(s))

AllCells == StreamCells(stream) \o RepeatCell("z", zeros)

\* offset (in cells) at which record i (1-based) ends
RecEnd(i) == SumLens(SubSeq(stream, 1, i))
StreamLen == SumLens(stream)
Total == StreamLen + zeros

-----------------------------------------------------------------------------
(* abstract contract.  Arithmetic only (no cell sequences), so that         *)
(* Trace_Codec can evaluate it on real byte counts.                          *)

SpecNextAvail == nrec < Len(stream) /\ RecEnd(nrec + 1) <= fed
\* TRUE only when the next unread byte has been fed and is zero (pos is always
\* a record boundary, so the byte at pos is zero iff pos lies in the zero tail)
EmptyAt(p, f) == p < f /\ p >= StreamLen
SpecIsEmpty == EmptyAt(pos, fed)

AbsFeed(n) ==
    /\ n >= 1 /\ fed + n <= Total
    /\ fed' = fed + n
    /\ UNCHANGED <<stream, zeros, pos, nrec>>

\* r = index of the record handed out, 0 for "none"
AbsNext(r) ==
    /\ r = IF SpecNextAvail THEN nrec + 1 ELSE 0
    /\ nrec' = IF r = 0 THEN nrec ELSE r
    /\ pos' = IF r = 0 THEN pos ELSE RecEnd(r)
    /\ UNCHANGED <<stream, zeros, fed>>

-----------------------------------------------------------------------------
(* implementation-shaped layer *)

ImplIsEmpty ==
    IF Defect_IsEmptyDrained
    THEN (IF bstart >= Len(buf) THEN TRUE ELSE buf[bstart + 1] = "z")    \* as before the fix
    ELSE (IF bstart >= bend THEN FALSE ELSE buf[bstart + 1] = "z")       \* repaired

\* length (cells) of the record whose prefix cell is at bstart: the prefix
\* carries the true length, which the model keeps in `stream`.
ImplPrefixLen == IF nrec < Len(stream) THEN stream[nrec + 1].len ELSE 0

ImplNextAvail ==
    /\ ~ImplIsEmpty
    /\ bstart < bend                       \* the prefix terminator lies within [start,end)
    /\ buf[bstart + 1] = "p"
    /\ bend - bstart >= ImplPrefixLen

\* move_data_to_start: the whole buffer is shifted, the tail keeps old cells
ShiftLeft(b, s) ==
    [i \in 1..Len(b) |-> IF i + s <= Len(b) THEN b[i + s] ELSE b[i]]

RECURSIVE Expand(_, _, _)
Expand(b, e, n) == IF Len(b) - e < n THEN Expand(b \o RepeatCell("z", Len(b)), e, n) ELSE b

ImplAppend(chunk) ==
    LET shifted == ShiftLeft(buf, bstart)
        e0 == bend - bstart
        grown == Expand(shifted, e0, Len(chunk))
        copied == [i \in 1..Len(grown) |->
                      IF i > e0 /\ i <= e0 + Len(chunk) THEN chunk[i - e0] ELSE grown[i]]
    IN /\ buf' = copied
       /\ bstart' = 0
       /\ bend' = e0 + Len(chunk)

-----------------------------------------------------------------------------
(* actions *)

Init ==
    /\ stream = <<>>
    /\ started = FALSE
    /\ zeros \in 0..MaxZeros
    /\ fed = 0 /\ pos = 0 /\ nrec = 0
    /\ buf = RepeatCell("z", BUF0)
    /\ bstart = 0 /\ bend = 0
    /\ hist = <<>>

\* the environment chooses the stream, one record at a time, before reading starts
AddRec(l, z) ==
    /\ ~started /\ Len(stream) < MaxRecs
    /\ stream' = Append(stream, [len |-> l, zb |-> z])
    /\ UNCHANGED <<zeros, fed, pos, nrec, buf, bstart, bend, started, hist>>

Feed(n) ==
    /\ Len(hist) < MaxSteps
    /\ AbsFeed(n)
    /\ ImplAppend(SubSeq(AllCells, fed + 1, fed + n))
    /\ started' = TRUE
    /\ hist' = Append(hist, [op |-> "feed", n |-> n, empty |-> EmptyAt(pos, fed')])

Next ==
    /\ Len(hist) < MaxSteps
    /\ \E r \in 0..Len(stream) :
         /\ AbsNext(r)
         /\ bstart' = IF r = 0 THEN bstart ELSE bstart + stream[r].len
         /\ hist' = Append(hist, [op |-> "next", rec |-> r, empty |-> EmptyAt(pos', fed)])
    /\ started' = TRUE
    /\ UNCHANGED <<buf, bend>>

NextStep ==
    \/ \E l \in RecLens, z \in BOOLEAN : AddRec(l, z)
    \/ \E n \in 1..MaxChunk : Feed(n)
    \/ Next

Spec == Init /\ [][NextStep]_vars

-----------------------------------------------------------------------------
(* invariants *)

TypeOK ==
    /\ fed \in 0..Total /\ pos \in 0..fed /\ nrec \in 0..Len(stream)
    /\ bstart \in 0..bend /\ bend <= Len(buf)

\* the impl-shaped cursors track the abstract ones
CursorsAgree == bend - bstart = fed - pos

\* the unread window of the buffer holds exactly the unread fed cells
WindowAgrees ==
    \A i \in 1..(bend - bstart) : buf[bstart + i] = AllCells[pos + i]

\* refinement of the two observers (this is C20 at design level)
NextRefines == ImplNextAvail = SpecNextAvail
IsEmptyRefines == ImplIsEmpty = SpecIsEmpty

\* a consumer in the style of the log scan (feed chunk; drain; stop when
\* is_empty) never stops before the first zero cell: whenever the reader is
\* drained and reports empty, everything before the zero tail was returned.
NoEarlyStop ==
    (ImplIsEmpty /\ ~ImplNextAvail /\ fed > 0) => (nrec = Len(stream) \/ pos >= StreamLen)

-----------------------------------------------------------------------------
(* behaviour export for REPLAY: one JSON line per finished behaviour *)

Done == Len(hist) = MaxSteps

ExportBehaviour ==
    Done => PrintT(<<"REPLAY", ToJson([stream |-> stream, zeros |-> zeros, steps |-> hist])>>)

\* hide the history from the fingerprint during exhaustive checking
View == <<stream, zeros, fed, pos, nrec, buf, bstart, bend, started>>

=============================================================================
