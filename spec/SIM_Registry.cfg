SPECIFICATION SimSpec
CONSTANTS
  Svcs = {"s1", "s2"}
  Addrs = {"a1", "a2", "a3"}
  Conns = {"c1", "c2"}
  Nodes = {"n1"}
  H = 1
  T = 3
  MaxNow = 8
  MaxOps = 16
  SimKinds <- KindsAll
  SyncHttpClientIds = FALSE
  Record = TRUE
  Defect_NoArmOnSync = FALSE
  Defect_TakeoverKeepsOrigin = FALSE
  Defect_EchoRemovesFlipped = FALSE
  Defect_ClientSetBeforeOwner = FALSE
INVARIANTS ExportBehaviour
CHECK_DEADLOCK FALSE
