----------------------------- MODULE SnapInstall -----------------------------
(***************************************************************************)
(* Catching a follower up by snapshot (C08).                               *)
(*                                                                         *)
(* Leader L: a log of requests (data requests with the reference semantics *)
(* of StateMachine.tla, and membership changes), compaction into a         *)
(* snapshot [idx, state, membership] of k chunks.                          *)
(* Follower F: receives log entries one at a time while they are           *)
(* available, or a snapshot stream.  The stream is modelled at the grain   *)
(* of the code that runs it:                                               *)
(*   leader side   async-raft replication::stream_snapshot: chunk c at     *)
(*                 offset c-1, a final EMPTY chunk with done = TRUE; on a  *)
(*                 lost answer the SAME chunk is sent again; the stream    *)
(*                 keeps the snapshot it was started with;                 *)
(*   follower side async-raft core::install_snapshot on FileStore:         *)
(*                 no session -> create_snapshot (file snapshot_<last id+1>,*)
(*                 reused if an earlier install was not completed) and     *)
(*                 write; session -> seek if the offset differs, write;    *)
(*                 done -> finalize_snapshot_installation: catalogue,      *)
(*                 membership from the header, state machine, log pointer. *)
(* F may crash at any point (session lost, file kept) and restart (state = *)
(* last installed snapshot + own log behind it).                           *)
(*                                                                         *)
(* The contract (C08): whenever F is up and not in the middle of a stream, *)
(* it serves the state and membership of the leader's log prefix it has    *)
(* acknowledged - in particular right after an install and after every     *)
(* restart.                                                                *)
(*                                                                         *)
(* Deviations a correct implementation does not have (negative controls):  *)
(*   Defect_AppendMode        writes of a session always land at the end   *)
(*                            of the file (seek ignored)                   *)
(*   Defect_BeginAtZero       a chunk that opens a session is written at   *)
(*                            position 0 whatever its offset               *)
(*   Defect_NoTruncate        the reused file keeps cells beyond the new   *)
(*                            content                                      *)
(*   Defect_NoLiveLoad        finalize does not load the snapshot into the *)
(*                            running state machine                        *)
(*   Defect_InstallKeepsTmp   loading the snapshot leaves a temporary      *)
(*                            (echoed) config value in place               *)
(*   Defect_ReinstallOnDup    the final chunk arriving AGAIN after the     *)
(*                            install was completed (its answer was lost)  *)
(*                            opens a new session and installs the empty   *)
(*                            file it created                              *)
(***************************************************************************)
EXTENDS Naturals, Sequences, FiniteSets, TLC, Json

CONSTANTS
    CKeys, Contents, NsIds, NsNames, UKeys, UVals, SKeys, HistMax,
    MemberSets,             \* membership values the leader may switch between
    MaxChunks, MaxLog, MaxOps,
    Defect_AppendMode, Defect_BeginAtZero, Defect_NoTruncate, Defect_NoLiveLoad, Defect_ReinstallOnDup,
    Defect_InstallKeepsTmp

VARIABLES
    llog,       \* leader log: data requests and [t |-> "members", m |-> set]
    lsnap,      \* leader's current snapshot [idx, k] or NoSnap
    nextHid,
    fup,        \* follower process is running
    flast,      \* follower's last log index
    fsm, fmem,  \* follower: served state, membership
    finst,      \* follower: installed snapshot [idx, file] or NoSnap   (catalogue entry + file)
    ffile,      \* follower: content of the file the next install writes to (sequence of cells <<idx, c>>)
    sess,       \* follower: install session [offset] or NoSess  (in memory)
    strm,       \* leader: running stream [idx, k, next] or NoStrm
    ftmp,       \* follower: config keys that hold a temporary value (the echo of a publish the follower routed)
    ops, hist

vars == <<llog, lsnap, nextHid, fup, flast, fsm, fmem, finst, ffile, sess, strm, ftmp, ops, hist>>

SM == INSTANCE StateMachine WITH log <- <<>>, applied <- 0, sm <- 0, snaps <- <<>>, partial <- 0, capturing <- 0,
                                 ops <- 0, hist <- <<>>, Defect_StaleSnapshotTail <- FALSE, Defect_NonAtomicCapture <- FALSE,
                                 CTypes <- {""}, CDescs <- {""}, IKeys <- {}, IWeights <- {}, CaKeys <- {}, CaVals <- {},
                                 TKeys <- {}, TVals <- {}, SrvIds <- {},
                                 Defect_McpStickyRefs <- FALSE, Defect_McpRcLostAtSnapshot <- FALSE

NoSnap == [none |-> TRUE]
NoSess == [none |-> TRUE]
NoStrm == [none |-> TRUE]
InitMem == CHOOSE m \in MemberSets : \A o \in MemberSets : Cardinality(m) <= Cardinality(o)

\* state and membership of a prefix of the leader log
StateAt(i) == SM!Fold(SM!Empty, llog, 1, i)
RECURSIVE MemAt(_)
MemAt(i) == IF i = 0 THEN InitMem ELSE IF llog[i].t = "members" THEN llog[i].m ELSE MemAt(i - 1)

\* the cells of the snapshot taken at idx in k chunks
Cells(idx, k) == [c \in 1..k |-> <<idx, c>>]

\* write `data` (a sequence of cells) into `file` at position pos (0-based); gaps are holes <<0,0>>
WriteAt(file, pos, data) ==
    LET n == IF Len(file) > pos + Len(data) THEN Len(file) ELSE pos + Len(data)
    IN [i \in 1..n |-> IF i > pos /\ i <= pos + Len(data) THEN data[i - pos]
                       ELSE IF i <= Len(file) THEN file[i] ELSE <<0, 0>>]

Step(rec) == /\ ops < MaxOps /\ ops' = ops + 1 /\ hist' = Append(hist, rec)
\* (namespaces as a client sees them: the user namespaces and those in use by a configuration, see StateMachine.tla)
Obs == [last |-> flast', sm |-> [fsm' EXCEPT !.ns = SM!ListedNs(fsm')], mem |-> fmem', up |-> fup', tmp |-> ftmp']

Init ==
    /\ llog = <<>> /\ lsnap = NoSnap /\ nextHid = 1
    /\ fup \in BOOLEAN /\ flast = 0 /\ fsm = SM!Empty /\ fmem = InitMem /\ finst = NoSnap /\ ffile = <<>>
    /\ sess = NoSess /\ strm = NoStrm /\ ftmp = {} /\ ops = 0 /\ hist = <<>>

\* ------------------------------------------------------------------ leader
LWrite(r0) ==
    LET r == SM!Stamp(SM!Empty, r0, nextHid) IN
    /\ Len(llog) < MaxLog
    /\ llog' = Append(llog, r)
    /\ nextHid' = nextHid + SM!Inc(r0)
    /\ UNCHANGED <<lsnap, fup, flast, fsm, fmem, finst, ffile, sess, strm, ftmp>>
    /\ Step([op |-> "lwrite", index |-> Len(llog) + 1, req |-> r])

LMembers(m) ==
    /\ Len(llog) < MaxLog /\ m # MemAt(Len(llog))
    /\ llog' = Append(llog, [t |-> "members", m |-> m])
    /\ UNCHANGED <<lsnap, nextHid, fup, flast, fsm, fmem, finst, ffile, sess, strm, ftmp>>
    /\ Step([op |-> "lmembers", index |-> Len(llog) + 1, members |-> m])

LCompact(k) ==
    /\ Len(llog) > 0 /\ (IF lsnap = NoSnap THEN TRUE ELSE lsnap.idx < Len(llog))
    /\ lsnap' = [idx |-> Len(llog), k |-> k]
    /\ UNCHANGED <<llog, nextHid, fup, flast, fsm, fmem, finst, ffile, sess, strm, ftmp>>
    /\ Step([op |-> "lcompact", index |-> Len(llog), k |-> k])

\* ------------------------------------------------------------------ the follower's echo of a routed publish
\* A client sent a publish to the follower; the follower routed it to the leader (it is entry flast + 1 of the
\* leader's log, not replicated yet) and echoes the value locally (ConfigCmd::SetTmpValue): the follower serves
\* the new content at once, as a temporary value.  Whatever brings the committed state later - the entry itself or
\* a snapshot that contains it and later writes of the key - replaces the temporary value.
Unecho == IF ftmp = {} THEN fsm
          ELSE [fsm EXCEPT !.cfg = [k \in DOMAIN fsm.cfg |-> IF k \in ftmp THEN StateAt(flast).cfg[k] ELSE fsm.cfg[k]]]
FEcho ==
    /\ fup /\ ftmp = {} /\ flast < Len(llog)
    /\ LET e == llog[flast + 1] IN
         /\ e.t = "cfg_set" /\ e.k \in DOMAIN fsm.cfg /\ fsm.cfg[e.k].content # e.v
         /\ fsm' = [fsm EXCEPT !.cfg[e.k].content = e.v]
         /\ ftmp' = {e.k}
         /\ UNCHANGED <<llog, lsnap, nextHid, fup, flast, fmem, finst, ffile, sess, strm>>
         /\ Step([op |-> "fecho", k |-> e.k, v |-> e.v, prev |-> fsm.cfg[e.k].content, obs |-> Obs])

\* ------------------------------------------------------------------ log replication (entry flast + 1)
Replicate ==
    /\ fup /\ strm = NoStrm /\ flast < Len(llog)
    /\ LET e == llog[flast + 1] IN
         \* (the entry an echo anticipated is the next one: applying it makes the value regular)
         /\ fsm' = SM!ApplyReq(Unecho, e)
         /\ ftmp' = {}
         /\ fmem' = IF e.t = "members" THEN e.m ELSE fmem
         /\ flast' = flast + 1
         /\ UNCHANGED <<llog, lsnap, nextHid, fup, finst, ffile, sess, strm>>
         /\ Step([op |-> "replicate", index |-> flast + 1, entry |-> e, obs |-> Obs])

\* ------------------------------------------------------------------ snapshot stream
StartStream ==
    /\ strm = NoStrm /\ (IF lsnap = NoSnap THEN FALSE ELSE flast < lsnap.idx)
    /\ strm' = [idx |-> lsnap.idx, k |-> lsnap.k, next |-> 1]
    /\ UNCHANGED <<llog, lsnap, nextHid, fup, flast, fsm, fmem, finst, ffile, sess, ops, hist, ftmp>>

\* what finalize makes of the file: the snapshot is intact iff the file is exactly its cells
Intact(file, idx, k) == file = Cells(idx, k)

\* the stream's snapshot is already installed and no session is open: only a repeated final chunk can arrive
AlreadyInstalled == IF strm = NoStrm \/ finst = NoSnap THEN FALSE ELSE finst.idx = strm.idx /\ sess = NoSess /\ strm.next = strm.k + 1

\* the follower handles chunk c of the stream (c = k + 1: the empty final chunk); acked = the leader sees the answer
Chunk(acked) ==
    /\ strm # NoStrm /\ fup /\ ~AlreadyInstalled
    /\ LET c == strm.next
           done == c = strm.k + 1
           data == IF done THEN <<>> ELSE <<<<strm.idx, c>>>>
           off == c - 1
           begin == sess = NoSess
           pos == IF begin
                  THEN (IF Defect_BeginAtZero THEN 0 ELSE off)
                  ELSE (IF Defect_AppendMode THEN Len(ffile) ELSE off)
           base == IF begin /\ off = 0 /\ ~Defect_NoTruncate THEN <<>> ELSE ffile
           written == WriteAt(base, pos, data)
           \* a correct receiver ends with exactly the streamed bytes: cells behind the end are cut at finalize
           final == IF Defect_NoTruncate THEN written ELSE SubSeq(written, 1, IF Len(written) < strm.k THEN Len(written) ELSE strm.k)
       IN
         IF done
         THEN /\ finst' = [idx |-> strm.idx, file |-> final, k |-> strm.k]
              /\ ffile' = <<>> /\ sess' = NoSess
              /\ flast' = strm.idx
              /\ fmem' = MemAt(strm.idx)
              /\ fsm' = IF Defect_NoLiveLoad THEN fsm
                        ELSE IF Defect_InstallKeepsTmp
                        THEN LET t == StateAt(strm.idx) IN
                             [t EXCEPT !.cfg = [k \in DOMAIN t.cfg |-> IF k \in ftmp THEN [t.cfg[k] EXCEPT !.content = fsm.cfg[k].content]
                                                                       ELSE t.cfg[k]]]
                        ELSE StateAt(strm.idx)
              /\ ftmp' = IF Defect_NoLiveLoad THEN ftmp ELSE {}
              /\ strm' = IF acked THEN NoStrm ELSE strm
              /\ UNCHANGED <<llog, lsnap, nextHid, fup>>
              /\ Step([op |-> "chunk", snap |-> strm.idx, k |-> strm.k, c |-> c, done |-> TRUE, acked |-> acked,
                       last_log |-> flast, over_echo |-> (ftmp # {}), obs |-> Obs])
         ELSE /\ ffile' = written /\ sess' = [offset |-> pos + 1]
              /\ strm' = IF acked THEN [strm EXCEPT !.next = c + 1] ELSE strm
              /\ UNCHANGED <<llog, lsnap, nextHid, fup, flast, fsm, fmem, finst, ftmp>>
              /\ Step([op |-> "chunk", snap |-> strm.idx, k |-> strm.k, c |-> c, done |-> FALSE, acked |-> acked,
                       last_log |-> flast, obs |-> Obs])

\* the final chunk was handled but its answer lost: the leader sends it again to a follower that has finished.
\* Nothing may change (the install is complete); the defect installs the empty file of the new session.
DupFinal(acked) ==
    /\ AlreadyInstalled /\ fup
    /\ finst' = IF Defect_ReinstallOnDup THEN [idx |-> strm.idx, file |-> <<>>, k |-> strm.k] ELSE finst
    /\ strm' = IF acked THEN NoStrm ELSE strm
    /\ UNCHANGED <<llog, lsnap, nextHid, fup, flast, fsm, fmem, ffile, sess, ftmp>>
    /\ Step([op |-> "chunk", snap |-> strm.idx, k |-> strm.k, c |-> strm.k + 1, done |-> TRUE, acked |-> acked,
             last_log |-> flast, over_echo |-> FALSE, obs |-> Obs])

\* the leader's replication stream is torn down (leader restart, leadership change): a later stream starts over
StreamAbort ==
    /\ strm # NoStrm /\ strm' = NoStrm
    /\ UNCHANGED <<llog, lsnap, nextHid, fup, flast, fsm, fmem, finst, ffile, sess, ops, hist, ftmp>>

\* ------------------------------------------------------------------ follower crash / start
FCrash ==
    /\ fup /\ fup' = FALSE /\ sess' = NoSess /\ ftmp' = {}
    /\ UNCHANGED <<llog, lsnap, nextHid, flast, fsm, fmem, finst, ffile, strm>>
    /\ Step([op |-> "fcrash"])

\* start: last installed snapshot (if intact) + own log behind it
FStart ==
    /\ ~fup /\ fup' = TRUE
    /\ fsm' = StateAt(flast) /\ fmem' = MemAt(flast)
    /\ UNCHANGED <<llog, lsnap, nextHid, flast, finst, ffile, sess, strm, ftmp>>
    /\ Step([op |-> "fstart", obs |-> Obs])

Next ==
    \/ \E r \in SM!Requests : LWrite(r)
    \/ \E m \in MemberSets : LMembers(m)
    \/ \E k \in 1..MaxChunks : LCompact(k)
    \/ Replicate
    \/ FEcho
    \/ StartStream
    \/ \E a \in BOOLEAN : Chunk(a)
    \/ \E a \in BOOLEAN : DupFinal(a)
    \/ StreamAbort
    \/ FCrash \/ FStart

Spec == Init /\ [][Next]_vars

\* ------------------------------------------------------------------ properties
\* the installed snapshot file is exactly what the leader streamed
InstalledIntact == IF finst = NoSnap THEN TRUE ELSE Intact(finst.file, finst.idx, finst.k)
\* C08: a running follower serves the leader's prefix it has acknowledged, with its membership
FollowerServesPrefix == fup => (Unecho = StateAt(flast) /\ fmem = MemAt(flast))
\* (restart is covered by FStart defining fsm' from the contract and InstalledIntact making that possible)

\* thin-case generation: an install completes while the follower holds an echoed (temporary) value - exported from
\* the COMPLETE state graph (one behaviour per distinct state that qualifies); random schedules rarely get there
ThinEcho == Len(hist) > 0 /\ hist[Len(hist)].op = "chunk" /\ hist[Len(hist)].done /\ hist[Len(hist)].over_echo
ExportThinEcho == ThinEcho => PrintT(<<"REPLAY", ToJson([steps |-> hist])>>)

Done == ops = MaxOps
ExportBehaviour == Done => PrintT(<<"REPLAY", ToJson([steps |-> hist])>>)
View == <<llog, lsnap, fup, flast, fsm, fmem, finst, ffile, sess, strm, ftmp>>
\* (for the generation run: a state reached by a thin step must not be merged with the same state reached otherwise)
ViewGen == <<View, ThinEcho>>
=============================================================================
