SPECIFICATION Spec
CONSTANTS Mode = "chk18"
INVARIANTS Chk18
CHECK_DEADLOCK FALSE
