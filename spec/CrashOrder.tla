----------------------------- MODULE CrashOrder -----------------------------
(***************************************************************************)
(* The ORDER in which the Raft store mutates its files (C04, design leg).  *)
(*                                                                         *)
(* Files: the catalogue `index` (one record rewritten in place: log        *)
(* ranges, snapshot ranges, term, vote, membership; 8 header bytes with    *)
(* the last applied index), the log files log_<id>, the snapshot files     *)
(* snapshot_<id>.  One action = one file mutation (one system call of the  *)
(* journal: open-create, write, set_len, unlink).  The guards are the      *)
(* ORDER DISCIPLINE the code follows:                                      *)
(*   D1  the catalogue changes only by one write of the whole record       *)
(*       (never truncated, renamed, unlinked)                              *)
(*   D2  a log file gets its header and its size before any record; (the    *)
(*       catalogue entry and the creation of the file are issued by two    *)
(*       actors and appear in either order in real journals, so listing is *)
(*       NOT required here; a file that is not listed is ignored by        *)
(*       start-up)                                                         *)
(*   D3  a snapshot file is written only while the catalogue does not list *)
(*       it, and is listed only when it exists                             *)
(*   D4  the newest listed snapshot is never unlinked                      *)
(*   D5  a log file is unlinked, and a log range leaves the catalogue,     *)
(*       only when a listed snapshot covers all its entries                *)
(* A crash can fall between any two mutations: TLC checks that every       *)
(* reachable disk state is Recoverable.  Journals of the real store are    *)
(* validated against the same actions (Trace_CrashOrder.tla).              *)
(*                                                                         *)
(* Negative controls (each makes Recoverable fail):                        *)
(*   Defect_CatTruncateFirst   the catalogue is sized before it is written *)
(*   Defect_ListBeforeWritten  a snapshot is listed before its file exists *)
(*   Defect_UnlinkUncovered    a log file may be unlinked without a        *)
(*                             covering snapshot                           *)
(***************************************************************************)
EXTENDS Naturals, Sequences, FiniteSets, TLC

CONSTANTS LogIds, SnapIds, MaxIndex,
          Defect_CatTruncateFirst, Defect_ListBeforeWritten, Defect_UnlinkUncovered

VARIABLES
    cat,        \* catalogue record: [logs: id -> [start, count, closed], snaps: sequence of [id, end]]
    catTorn,    \* the record on disk is cut short (defect only)
    logf,       \* log id -> "absent" | "open" | "header" | "ready"
    logdata,    \* log id -> BOOLEAN: data records have been written into the file
    snapf,      \* snapshot id -> "absent" | "written"
    lost        \* records that no listed snapshot covers have been thrown away (only reachable with a defect)

vars == <<cat, catTorn, logf, logdata, snapf, lost>>

NoLogs == [i \in {} |-> 0]
LastSnapEnd(c) == IF c.snaps = <<>> THEN 0 ELSE c.snaps[Len(c.snaps)].end
SnapListed(c) == {c.snaps[i].id : i \in 1..Len(c.snaps)}
\* all entries of the range are covered by the newest listed snapshot (a pointer range holds the snapshot's own index)
Covered(c, id) == LET r == c.logs[id] IN r.closed /\ r.start + r.count <= LastSnapEnd(c) + 1

Init ==
    /\ cat = [logs |-> NoLogs, snaps |-> <<>>] /\ catTorn = FALSE
    /\ logf = [i \in LogIds |-> "absent"] /\ logdata = [i \in LogIds |-> FALSE]
    /\ snapf = [i \in SnapIds |-> "absent"] /\ lost = FALSE

\* ------------------------------------------------------------------ the discipline as predicates on (old, new) catalogue
CatOK(old, new) ==
    \* D3: a snapshot is listed only when its file exists
    /\ \A i \in 1..Len(new.snaps) :
          new.snaps[i].id \notin SnapListed(old) => (snapf[new.snaps[i].id] = "written" \/ Defect_ListBeforeWritten)
    \* the newest listed snapshot never moves backwards
    /\ LastSnapEnd(new) >= LastSnapEnd(old)
    \* D5: a range that holds data leaves the catalogue only when the (new) newest snapshot covers it
    /\ \A id \in (DOMAIN old.logs) \ (DOMAIN new.logs) :
          ~logdata[id] \/ (old.logs[id].closed /\ old.logs[id].start + old.logs[id].count <= LastSnapEnd(new) + 1) \/ Defect_UnlinkUncovered

\* ------------------------------------------------------------------ one action per file mutation
CatWrite(new) ==
    /\ CatOK(cat, new)
    /\ cat' = new /\ catTorn' = FALSE
    /\ lost' = (lost \/ \E id \in (DOMAIN cat.logs) \ (DOMAIN new.logs) :
                          logdata[id] /\ ~(cat.logs[id].closed /\ cat.logs[id].start + cat.logs[id].count <= LastSnapEnd(new) + 1))
    /\ UNCHANGED <<logf, logdata, snapf>>
\* (defect) the record is cut to the new length before it is written: in between it is unreadable when shorter
CatTruncate ==
    /\ Defect_CatTruncateFirst /\ catTorn' = TRUE
    /\ UNCHANGED <<cat, logf, logdata, snapf, lost>>
AppliedWrite == UNCHANGED vars          \* 8 header bytes, independent of the record

LogOpen(id) ==
    /\ logf' = [logf EXCEPT ![id] = IF @ = "absent" THEN "open" ELSE @]
    /\ UNCHANGED <<cat, catTorn, logdata, snapf, lost>>
LogHeader(id) ==
    /\ logf[id] \in {"open", "header", "ready"}
    /\ logf' = [logf EXCEPT ![id] = IF @ = "open" THEN "header" ELSE @]
    /\ UNCHANGED <<cat, catTorn, logdata, snapf, lost>>
LogSetLen(id) ==
    /\ logf[id] \in {"header", "ready"}
    /\ logf' = [logf EXCEPT ![id] = "ready"]
    /\ UNCHANGED <<cat, catTorn, logdata, snapf, lost>>
\* a record (or an index-area entry, or the zeros of a truncation) goes into a listed, sized file
LogData(id) ==
    /\ logf[id] = "ready"                                  \* D2
    /\ logdata' = [logdata EXCEPT ![id] = TRUE]
    /\ UNCHANGED <<cat, catTorn, logf, snapf, lost>>
LogUnlink(id) ==
    /\ logf[id] # "absent"
    /\ (IF id \notin DOMAIN cat.logs \/ ~logdata[id] \/ Defect_UnlinkUncovered THEN TRUE
        ELSE Covered(cat, id))                              \* D5
    /\ logf' = [logf EXCEPT ![id] = "absent"] /\ logdata' = [logdata EXCEPT ![id] = FALSE]
    /\ lost' = (lost \/ (IF id \in DOMAIN cat.logs /\ logdata[id] THEN ~Covered(cat, id) ELSE FALSE))
    /\ UNCHANGED <<cat, catTorn, snapf>>

SnapCreate(id) ==
    /\ id \notin SnapListed(cat)                            \* D3
    /\ snapf' = [snapf EXCEPT ![id] = "written"]
    /\ UNCHANGED <<cat, catTorn, logf, logdata, lost>>
SnapWrite(id) ==
    /\ id \notin SnapListed(cat) /\ snapf[id] = "written"
    /\ UNCHANGED vars
SnapUnlink(id) ==
    /\ snapf[id] # "absent"
    /\ (IF cat.snaps = <<>> THEN TRUE ELSE cat.snaps[Len(cat.snaps)].id # id)  \* D4
    /\ snapf' = [snapf EXCEPT ![id] = "absent"]
    /\ UNCHANGED <<cat, catTorn, logf, logdata, lost>>

\* ------------------------------------------------------------------ generator of catalogue changes (model checking)
With(f, k, v) == [x \in (DOMAIN f) \cup {k} |-> IF x = k THEN v ELSE f[x]]
Without(f, k) == [x \in (DOMAIN f) \ {k} |-> f[x]]
CatChanges ==
    {[cat EXCEPT !.logs = With(cat.logs, id, [start |-> s, count |-> 0, closed |-> FALSE])] :
        id \in LogIds \ DOMAIN cat.logs, s \in 1..MaxIndex}
    \cup {[cat EXCEPT !.logs = With(cat.logs, id, [start |-> cat.logs[id].start, count |-> n, closed |-> TRUE])] :
        id \in {i \in DOMAIN cat.logs : ~cat.logs[i].closed}, n \in 0..MaxIndex}
    \cup {[cat EXCEPT !.logs = Without(cat.logs, id)] : id \in DOMAIN cat.logs}
    \cup {[cat EXCEPT !.snaps = (IF Len(cat.snaps) >= 2 THEN <<cat.snaps[Len(cat.snaps)]>> ELSE cat.snaps) \o <<[id |-> id, end |-> e]>>] :
        id \in SnapIds \ SnapListed(cat), e \in 1..MaxIndex}
    \cup {cat}          \* term / vote / membership only

Next ==
    \/ \E new \in CatChanges : CatWrite(new)
    \/ CatTruncate
    \/ \E id \in LogIds : LogOpen(id) \/ LogHeader(id) \/ LogSetLen(id) \/ LogData(id) \/ LogUnlink(id)
    \/ \E id \in SnapIds : SnapCreate(id) \/ SnapWrite(id) \/ SnapUnlink(id)

Spec == Init /\ [][Next]_vars

\* ------------------------------------------------------------------ what start-up needs (a crash may fall anywhere)
Recoverable ==
    \* the catalogue can be read
    /\ ~catTorn
    \* the newest listed snapshot is there
    /\ (IF cat.snaps = <<>> THEN TRUE ELSE snapf[cat.snaps[Len(cat.snaps)].id] = "written")
    \* a listed log file that is missing or unfinished holds nothing the snapshot does not cover: start-up creates it anew
    /\ \A id \in DOMAIN cat.logs : logf[id] # "ready" => (~logdata[id] \/ Covered(cat, id))
    \* no records that the snapshot does not cover have been thrown away
    /\ ~lost
TypeOK == \A id \in LogIds : logdata[id] => logf[id] = "ready"
=============================================================================
