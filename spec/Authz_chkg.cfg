SPECIFICATION Spec
CONSTANTS Mode = "chkg"
INVARIANTS ChkG
CHECK_DEADLOCK FALSE
