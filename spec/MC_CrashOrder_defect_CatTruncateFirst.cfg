SPECIFICATION Spec
CONSTANTS
  LogIds = {0, 1}
  SnapIds = {1, 2}
  MaxIndex = 2
  Defect_CatTruncateFirst = TRUE
  Defect_ListBeforeWritten = FALSE
  Defect_UnlinkUncovered = FALSE
INVARIANTS Recoverable TypeOK
CHECK_DEADLOCK FALSE
