------------------------- MODULE Trace_ConfigCluster -------------------------
(***************************************************************************)
(* Trace validation of histories recorded on a REAL three-node cluster     *)
(* against ConfigCluster.tla.                                              *)
(*                                                                         *)
(* Logged: every client call (id, node, key, publish/remove) and its       *)
(* answer (ok / err - a timeout or no answer counts as err), every fault   *)
(* (crash = SIGKILL or SIGSTOP, restart = new process or SIGCONT), the     *)
(* points at which the driver saw the cluster quiescent, and the value     *)
(* every live node then served for every key (as the set of request ids    *)
(* that wrote that content).                                               *)
(* Not logged: when the leader commits, who leads, when nodes apply.       *)
(* Those are the specification's own actions, taken silently or composed   *)
(* into the logged step:                                                   *)
(*   CommitAny(id)  = Elect(n) . Commit(id) for some node n that is up     *)
(*   TQuiesce       = Apply(n) repeated on every node that is up           *)
(* The trace is accepted iff some placement of the commits explains every  *)
(* answer and every value read.                                            *)
(***************************************************************************)
EXTENDS ConfigCluster, Json, IOUtils

Rec == ndJsonDeserialize(IOEnv.TRACE)
VARIABLE l
tvars == <<vars, l>>

TraceInit == Init /\ l = 1 /\ TLCSet(1, 1)
IsEvent(e) == l <= Len(Rec) /\ Rec[l].ev = e /\ l' = l + 1
Range(s) == {s[i] : i \in 1..Len(s)}

\* Elect(n) . Commit(id)
CommitAny(id) ==
    /\ id \in DOMAIN reqs /\ id \notin Committed /\ Majority(UpSet)
    /\ \E n \in UpSet :
         /\ leader' = n
         /\ clog' = Append(clog, [id |-> id, k |-> reqs[id].k, del |-> reqs[id].del])
    /\ UNCHANGED <<reqs, up, applied, tmp, echo, lost, snap>>

TCall == /\ IsEvent("call") /\ Call(Rec[l].id, Rec[l].via, Rec[l].k, Rec[l].del)

\* the request is committed when success is answered (committed earlier by a silent step, or right now)
TRetOk ==
    /\ IsEvent("ret") /\ Rec[l].res = "ok"
    /\ Rec[l].id \in Committed
    \* AnswerOk without its echo record: no step of this trace specification ever handles an echo (the follower's
    \* echo is bound to the code by the node-level replay, not by cluster traces), and keeping the records - whose
    \* presence depends on the silently chosen leader - only multiplies the states (2^n after n routed writes)
    /\ LET id == Rec[l].id IN
         /\ id \in DOMAIN reqs /\ reqs[id].st = "sent" /\ up[reqs[id].via]
         /\ reqs' = [reqs EXCEPT ![id].st = "ok"]
    /\ UNCHANGED <<clog, up, applied, tmp, echo, lost, snap, leader>>
TRetErr == /\ IsEvent("ret") /\ Rec[l].res # "ok" /\ AnswerErr(Rec[l].id)
TCrash == /\ IsEvent("crash") /\ Crash(Rec[l].n)
TRestart == /\ IsEvent("restart") /\ Restart(Rec[l].n)

\* every node that is up applies everything committed
TQuiesce ==
    /\ IsEvent("quiesce")
    \* (the echoes still in flight are handled first: Echo(n, id) for every pending one, then the applies)
    /\ applied' = [n \in Node |-> IF up[n] THEN Len(clog) ELSE applied[n]]
    /\ tmp' = [n \in Node |-> IF up[n]
                               THEN [k \in (DOMAIN tmp[n]) \ {clog[i].k : i \in (applied[n] + 1)..Len(clog)} |-> tmp[n][k]]
                               ELSE tmp[n]]
    /\ echo' = {}
    /\ lost' = [n \in Node |-> IF up[n] THEN lost[n] \ {clog[i].k : i \in (applied[n] + 1)..Len(clog)} ELSE lost[n]]
    /\ UNCHANGED <<clog, reqs, up, snap, leader>>

\* a value read at a quiescent point: the content served was written by one of the listed requests (0 = absent)
TRead ==
    /\ IsEvent("read")
    /\ Serve(Rec[l].n, Rec[l].k) \in Range(Rec[l].ids)
    /\ UNCHANGED vars

\* silent: a request that was sent (answered or not) is committed.  Only two placements can make a difference to
\* what is logged: right before its own success answer, and right before a quiescent point (a commit placed earlier
\* is either overwritten by the later writes of that key - the same as never committed - or equivalent to this one)
TSilentCommit ==
    /\ l <= Len(Rec)
    /\ \E id \in DOMAIN reqs :
         /\ \/ (Rec[l].ev = "ret" /\ Rec[l].res = "ok" /\ Rec[l].id = id)
            \/ Rec[l].ev = "quiesce"
         /\ CommitAny(id)
    /\ UNCHANGED l

TraceNext == TCall \/ TRetOk \/ TRetErr \/ TCrash \/ TRestart \/ TQuiesce \/ TRead \/ TSilentCommit
TraceSpec == TraceInit /\ [][TraceNext]_tvars

\* progress register: the furthest line reached by any explored state
Progress == TLCSet(1, IF TLCGet(1) > l THEN TLCGet(1) ELSE l)
TraceAccepted ==
    IF TLCGet(1) = Len(Rec) + 1 THEN TRUE
    ELSE Print(<<"TRACE-REJECTED at line", TLCGet(1), Rec[TLCGet(1)]>>, FALSE)
=============================================================================
