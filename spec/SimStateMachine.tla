-------------------------- MODULE SimStateMachine --------------------------
(***************************************************************************)
(* Generation wrapper for StateMachine.tla: TLC's simulator picks          *)
(* uniformly among successor STATES, so actions with many parameter        *)
(* choices (Apply/ApplyBatch) would crowd out Compact/Restart.  Here a     *)
(* step first picks the KIND of action, then one of its instances.  The    *)
(* behaviours produced are behaviours of StateMachine!Spec (with           *)
(* stuttering).                                                            *)
(***************************************************************************)
EXTENDS StateMachine

VARIABLE pending

\* the simulation configurations place the config key kn1 in the user namespace n1 (CfgTenant <- CfgTenantNs): publishing
\* and removing it makes n1 a namespace "in use" - listed under its id until a user names it, and never in a snapshot
CfgTenantNs(k) == IF k = "kn1" THEN "n1" ELSE IF k = "kn2" THEN "n2" ELSE ""
\* ... and the persistent instance of service sn2 in the namespace n2, which no configuration uses (InstTenant <- InstTenantNs):
\* n2 is listed because of the instance alone (NAMING mark of the service index) unless a user creates it too
InstTenantNs(k) == IF k = "sn2:10.0.0.1:82" THEN "n2" ELSE ""

Kinds == {"apply", "apply", "batch", "compact", "restart", "interrupt"}

\* one request: first its kind (uniformly among the kinds that have instances), then one instance - so that a
\* kind with many instances (config publishes) does not crowd out the others.  RandomElement is TLC's.
\* (Pick takes a state-dependent argument: TLC evaluates a constant-level definition once and keeps the value)
ReqKinds == {r.t : r \in Requests}
Pick(n) == LET t == RandomElement(ReqKinds) IN RandomElement({r \in Requests : r.t = t /\ n = n})

SimInit == Init /\ pending = "none"

SimNext ==
    \/ /\ pending = "none" /\ ops < MaxOps
       \* (the last step of every generated behaviour is a restart: one successor, one export)
       /\ \E k \in (IF ops = MaxOps - 1 THEN {"restart"} ELSE {"apply", "batch", "compact", "restart", "interrupt"}) : pending' = k
       /\ UNCHANGED vars
    \/ /\ pending = "apply" /\ pending' = "none" /\ Apply(Pick(ops))
    \/ /\ pending = "batch" /\ pending' = "none" /\ ApplyBatch(Pick(ops), Pick(ops + 1))
    \/ /\ pending = "compact" /\ pending' = "none" /\ Compact
    \/ /\ pending = "restart" /\ pending' = "none" /\ Restart
    \/ /\ pending = "interrupt" /\ pending' = "none" /\ InterruptSnap
    \/ /\ pending \in {"compact", "restart", "interrupt"} /\ ops < MaxOps - 1
       /\ pending' = "none" /\ UNCHANGED vars   \* kind not enabled: skip

SimSpec == SimInit /\ [][SimNext]_<<vars, pending>>
=============================================================================
