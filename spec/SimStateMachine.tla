-------------------------- MODULE SimStateMachine --------------------------
(***************************************************************************)
(* Generation wrapper for StateMachine.tla: TLC's simulator picks          *)
(* uniformly among successor STATES, so actions with many parameter        *)
(* choices (Apply/ApplyBatch) would crowd out Compact/Restart.  Here a     *)
(* step first picks the KIND of action, then one of its instances.  The    *)
(* behaviours produced are behaviours of StateMachine!Spec (with           *)
(* stuttering).                                                            *)
(***************************************************************************)
EXTENDS StateMachine

VARIABLE pending

Kinds == {"apply", "apply", "batch", "compact", "restart", "interrupt"}

SimInit == Init /\ pending = "none"

SimNext ==
    \/ /\ pending = "none" /\ ops < MaxOps
       \* (the last step of every generated behaviour is a restart: one successor, one export)
       /\ \E k \in (IF ops = MaxOps - 1 THEN {"restart"} ELSE {"apply", "batch", "compact", "restart", "interrupt"}) : pending' = k
       /\ UNCHANGED vars
    \/ /\ pending = "apply" /\ pending' = "none" /\ \E r \in Requests : Apply(r)
    \/ /\ pending = "batch" /\ pending' = "none" /\ \E r1 \in Requests, r2 \in Requests : ApplyBatch(r1, r2)
    \/ /\ pending = "compact" /\ pending' = "none" /\ Compact
    \/ /\ pending = "restart" /\ pending' = "none" /\ Restart
    \/ /\ pending = "interrupt" /\ pending' = "none" /\ InterruptSnap
    \/ /\ pending \in {"compact", "restart", "interrupt"} /\ ops < MaxOps - 1
       /\ pending' = "none" /\ UNCHANGED vars   \* kind not enabled: skip

SimSpec == SimInit /\ [][SimNext]_<<vars, pending>>
=============================================================================
