SPECIFICATION SimSpec
CONSTANTS
  CKeys = {"k1"}
  Contents = {"a"}
  NsIds = {"n1"}
  NsNames = {"x"}
  UKeys = {"u1"}
  UVals = {"p"}
  SKeys = {"sq1", "sq2"}
  HistMax = 100
  MemberSets = {{1}, {1, 2}}
  MaxChunks = 2
  MaxLog = 30
  MaxOps = 24
  Defect_AppendMode = FALSE
  Defect_BeginAtZero = FALSE
  Defect_NoTruncate = FALSE
  Defect_NoLiveLoad = FALSE
  Defect_ReinstallOnDup = FALSE
  Defect_InstallKeepsTmp = FALSE
INVARIANTS ExportBehaviour InstalledIntact FollowerServesPrefix
CHECK_DEADLOCK FALSE
