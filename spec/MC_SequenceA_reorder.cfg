SPECIFICATION SpecA
CONSTANTS
  Node = {"n1"}
  Key = {"k"}
  STEP = 2
  BATCH = 2
  MaxIssued = 4
  MaxLog = 0
  AllowReorder = TRUE
  Bug_SkipMarkOnNoChange = FALSE
INVARIANTS MonotoneA
CHECK_DEADLOCK FALSE
