SPECIFICATION Spec
CONSTANTS
  Svcs = {"s1"}
  Addrs = {"a1"}
  Conns = {"c1", "c2"}
  Nodes = {"n1"}
  H = 1
  T = 2
  MaxNow = 4
  MaxOps = 1000000
  SyncHttpClientIds = TRUE
  Record = FALSE
  Defect_NoArmOnSync = FALSE
  Defect_TakeoverKeepsOrigin = FALSE
  Defect_EchoRemovesFlipped = FALSE
  Defect_ClientSetBeforeOwner = TRUE
VIEW StateView
CONSTRAINT NoRange
INVARIANTS CountsMatch HealthyCountsMatch PerpetualMatches IndexedOnce ClientSetSound ClientSetComplete ArmedHealthy ArmedUnhealthy
PROPERTIES NeverExpireWhileBeating NeverExpireGrpcOrPersistent ExpiredAfterSweep
CHECK_DEADLOCK FALSE
