SPECIFICATION Spec
CONSTANTS
  MaxLen = 4
  MaxOps = 100000
  MaxTerm = 3
  Sizes = {1, 2}
  MaxBatch = 2
  Bug_TruncateKeepsK = FALSE
  WithCompaction = TRUE
VIEW View
INVARIANTS TypeOK ContiguousInv TermsInv IdsUnique
PROPERTIES TruncateExact ReopenIdentity
CHECK_DEADLOCK FALSE
