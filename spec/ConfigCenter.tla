---------------------------- MODULE ConfigCenter ----------------------------
(***************************************************************************)
(* The config centre of one node (ConfigActor, src/config/core.rs):        *)
(* store, listings, change history (C09) and change notification to        *)
(* long-polling listeners and gRPC subscribers (C10).                      *)
(*                                                                         *)
(* md5 is modelled as the identity on contents (the harness uses distinct  *)
(* contents, so real md5s are injective on its alphabet); "" is the md5 of *)
(* an absent key.  Time is an integer clock advanced by Tick; a long poll  *)
(* carries an absolute deadline.                                           *)
(*                                                                         *)
(* One action per handler of the actor:                                    *)
(*   Publish   ConfigRaftCmd::ConfigAdd     Remove   ConfigRaftCmd::ConfigRemove *)
(*   Import    ConfigRaftCmd::SetFullValue  Listen   ConfigCmd::LISTENER   *)
(*   Subscribe / Unsubscribe / Disconnect   ConfigCmd::{Subscribe,...}     *)
(*   Tick      the 500 ms heart-beat answering expired long polls          *)
(* Every step records its observable effects (listeners answered, gRPC     *)
(* notifications emitted) and the state a client can read afterwards.      *)
(***************************************************************************)
EXTENDS Naturals, Sequences, FiniteSets, TLC, Json

CONSTANTS
    Keys,           \* set of records [d, g, t] (dataId, group, tenant)
    Contents,
    Types,
    Lids,           \* long-poll listener ids
    Clients,        \* gRPC client ids
    HistMax,        \* history bound (real: 100)
    MaxOps,
    WithListeners,  \* BOOLEAN: C10 actions enabled
    Bug_WakeOnlyOldest  \* BOOLEAN, negative control only: a change wakes one waiter, not all

VARIABLES
    cache,      \* key -> [content, ctype, hist]
    pend,       \* set of pending listeners [id, keys, deadline]
    subs,       \* client -> set of keys
    now,
    nextHid, usedL,
    ops, hist

vars == <<cache, pend, subs, now, nextHid, usedL, ops, hist>>

Md5(k) == IF k \in DOMAIN cache THEN cache[k].content ELSE ""
Put(f, k, v) == [x \in (DOMAIN f) \cup {k} |-> IF x = k THEN v ELSE f[x]]
Del(f, k) == [x \in (DOMAIN f) \ {k} |-> f[x]]
TailTo(s, n) == IF Len(s) > n THEN SubSeq(s, Len(s) - n + 1, Len(s)) ELSE s

\* ------------------------------------------------------------------ what a client can read
KeyStr(k) == k.t \o "|" \o k.g \o "|" \o k.d
View(c) == [k \in DOMAIN c |-> c[k]]
Pending(p) == {[id |-> l.id, keys |-> l.keys] : l \in p}
Obs == [cache |-> [ks \in {KeyStr(k) : k \in DOMAIN cache} |->
                      LET k == CHOOSE x \in DOMAIN cache : KeyStr(x) = ks IN cache[k]],
        pending |-> {[id |-> l.id, keys |-> {KeyStr(k) : k \in l.keys}] : l \in pend},
        subs |-> [c \in Clients |-> {KeyStr(k) : k \in subs[c]}]]

Step(rec) == /\ ops < MaxOps /\ ops' = ops + 1 /\ hist' = Append(hist, rec)

Init ==
    /\ cache = [k \in {} |-> 0] /\ pend = {} /\ subs = [c \in Clients |-> {}]
    /\ now = 0 /\ nextHid = 1 /\ usedL = {} /\ ops = 0 /\ hist = <<>>

Waiting(k) == {l \in pend : k \in l.keys}
Subscribed(k) == {c \in Clients : k \in subs[c]}

\* ------------------------------------------------------------------ store
\* echo = the publish entered through THIS node, which routed it to the leader and echoed the value locally
\* (ConfigCmd::SetTmpValue) before the committed entry arrives: the step is the echo followed by the apply; listeners
\* and subscribers are served by the apply exactly as without an echo
Publish(k, v, ty, echo) ==
    LET exists == k \in DOMAIN cache
        same == exists /\ cache[k].content = v /\ ~cache[k].tmp
        nty == IF ty = "" THEN (IF exists THEN cache[k].ctype ELSE "") ELSE ty
        oldh == IF exists THEN cache[k].hist ELSE <<>>
        newv == IF same THEN [cache[k] EXCEPT !.ctype = nty]       \* same md5: only the type is updated
                ELSE [content |-> v, ctype |-> nty, tmp |-> FALSE, listed |-> TRUE,
                      hist |-> TailTo(Append(oldh, [id |-> nextHid, content |-> v]), HistMax)]
        allw == IF same THEN {} ELSE Waiting(k)
        woken == IF Bug_WakeOnlyOldest /\ allw # {}
                 THEN {CHOOSE l \in allw : \A m \in allw : l.id <= m.id} ELSE allw
        notified == IF same THEN {} ELSE Subscribed(k)
    IN /\ cache' = Put(cache, k, newv)
       /\ pend' = pend \ woken
       /\ nextHid' = nextHid + 1
       /\ UNCHANGED <<subs, now, usedL>>
       /\ Step([op |-> "publish", key |-> KeyStr(k), k |-> k, v |-> v, ty |-> ty, hid |-> nextHid, echo |-> echo,
                answered |-> {[id |-> l.id, keys |-> {KeyStr(k)}] : l \in woken},
                notify |-> IF notified = {} THEN <<>> ELSE <<[key |-> KeyStr(k), clients |-> notified]>>,
                obs |-> [cache |-> [ks \in {KeyStr(x) : x \in DOMAIN cache'} |->
                                        LET kk == CHOOSE x \in DOMAIN cache' : KeyStr(x) = ks IN cache'[kk]],
                         pending |-> {[id |-> l.id, keys |-> {KeyStr(x) : x \in l.keys}] : l \in pend'},
                         subs |-> [c \in Clients |-> {KeyStr(x) : x \in subs[c]}]]])

\* a remove notifies every waiter and subscriber of the key (even if the key did not exist) and
\* the key's subscriptions are forgotten
Remove(k) ==
    LET woken == Waiting(k)
        notified == Subscribed(k)
    IN /\ cache' = Del(cache, k)
       /\ pend' = pend \ woken
       /\ subs' = [c \in Clients |-> subs[c] \ {k}]
       /\ UNCHANGED <<now, nextHid, usedL>>
       /\ Step([op |-> "remove", key |-> KeyStr(k), k |-> k,
                answered |-> {[id |-> l.id, keys |-> {KeyStr(k)}] : l \in woken},
                notify |-> IF notified = {} THEN <<>> ELSE <<[key |-> KeyStr(k), clients |-> notified]>>,
                obs |-> [cache |-> [ks \in {KeyStr(x) : x \in DOMAIN cache'} |->
                                        LET kk == CHOOSE x \in DOMAIN cache' : KeyStr(x) = ks IN cache'[kk]],
                         pending |-> {[id |-> l.id, keys |-> {KeyStr(x) : x \in l.keys}] : l \in pend'},
                         subs |-> [c \in Clients |-> {KeyStr(x) : x \in subs'[c]}]]])

\* full-value import (transfer / snapshot): replaces value and history, no notification.  The record carries its content and
\* its history as two things: hs is the history as the record lists it, which need not end with the content (a file written by
\* another tool or an older version, a record built while the key held a forwarded value) - what is served is the record's
\* CONTENT with its md5, and the history as listed.
\* (OddImports is a definition the generation configurations override with OddOn: the model-checking configurations keep
\* the invariant HistoryEndsWithContent, which speaks about publishes and which such a record breaks by its input.)
ImportHist == UNION {[1..n -> Contents] : n \in 1..2}
OddImports == FALSE
OddOn == TRUE
Import(k, v, hs) ==
    /\ ~WithListeners
    /\ OddImports \/ hs[Len(hs)] = v
    /\ cache' = Put(cache, k, [content |-> v, ctype |-> "", tmp |-> FALSE, listed |-> TRUE,
                               hist |-> [i \in 1..Len(hs) |-> [id |-> nextHid + i - 1, content |-> hs[i]]]])
    /\ nextHid' = nextHid + Len(hs)
    /\ UNCHANGED <<pend, subs, now, usedL>>
    /\ Step([op |-> "import", key |-> KeyStr(k), k |-> k, v |-> v, hid |-> nextHid + Len(hs) - 1,
             h |-> [i \in 1..Len(hs) |-> [id |-> nextHid + i - 1, content |-> hs[i]]],
             answered |-> {}, notify |-> <<>>,
             obs |-> [cache |-> [ks \in {KeyStr(x) : x \in DOMAIN cache'} |->
                                     LET kk == CHOOSE x \in DOMAIN cache' : KeyStr(x) = ks IN cache'[kk]],
                      pending |-> Obs.pending, subs |-> Obs.subs]])

\* the echo ALONE (ConfigCmd::SetTmpValue on the node that routed a publish; the committed entry - or a snapshot
\* that already contains it, or an import of the key - arrives later as a step of its own): the value is served by
\* a read at once, it is temporary (no history entry, and a key that is new to this node is not listed yet); an
\* echo of the content the node already serves changes nothing.  No listener is woken by it (as coded; C10 does
\* not judge it), so it belongs to the store alphabet only.
Echo(k, v) ==
    /\ ~WithListeners
    /\ cache' = IF k \in DOMAIN cache
                THEN IF cache[k].content = v /\ ~cache[k].tmp THEN cache
                     ELSE Put(cache, k, [cache[k] EXCEPT !.content = v, !.tmp = TRUE])
                ELSE Put(cache, k, [content |-> v, ctype |-> "", tmp |-> TRUE, listed |-> FALSE, hist |-> <<>>])
    /\ UNCHANGED <<pend, subs, now, nextHid, usedL>>
    /\ Step([op |-> "echo", key |-> KeyStr(k), k |-> k, v |-> v,
             answered |-> {}, notify |-> <<>>,
             obs |-> [cache |-> [ks \in {KeyStr(x) : x \in DOMAIN cache'} |->
                                     LET kk == CHOOSE x \in DOMAIN cache' : KeyStr(x) = ks IN cache'[kk]],
                      pending |-> Obs.pending, subs |-> Obs.subs]])

\* ------------------------------------------------------------------ notification
\* items: function key -> md5 held by the client; dt: 1 = short timeout, 100 = long, 0 = no wait
Listen(l, items, dt) ==
    /\ WithListeners /\ l \notin usedL
    /\ usedL' = usedL \cup {l}
    /\ LET changed == {k \in DOMAIN items : Md5(k) # items[k]}
           immediate == changed # {} \/ dt = 0
       IN /\ pend' = IF immediate THEN pend ELSE pend \cup {[id |-> l, keys |-> DOMAIN items, deadline |-> now + dt]}
          /\ UNCHANGED <<cache, subs, now, nextHid>>
          /\ Step([op |-> "listen", id |-> l, items |-> [ks \in {KeyStr(k) : k \in DOMAIN items} |->
                                                            LET k == CHOOSE x \in DOMAIN items : KeyStr(x) = ks IN items[k]],
                   dt |-> dt,
                   answered |-> IF immediate THEN {[id |-> l, keys |-> {KeyStr(k) : k \in changed}]} ELSE {},
                   notify |-> <<>>,
                   obs |-> [cache |-> Obs.cache,
                            pending |-> {[id |-> x.id, keys |-> {KeyStr(k) : k \in x.keys}] : x \in pend'},
                            subs |-> Obs.subs]])

\* three time units pass; every long poll whose deadline is more than one unit in the past has been answered "no change"
Tick ==
    /\ WithListeners /\ pend # {} /\ now < 12
    /\ now' = now + 3
    /\ LET expired == {l \in pend : l.deadline + 1 < now'} IN
         /\ pend' = pend \ expired
         /\ UNCHANGED <<cache, subs, nextHid, usedL>>
         /\ Step([op |-> "tick", units |-> 3,
                  answered |-> {[id |-> l.id, keys |-> {}] : l \in expired}, notify |-> <<>>,
                  obs |-> [cache |-> Obs.cache,
                           pending |-> {[id |-> x.id, keys |-> {KeyStr(k) : k \in x.keys}] : x \in pend'},
                           subs |-> Obs.subs]])

Subscribe(c, items) ==
    /\ WithListeners
    /\ subs' = [subs EXCEPT ![c] = @ \cup DOMAIN items]
    /\ UNCHANGED <<cache, pend, now, nextHid, usedL>>
    /\ Step([op |-> "subscribe", client |-> c,
             items |-> [ks \in {KeyStr(k) : k \in DOMAIN items} |-> LET k == CHOOSE x \in DOMAIN items : KeyStr(x) = ks IN items[k]],
             changed |-> {KeyStr(k) : k \in {x \in DOMAIN items : Md5(x) # items[x]}},
             answered |-> {}, notify |-> <<>>,
             obs |-> [cache |-> Obs.cache, pending |-> Obs.pending,
                      subs |-> [x \in Clients |-> {KeyStr(k) : k \in subs'[x]}]]])

Unsubscribe(c, ks) ==
    /\ WithListeners /\ ks # {} /\ ks \subseteq subs[c]
    /\ subs' = [subs EXCEPT ![c] = @ \ ks]
    /\ UNCHANGED <<cache, pend, now, nextHid, usedL>>
    /\ Step([op |-> "unsubscribe", client |-> c, keys |-> {KeyStr(k) : k \in ks},
             answered |-> {}, notify |-> <<>>,
             obs |-> [cache |-> Obs.cache, pending |-> Obs.pending,
                      subs |-> [x \in Clients |-> {KeyStr(k) : k \in subs'[x]}]]])

Disconnect(c) ==
    /\ WithListeners /\ subs[c] # {}
    /\ subs' = [subs EXCEPT ![c] = {}]
    /\ UNCHANGED <<cache, pend, now, nextHid, usedL>>
    /\ Step([op |-> "disconnect", client |-> c, answered |-> {}, notify |-> <<>>,
             obs |-> [cache |-> Obs.cache, pending |-> Obs.pending,
                      subs |-> [x \in Clients |-> {KeyStr(k) : k \in subs'[x]}]]])

ItemSets == UNION {[ks -> Contents \cup {""}] : ks \in (SUBSET Keys) \ {{}}}

Next ==
    \/ \E k \in Keys, v \in Contents, ty \in Types \cup {""} : Publish(k, v, ty, FALSE)
    \/ \E k \in Keys, v \in Contents : WithListeners /\ Publish(k, v, "", TRUE)
    \/ \E k \in Keys : Remove(k)
    \/ \E k \in Keys, v \in Contents, hs \in ImportHist : Import(k, v, hs)
    \/ \E k \in Keys, v \in Contents : Echo(k, v)
    \/ \E l \in Lids, items \in ItemSets, dt \in {0, 1, 100} : Listen(l, items, dt)
    \/ Tick
    \/ \E c \in Clients, items \in ItemSets : Subscribe(c, items)
    \/ \E c \in Clients, ks \in SUBSET Keys : Unsubscribe(c, ks)
    \/ \E c \in Clients : Disconnect(c)

Spec == Init /\ [][Next]_vars

\* ------------------------------------------------------------------ C09 properties
\* the listing of a tenant = the stored keys of that tenant, ordered by (group, dataId); pages are slices of it
HistoryBounded == \A k \in DOMAIN cache : Len(cache[k].hist) <= HistMax /\ (Len(cache[k].hist) >= 1 \/ ~cache[k].listed)
\* a key is listed as soon as a committed write (publish, import) of it was applied, and only then
ListedIffCommitted == \A k \in DOMAIN cache : cache[k].listed <=> Len(cache[k].hist) >= 1
\* the newest history entry is the served content (last write wins and is recorded)
HistoryEndsWithContent == \A k \in DOMAIN cache : cache[k].tmp \/ cache[k].hist[Len(cache[k].hist)].content = cache[k].content
HistoryIdsIncrease == \A k \in DOMAIN cache : \A i \in 1..(Len(cache[k].hist) - 1) : cache[k].hist[i].id < cache[k].hist[i + 1].id
\* consecutive history entries differ in content (one entry per publish that CHANGED the content)
HistoryOnlyChanges == \A k \in DOMAIN cache : \A i \in 1..(Len(cache[k].hist) - 1) :
                          cache[k].hist[i].content # cache[k].hist[i + 1].content \/ ~WithListeners

\* ------------------------------------------------------------------ C10 properties
\* no pending long poll holds a stale md5 ... is not expressible on pend alone (the held md5 is not kept once
\* registered): registration happens only when every held md5 is current, and every later change of a key wakes
\* all its waiters; so a listener still pending has seen no change of any of its keys since registration:
NoStaleWaiter ==
    [][\A l \in pend : (l \in pend' ) => \A k \in l.keys : Md5(k)' = Md5(k)]_vars

\* a content-changing publish or a remove reaches every subscriber of the key
ChangeNotifiesSubscribers ==
    [][\A k \in Keys : (Md5(k)' # Md5(k) /\ Subscribed(k) # {} /\ WithListeners) =>
            /\ Len(hist') = Len(hist) + 1
            /\ hist'[Len(hist')].notify # <<>>
            /\ hist'[Len(hist')].notify[1].clients = Subscribed(k)]_vars

\* an expired long poll is not pending
AnsweredByDeadline == \A l \in pend : l.deadline + 4 >= now

Done == ops = MaxOps
ExportBehaviour == Done => PrintT(<<"REPLAY", ToJson([steps |-> hist])>>)
StateView == <<cache, pend, subs, now, usedL>>
=============================================================================
