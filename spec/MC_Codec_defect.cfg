SPECIFICATION Spec
CONSTANTS
  BUF0 = 4
  MaxChunk = 4
  RecLens = {2, 3, 5}
  MaxRecs = 3
  MaxZeros = 2
  MaxSteps = 100000
  Defect_IsEmptyDrained = TRUE
VIEW View
INVARIANTS NoEarlyStop
CHECK_DEADLOCK FALSE
