SPECIFICATION Spec
CONSTANTS
  CKeys = {"k1"}
  Contents = {"a", "b"}
  NsIds = {"n1"}
  NsNames = {"x"}
  UKeys = {}
  UVals = {}
  SKeys = {}
  HistMax = 100
  MemberSets = {{1}, {1, 2}}
  MaxChunks = 2
  MaxLog = 3
  MaxOps = 100000
  Defect_AppendMode = FALSE
  Defect_BeginAtZero = FALSE
  Defect_NoTruncate = FALSE
  Defect_NoLiveLoad = FALSE
  Defect_ReinstallOnDup = FALSE
  Defect_InstallKeepsTmp = FALSE
VIEW ViewGen
INVARIANTS ExportThinEcho
CHECK_DEADLOCK FALSE
