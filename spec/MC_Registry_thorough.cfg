SPECIFICATION Spec
CONSTANTS
  Svcs = {"s1"}
  Addrs = {"a1", "a2"}
  Conns = {"c1"}
  Nodes = {"n1"}
  H = 1
  T = 2
  MaxNow = 2
  MaxOps = 1000000
  Defect_ClientSetBeforeOwner = FALSE
VIEW StateView
INVARIANTS CountsMatch HealthyCountsMatch PerpetualMatches IndexedOnce ClientSetSound ClientSetComplete ArmedHealthy ArmedUnhealthy
PROPERTIES NeverExpireWhileBeating NeverExpireGrpcOrPersistent ExpiredAfterSweep
CHECK_DEADLOCK FALSE
