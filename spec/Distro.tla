------------------------------- MODULE Distro -------------------------------
(***************************************************************************)
(* Registry convergence between the nodes of a cluster (C15).              *)
(*                                                                         *)
(* Ephemeral instances registered over a gRPC connection belong to the     *)
(* node the connection is on (the owner).  The owner applies register /    *)
(* deregister / connection-close locally and tells the other nodes         *)
(* (SyncUpdateInstance / SyncRemoveInstance / RemoveClientId, batched and  *)
(* delayed: messages may overtake each other).  Every node keeps, next to  *)
(* the instance table, an index client -> instance keys                    *)
(* (NamingActor::client_instance_set).  Anti-entropy: periodically the     *)
(* owner sends the index of its own clients (SyncDistroClientInstances);   *)
(* a receiver removes the keys it has too many under a client              *)
(* (remove_instance(key, None) - no client guard), asks for the ones it    *)
(* misses (QueryDistroInstanceSnapshot) and forgets clients of that owner  *)
(* that are not listed any more.  A node that dies loses everything; the   *)
(* others drop the instances of its clients when they notice; a node that  *)
(* starts pulls the others' own instances (snapshot).                      *)
(*                                                                         *)
(* One service; an instance = an address (ip:port) with attributes         *)
(* (enabled state and weight as one value of Attr; registering an address  *)
(* that is already held changes them).  Take-over of an                    *)
(* address is modelled between connections of the SAME node (a client that *)
(* reconnects, two SDK clients with one address); an address is not        *)
(* registered through two nodes at once (model limit).                     *)
(*                                                                         *)
(* Channels: the sync messages of one owner to one receiver are delivered  *)
(* in the order they were sent (one sender actor per target).  With        *)
(* AllowReorder = TRUE any order is allowed (a failed send is retried      *)
(* while the next batch is already on its way): presence is still repaired *)
(* by the anti-entropy round, but a change of ATTRIBUTES that is overtaken *)
(* (or lost) is never repaired - the round compares keys only.  That       *)
(* configuration is kept as a model-level observation.                     *)
(*                                                                         *)
(* Negative control: Defect_StaleClientIndexOnSync - an update that        *)
(* arrives by sync and moves an address to another client does not take    *)
(* the key out of the old client's index.                                  *)
(***************************************************************************)
EXTENDS Naturals, Sequences, FiniteSets, TLC

CONSTANTS Node, Conn, Home, Addr, Attr, MaxOps, AllowReorder, Defect_StaleClientIndexOnSync

VARIABLES
    alive,      \* node -> BOOLEAN
    open,       \* connection -> BOOLEAN
    inst,       \* node -> (address -> [client, from, attr])   from = 0: registered here, else the owner node
    cidx,       \* node -> (connection -> set of addresses)
    msgs,       \* channels: <<src, dst>> -> sequence of messages in flight
    ops         \* client / fault operations so far

vars == <<alive, open, inst, cidx, msgs, ops>>

Others(n) == {m \in Node : m # n /\ alive[m]}
NoInst == [a \in {} |-> 0]
Without(f, k) == [x \in (DOMAIN f) \ {k} |-> f[x]]
With(f, k, v) == [x \in (DOMAIN f) \cup {k} |-> IF x = k THEN v ELSE f[x]]
ClientSet(n, c) == IF c \in DOMAIN cidx[n] THEN cidx[n][c] ELSE {}
Pairs == {p \in Node \X Node : p[1] # p[2]}
InFlight == UNION {{msgs[p][i] : i \in 1..Len(msgs[p])} : p \in Pairs}
\* append every message of the set S to the channel it belongs to (messages of one call concern different addresses:
\* their relative order does not matter)
RECURSIVE SendAll(_, _)
SendAll(ch, S) ==
    IF S = {} THEN ch
    ELSE LET m == CHOOSE x \in S : TRUE
         IN SendAll([ch EXCEPT ![<<m.src, m.dst>>] = Append(@, m)], S \ {m})

\* index after address a is taken from client c (an emptied set stays, as in the code)
IdxRemove(ix, c, a) == IF c \in DOMAIN ix THEN [ix EXCEPT ![c] = @ \ {a}] ELSE ix
IdxAdd(ix, c, a) == With(ix, c, (IF c \in DOMAIN ix THEN ix[c] ELSE {}) \cup {a})

\* NamingActor::update_instance on node n for address a held by client c coming from node `from` (0 = local request)
UpdateOn(n, a, c, from, fromSync, at) ==
    LET old == IF a \in DOMAIN inst[n] THEN inst[n][a].client ELSE "none"
        ix1 == IF old # "none" /\ old # c /\ ~(fromSync /\ Defect_StaleClientIndexOnSync)
               THEN IdxRemove(cidx[n], old, a) ELSE cidx[n]
    IN [i |-> With(inst[n], a, [client |-> c, from |-> from, attr |-> at]), x |-> IdxAdd(ix1, c, a)]

\* NamingActor::remove_instance(key, Some(client) / None): with a client, only that client's instance is removed
RemoveOn(tab, ix, a, guard) ==
    IF a \in DOMAIN tab /\ (guard = "any" \/ tab[a].client = guard)
    THEN [i |-> Without(tab, a), x |-> IdxRemove(ix, tab[a].client, a)]
    ELSE [i |-> tab, x |-> ix]

\* remove_client_instance(client): every key of the client's index, guarded by the client; the index entry goes
RECURSIVE RemoveAll(_, _, _, _)
RemoveAll(tab, ix, c, as) ==
    IF as = {} THEN [i |-> tab, x |-> Without(ix, c)]
    ELSE LET a == CHOOSE z \in as : TRUE
             r == RemoveOn(tab, ix, a, c)
         IN RemoveAll(r.i, r.x, c, as \ {a})
RemoveClientOn(n, c) == RemoveAll(inst[n], cidx[n], c, ClientSet(n, c))

Op == ops < MaxOps /\ ops' = ops + 1

Init ==
    /\ alive = [n \in Node |-> TRUE] /\ open = [c \in Conn |-> TRUE]
    /\ inst = [n \in Node |-> NoInst] /\ cidx = [n \in Node |-> [c \in {} |-> {}]]
    /\ msgs = [p \in Pairs |-> <<>>] /\ ops = 0

\* ------------------------------------------------------------------ client operations on the owner
Register(c, a, at) ==
    LET h == Home[c] IN
    /\ Op /\ open[c] /\ alive[h]
    /\ \A o \in Node \ {h} : ~(a \in DOMAIN inst[o] /\ inst[o][a].from = 0)      \* (model limit, see above)
    /\ LET r == UpdateOn(h, a, c, 0, FALSE, at) IN
         /\ inst' = [inst EXCEPT ![h] = r.i] /\ cidx' = [cidx EXCEPT ![h] = r.x]
    /\ msgs' = SendAll(msgs, {[t |-> "upd", src |-> h, dst |-> m, a |-> a, c |-> c, at |-> at] : m \in Others(h)})
    /\ UNCHANGED <<alive, open>>

Deregister(c, a) ==
    LET h == Home[c] IN
    /\ Op /\ open[c] /\ alive[h] /\ a \in DOMAIN inst[h] /\ inst[h][a].client = c /\ inst[h][a].from = 0
    /\ LET r == RemoveOn(inst[h], cidx[h], a, c) IN
         /\ inst' = [inst EXCEPT ![h] = r.i] /\ cidx' = [cidx EXCEPT ![h] = r.x]
    /\ msgs' = SendAll(msgs, {[t |-> "rm", src |-> h, dst |-> m, a |-> a, c |-> c, at |-> "-"] : m \in Others(h)})
    /\ UNCHANGED <<alive, open>>

Close(c) ==
    LET h == Home[c] IN
    /\ Op /\ open[c] /\ alive[h]
    /\ open' = [open EXCEPT ![c] = FALSE]
    /\ LET r == RemoveClientOn(h, c) IN
         /\ inst' = [inst EXCEPT ![h] = r.i] /\ cidx' = [cidx EXCEPT ![h] = r.x]
    /\ msgs' = SendAll(msgs, {[t |-> "rmclient", src |-> h, dst |-> m, a |-> "", c |-> c, at |-> "-"] : m \in Others(h)})
    /\ UNCHANGED alive

\* a connection is opened again (a new connection in the code; the model reuses the name once it is forgotten everywhere)
Reopen(c) ==
    /\ Op /\ ~open[c] /\ alive[Home[c]]
    /\ \A n \in Node : c \notin DOMAIN cidx[n]
    /\ \A m \in InFlight : m.c # c
    /\ open' = [open EXCEPT ![c] = TRUE]
    /\ UNCHANGED <<alive, inst, cidx, msgs>>

\* ------------------------------------------------------------------ sync messages
\* the message at position i of channel p is handled by its receiver (i = 1 unless AllowReorder)
Deliver(p, i) ==
    /\ i \in 1..Len(msgs[p]) /\ (AllowReorder \/ i = 1)
    /\ LET m == msgs[p][i] IN
         /\ msgs' = [msgs EXCEPT ![p] = [j \in 1..(Len(@) - 1) |-> IF j < i THEN @[j] ELSE @[j + 1]]]
         /\ IF ~alive[m.dst] THEN UNCHANGED <<inst, cidx>>
            ELSE LET n == m.dst
                     r == CASE m.t = "upd" -> UpdateOn(n, m.a, m.c, m.src, TRUE, m.at)
                            [] m.t = "rm" -> RemoveOn(inst[n], cidx[n], m.a, m.c)
                            [] m.t = "rmclient" -> RemoveClientOn(n, m.c)
                            [] OTHER -> [i |-> inst[n], x |-> cidx[n]]
                 IN inst' = [inst EXCEPT ![n] = r.i] /\ cidx' = [cidx EXCEPT ![n] = r.x]
    /\ UNCHANGED <<alive, open, ops>>

\* ------------------------------------------------------------------ anti-entropy (one owner, one receiver)
\* what owner o reports: its own clients with the keys registered here
Report(o) == [c \in {x \in DOMAIN cidx[o] : Home[x] = o /\ cidx[o][x] # {}} |-> cidx[o][c]]

RECURSIVE RemoveKeys(_, _, _)
RemoveKeys(tab, ix, as) ==
    IF as = {} THEN [i |-> tab, x |-> ix]
    ELSE LET a == CHOOSE z \in as : TRUE
             r == RemoveOn(tab, ix, a, "any")
         IN RemoveKeys(r.i, r.x, as \ {a})
RECURSIVE ForgetClients(_, _, _)
ForgetClients(tab, ix, cs) ==
    IF cs = {} THEN [i |-> tab, x |-> ix]
    ELSE LET c == CHOOSE z \in cs : TRUE
             r == RemoveAll(tab, ix, c, IF c \in DOMAIN ix THEN ix[c] ELSE {})
         IN ForgetClients(r.i, r.x, cs \ {c})

\* the whole round between o and n as one step (report, diff, query, answer): the instances asked for are the
\* owner's at the time of the answer
DistroRound(o, n) ==
    /\ o # n /\ alive[o] /\ alive[n]
    /\ msgs[<<o, n>>] = <<>>          \* (rounds are 12 s apart, deliveries take milliseconds: nothing of o is still on its way to n)
    /\ LET rep == Report(o)
           extra == UNION {ClientSet(n, c) \ rep[c] : c \in DOMAIN rep}
           r1 == RemoveKeys(inst[n], cidx[n], extra)
           gone == {c \in DOMAIN r1.x : Home[c] = o /\ c \notin DOMAIN rep}
           r2 == ForgetClients(r1.i, r1.x, gone)
           missing == {<<c, a>> \in (DOMAIN rep) \X Addr :
                          a \in rep[c] /\ a \notin (IF c \in DOMAIN r2.x THEN r2.x[c] ELSE {})
                          /\ a \in DOMAIN inst[o] /\ inst[o][a].from = 0 /\ inst[o][a].client = c}
       IN /\ \/ extra # {} \/ gone # {} \/ missing # {}          \* (a round that changes nothing is a stutter)
          /\ inst' = [inst EXCEPT ![n] = r2.i] /\ cidx' = [cidx EXCEPT ![n] = r2.x]
          /\ msgs' = SendAll(msgs, {[t |-> "upd", src |-> o, dst |-> n, a |-> p[2], c |-> p[1], at |-> inst[o][p[2]].attr] : p \in missing})
    /\ UNCHANGED <<alive, open, ops>>

\* ------------------------------------------------------------------ node death and start
Die(n) ==
    /\ Op /\ alive[n] /\ Cardinality({m \in Node : alive[m]}) > 1
    /\ alive' = [alive EXCEPT ![n] = FALSE]
    /\ open' = [c \in Conn |-> IF Home[c] = n THEN FALSE ELSE open[c]]
    /\ inst' = [inst EXCEPT ![n] = NoInst] /\ cidx' = [cidx EXCEPT ![n] = [c \in {} |-> {}]]
    /\ msgs' = [p \in Pairs |-> IF p[1] = n \/ p[2] = n THEN <<>> ELSE msgs[p]]
\* another node notices (check_node_status): the dead node's clients are dropped
Notice(m, n) ==
    /\ alive[m] /\ ~alive[n]
    /\ \E c \in DOMAIN cidx[m] : Home[c] = n
    /\ LET r == ForgetClients(inst[m], cidx[m], {c \in DOMAIN cidx[m] : Home[c] = n}) IN
         /\ inst' = [inst EXCEPT ![m] = r.i] /\ cidx' = [cidx EXCEPT ![m] = r.x]
    /\ UNCHANGED <<alive, open, msgs, ops>>
\* a node starts empty and pulls the others' own instances
Start(n) ==
    /\ Op /\ ~alive[n]
    /\ alive' = [alive EXCEPT ![n] = TRUE]
    /\ msgs' = SendAll(msgs, UNION {{[t |-> "upd", src |-> o, dst |-> n, a |-> a, c |-> inst[o][a].client, at |-> inst[o][a].attr] :
                                        a \in {z \in Addr : z \in DOMAIN inst[o] /\ inst[o][z].from = 0}} :
                                      o \in {x \in Node : alive[x] /\ x # n}})
    /\ UNCHANGED <<open, inst, cidx>>

Next ==
    \/ \E c \in Conn, a \in Addr : (\E at \in Attr : Register(c, a, at)) \/ Deregister(c, a)
    \/ \E c \in Conn : Close(c) \/ Reopen(c)
    \/ \E p \in Pairs : \E i \in 1..2 : Deliver(p, i)
    \/ \E o \in Node, n \in Node : DistroRound(o, n)
    \/ \E n \in Node : Die(n) \/ Start(n) \/ (\E m \in Node : Notice(m, n))

Fairness ==
    /\ \A o \in Node, n \in Node : WF_vars(DistroRound(o, n))
    /\ \A m \in Node, n \in Node : WF_vars(Notice(m, n))
    /\ \A p \in Pairs : WF_vars(Deliver(p, 1))
Spec == Init /\ [][Next]_vars /\ Fairness

\* ------------------------------------------------------------------ properties
\* the truth: what the owners hold for their own open connections
Truth == UNION {{<<a, inst[o][a].client, inst[o][a].attr>> : a \in {z \in Addr : z \in DOMAIN inst[o] /\ inst[o][z].from = 0}} :
                o \in {x \in Node : alive[x]}}
View(n) == {<<a, inst[n][a].client, inst[n][a].attr>> : a \in DOMAIN inst[n]}
AllAgree == \A n \in Node : alive[n] => View(n) = Truth
\* C15: once registrations and deregistrations stop, every live node ends up with - and keeps - the same instances
Converges == <>[]AllAgree

\* an owner's own table and index agree (bookkeeping sanity)
OwnerIndexExact ==
    \A o \in Node : alive[o] => \A c \in Conn : Home[c] = o =>
        ClientSet(o, c) = {a \in DOMAIN inst[o] : inst[o][a].client = c /\ inst[o][a].from = 0}
=============================================================================
