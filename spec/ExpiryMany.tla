----------------------------- MODULE ExpiryMany -----------------------------
(***************************************************************************)
(* C13, "many instances per service": requirements over the counts a real  *)
(* NamingActor reports in real time for four services that hold N silent   *)
(* ephemeral HTTP instances each (three of them already hold more than the *)
(* actor expires in one sweep), five instances that keep heart-beating, one instance owned  *)
(* by a gRPC connection and one persistent instance.  One observation per  *)
(* service and phase:                                                      *)
(*   after_health_timeout   the health time-out has passed for every       *)
(*                          silent instance and four sweeps have run       *)
(*   after_instance_timeout the instance time-out has passed, four more    *)
(* Registry.tla decides the same questions for a handful of instances on   *)
(* every interleaving (OwnedExpiredAfterSweep, NeverExpireGrpcOrPersistent)*)
(* - here the population is large and the sweeps are the actor's own.      *)
(***************************************************************************)
EXTENDS Naturals, Sequences, TLC, Json, IOUtils

VARIABLE phase
Obs == ndJsonDeserialize(IOEnv.OBS)

\* silent instances: all unhealthy after the health time-out (still listed), all gone after the instance time-out
SilentUnhealthy(o) == o.phase = "after_health_timeout" => (o.n.silent_healthy = 0 /\ o.n.silent <= o.registered)
SilentRemoved(o) == o.phase = "after_instance_timeout" => o.n.silent = 0
\* never while beating; never a connection-owned or persistent instance
BeatingKept(o) == o.n.beat = 5 /\ o.n.beat_healthy = 5
OthersKept(o) == o.n.grpc = 1 /\ o.n.grpc_healthy = 1 /\ o.n.persistent = 1 /\ o.n.persistent_healthy = 1
\* the observation is one: instances were registered before the time-out ran out (otherwise nothing is said)
Sound(o) == o.registering_took_ms < o.health_timeout_ms

Init == phase = "start"
Next == phase = "start" /\ phase' = "done"
Spec == Init /\ [][Next]_phase
Chk == phase = "done" =>
    \A i \in 1..Len(Obs) :
        LET o == Obs[i] IN
        ~Sound(o) \/
        (/\ SilentUnhealthy(o) \/ PrintT(<<"REQ-FAILED", "SilentUnhealthy", i>>)
         /\ SilentRemoved(o) \/ PrintT(<<"REQ-FAILED", "SilentRemoved", i>>)
         /\ BeatingKept(o) \/ PrintT(<<"REQ-FAILED", "BeatingKept", i>>)
         /\ OthersKept(o) \/ PrintT(<<"REQ-FAILED", "OthersKept", i>>))
=============================================================================
