SPECIFICATION Spec
CONSTANTS
  Node = {1, 2, 3}
  Key = {"k1", "k2"}
  MaxReq = 2
  Defect_AckWithoutCommit = FALSE
  Defect_LateEchoOverwrites = FALSE
  Defect_TmpLostAtRestart = FALSE
INVARIANTS AckedCommitted Converged CommitOnce
CHECK_DEADLOCK FALSE
