SPECIFICATION Spec
CONSTANTS Mode = "gen16"
INVARIANTS Gen16
CHECK_DEADLOCK FALSE
