SPECIFICATION TraceSpec
CONSTANTS
  Node = {"n1", "n2"}
  Key = {"k1", "k2"}
  STEP = 3
  BATCH = 100
  MaxIssued = 100000
  MaxLog = 0
  AllowReorder = TRUE
  Bug_SkipMarkOnNoChange = FALSE
INVARIANTS UniqueA BelowCounter
POSTCONDITION TraceAccepted
CHECK_DEADLOCK FALSE
