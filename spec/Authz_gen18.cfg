SPECIFICATION Spec
CONSTANTS Mode = "gen18"
INVARIANTS Gen18
CHECK_DEADLOCK FALSE
