use serde_json::Value;
use std::io::BufRead;

/// Read an ndjson file; lines that are not JSON objects are skipped.
pub fn read_ndjson(path: &str) -> anyhow::Result<Vec<Value>> {
    let f = std::fs::File::open(path)?;
    let mut out = vec![];
    for line in std::io::BufReader::new(f).lines() {
        let line = line?;
        let t = line.trim();
        if t.is_empty() {
            continue;
        }
        if let Ok(v) = serde_json::from_str::<Value>(t) {
            out.push(v);
        }
    }
    Ok(out)
}

pub fn opt<'a>(args: &'a [String], name: &str) -> Option<&'a str> {
    let mut i = 0;
    while i + 1 < args.len() {
        if args[i] == name {
            return Some(args[i + 1].as_str());
        }
        i += 1;
    }
    None
}

pub fn opt_u64(args: &[String], name: &str, default: u64) -> u64 {
    opt(args, name).and_then(|s| s.parse().ok()).unwrap_or(default)
}

/// One mismatch between the code and the specification's expectation.
pub fn mismatch(i: usize, step: usize, what: &str, expected: Value, actual: Value) -> Value {
    serde_json::json!({"kind":"result","i":i,"ok":false,"step":step,"what":what,
        "expected":expected,"actual":actual})
}

pub fn ok(i: usize) -> Value {
    serde_json::json!({"kind":"result","i":i,"ok":true})
}

/// Run a closure, turning a panic of the code under test into data.
pub fn catch<T>(f: impl FnOnce() -> T + std::panic::UnwindSafe) -> Result<T, String> {
    match std::panic::catch_unwind(f) {
        Ok(v) => Ok(v),
        Err(e) => {
            let msg = if let Some(s) = e.downcast_ref::<&str>() {
                s.to_string()
            } else if let Some(s) = e.downcast_ref::<String>() {
                s.clone()
            } else {
                "panic".to_string()
            };
            Err(msg)
        }
    }
}

/// run f over items on `jobs` threads, results ordered by index
pub fn par_map<F>(items: &[Value], jobs: usize, f: F) -> Vec<Value>
where
    F: Fn(usize, &Value) -> Value + Sync,
{
    let results = std::sync::Mutex::new(Vec::new());
    let next = std::sync::atomic::AtomicUsize::new(0);
    std::thread::scope(|sc| {
        for _ in 0..jobs.max(1) {
            sc.spawn(|| loop {
                let i = next.fetch_add(1, std::sync::atomic::Ordering::SeqCst);
                if i >= items.len() {
                    break;
                }
                let r = f(i, &items[i]);
                results.lock().unwrap().push((i, r));
            });
        }
    });
    let mut rs = results.into_inner().unwrap();
    rs.sort_by_key(|r| r.0);
    rs.into_iter().map(|r| r.1).collect()
}
