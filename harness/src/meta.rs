//! C05: Raft metadata (hard state, membership, addresses) through FileStore on the mini node,
//! behaviours from RaftMeta.tla; reopen = new OS process.
use crate::node::NodeProc;
use crate::util::*;
use serde_json::{json, Value};

pub fn addr_text(id: u64, len: u64) -> String {
    let mut s = format!("10.0.0.{}:9{}", id, id);
    while (s.len() as u64) < len {
        s.push((b'0' + (s.len() % 10) as u8) as char);
    }
    s.truncate(len as usize);
    s
}

fn sorted(v: &Value) -> Vec<u64> {
    let mut x: Vec<u64> = v.as_array().map(|a| a.iter().filter_map(|e| e.as_u64()).collect()).unwrap_or_default();
    x.sort();
    x
}

fn check_obs(i: usize, k: usize, node: &mut NodeProc, obs: &Value) -> anyhow::Result<Option<Value>> {
    let st = node.call(&json!({"op":"initial_state"}))?;
    if st["res"] != "ok" {
        return Ok(Some(mismatch(i, k, "get_initial_state failed", json!("ok"), st)));
    }
    if st["term"] != obs["term"] || st["vote"] != obs["vote"] {
        return Ok(Some(mismatch(i, k, "hard state differs", json!([obs["term"], obs["vote"]]), json!([st["term"], st["vote"]]))));
    }
    if sorted(&st["members"]) != sorted(&obs["members"]) || sorted(&st["after"]) != sorted(&obs["after"]) {
        return Ok(Some(mismatch(i, k, "membership differs", json!([obs["members"], obs["after"]]), json!([st["members"], st["after"]]))));
    }
    let m = node.call(&json!({"op":"membership"}))?;
    // get_membership_config of an empty membership is the initial single-node config by design
    if !sorted(&obs["members"]).is_empty() && sorted(&m["members"]) != sorted(&obs["members"]) {
        return Ok(Some(mismatch(i, k, "get_membership_config differs", obs["members"].clone(), m["members"].clone())));
    }
    if let Some(addrs) = obs["addrs"].as_object() {
        for (id, len) in addrs {
            let idn: u64 = id.parse().unwrap_or(0);
            let r = node.call(&json!({"op":"target_addr","id":idn}))?;
            let exp = if len.as_u64().unwrap_or(0) == 0 { Value::Null } else { json!(addr_text(idn, len.as_u64().unwrap())) };
            if r["addr"] != exp {
                return Ok(Some(mismatch(i, k, "node address differs", json!({"id":idn,"addr":exp}), r["addr"].clone())));
            }
        }
    } else if let Some(addrs) = obs["addrs"].as_array() {
        // TLC prints a function over 1..n as a sequence
        for (pos, len) in addrs.iter().enumerate() {
            let idn = pos as u64 + 1;
            let r = node.call(&json!({"op":"target_addr","id":idn}))?;
            let exp = if len.as_u64().unwrap_or(0) == 0 { Value::Null } else { json!(addr_text(idn, len.as_u64().unwrap())) };
            if r["addr"] != exp {
                return Ok(Some(mismatch(i, k, "node address differs", json!({"id":idn,"addr":exp}), r["addr"].clone())));
            }
        }
    }
    Ok(None)
}

fn run_one(i: usize, b: &Value) -> anyhow::Result<Value> {
    let dir = tempfile::tempdir()?;
    let d = dir.path().to_string_lossy().into_owned();
    let mut node = NodeProc::start(&d, 300)?;
    let steps = b["steps"].as_array().cloned().unwrap_or_default();
    let mut next_index = 1u64;
    let mut nid = 1000u64;
    for (k, s) in steps.iter().enumerate() {
        let op = s["op"].as_str().unwrap();
        let r = match op {
            "save_hs" => node.call(s)?,
            "members" | "node_addr" => {
                let req = if op == "members" {
                    json!({"Members": sorted(&s["members"])})
                } else {
                    json!({"NodeAddr": {"id": s["id"], "addr": addr_text(s["id"].as_u64().unwrap(), s["len"].as_u64().unwrap())}})
                };
                // the request is logged and applied, as Raft would do
                let a = node.call(&json!({"op":"append_req","index":next_index,"term":1,"req":req.clone()}))?;
                if a["res"] != "ok" {
                    node.kill();
                    return Ok(mismatch(i, k, "append failed", json!("ok"), a));
                }
                let r = node.call(&json!({"op":"apply","index":next_index,"req":req}))?;
                next_index += 1;
                r
            }
            "cat_log" => {
                // a log write: the first one opens a log file and rewrites the catalogue
                nid += 1;
                let r = node.call(&json!({"op":"append","index":next_index,"term":1,"id":nid,"sz":1,"unit":128}))?;
                next_index += 1;
                r
            }
            "cat_snapshot" => {
                nid += 1;
                let a = node.call(&json!({"op":"append","index":next_index,"term":1,"id":nid,"sz":1,"unit":128}))?;
                if a["res"] != "ok" {
                    node.kill();
                    return Ok(mismatch(i, k, "append failed", json!("ok"), a));
                }
                node.call(&json!({"op":"apply_sized","index":next_index,"term":1,"id":nid,"sz":1,"unit":128}))?;
                next_index += 1;
                node.call(&json!({"op":"compact"}))?
            }
            "reopen" => {
                node.stop()?;
                node = NodeProc::start(&d, 300)?;
                json!({"res":"ok"})
            }
            _ => json!({"res":"ok"}),
        };
        if r["res"] != "ok" {
            node.kill();
            return Ok(mismatch(i, k, "operation failed", json!("ok"), r));
        }
        if let Some(m) = check_obs(i, k, &mut node, &s["obs"])? {
            node.kill();
            return Ok(m);
        }
    }
    node.kill();
    Ok(ok(i))
}

pub fn replay(args: &[String]) -> anyhow::Result<()> {
    let behaviours = read_ndjson(&args[0])?;
    let jobs = opt_u64(args, "--jobs", 6) as usize;
    let rs = crate::util::par_map(&behaviours, jobs, |i, b| match run_one(i, b) {
        Ok(v) => v,
        Err(e) => json!({"kind":"result","i":i,"ok":true,"tool_error":e.to_string()}),
    });
    let mut failed = 0;
    let mut tool_errors = 0;
    for r in rs {
        if r["ok"] == json!(false) {
            failed += 1;
        }
        if r.get("tool_error").is_some() {
            tool_errors += 1;
        }
        println!("{}", r);
    }
    println!("{}", json!({"kind":"summary","total":behaviours.len(),"failed":failed,"tool_errors":tool_errors}));
    Ok(())
}
