//! C14: every view of Ownership.tla (cluster size, alive subset) is installed in one real node per
//! local id (mini node, genuine liveness check through the ExpireNodes hook); the range each live node
//! decides with and the route it computes for 60 service keys (one per hash residue) are compared with
//! the ABSTRACT requirement: exactly one live owner per key, and every live node routes to it.
use crate::node::NodeProc;
use crate::util::*;
use rnacos::naming::model::ServiceKey;
use serde_json::{json, Value};
use std::collections::{BTreeMap, BTreeSet};

fn keys_for_residues(m: u64) -> Vec<(String, u64)> {
    let mut found: BTreeMap<u64, (String, u64)> = BTreeMap::new();
    let mut i = 0u64;
    while (found.len() as u64) < m && i < 100000 {
        let name = format!("svc{}", i);
        let h = rnacos::common::hash_utils::get_hash_value(&ServiceKey::new("public", "DEFAULT_GROUP", &name));
        found.entry(h % m).or_insert((name, h));
        i += 1;
    }
    found.into_values().collect()
}

fn parse_range(s: &Value) -> Option<(u64, u64)> {
    // "Some(ProcessRange { index: 0, len: 2 })" | "None" | {"index":..,"len":..}
    if let Some(o) = s.as_object() {
        return Some((o.get("index")?.as_u64()?, o.get("len")?.as_u64()?));
    }
    let t = s.as_str()?;
    let idx = t.find("index: ")?;
    let rest = &t[idx + 7..];
    let index: u64 = rest.split(|c: char| !c.is_ascii_digit()).next()?.parse().ok()?;
    let l = t.find("len: ")?;
    let rest = &t[l + 5..];
    let len: u64 = rest.split(|c: char| !c.is_ascii_digit()).next()?.parse().ok()?;
    Some((index, len))
}

fn is_range(r: (u64, u64), h: u64) -> bool {
    r.1 < 2 || h % r.1 == r.0
}

pub fn replay(args: &[String]) -> anyhow::Result<()> {
    let views = read_ndjson(&args[0])?;
    let keys = keys_for_residues(60);
    let key_names: Vec<Value> = keys.iter().map(|k| json!(k.0)).collect();
    // (view index, local id) -> answer
    let max_n = views.iter().map(|v| v["n"].as_u64().unwrap()).max().unwrap_or(1);
    let locals: Vec<Value> = (1..=max_n).map(|l| json!(l)).collect();
    let answers = par_map(&locals, max_n as usize, |_, l| {
        let local = l.as_u64().unwrap();
        let run = || -> anyhow::Result<Value> {
            let dir = tempfile::tempdir()?;
            let d = dir.path().to_string_lossy().into_owned();
            let mut node = NodeProc::start_env(&d, 100, &[("RNVERIF_NODE_ID", local.to_string())])?;
            let mut out = serde_json::Map::new();
            for (vi, v) in views.iter().enumerate() {
                let n = v["n"].as_u64().unwrap();
                let alive: Vec<u64> = v["alive"].as_array().unwrap().iter().map(|x| x.as_u64().unwrap()).collect();
                if !alive.contains(&local) {
                    continue;
                }
                // first the previous view "everybody alive", then the nodes outside `alive` fall silent
                let ids: Vec<u64> = (1..=n).collect();
                node.call(&json!({"op":"nodes_update","ids":ids}))?;
                node.call(&json!({"op":"nodes_view","alive":ids,"dead":[]}))?;
                let dead: Vec<u64> = ids.iter().filter(|x| !alive.contains(x)).cloned().collect();
                node.call(&json!({"op":"nodes_view","alive":alive,"dead":dead}))?;
                // the registry actor learns its range by a message from the node manager: give that message up to 1.5 s
                // (a range that is never handed over - the pre-fix behaviour - still fails)
                let mut r = node.call(&json!({"op":"owner_query","keys":key_names}))?;
                for _ in 0..30 {
                    if parse_range(&r["actor_range"]).is_some() && parse_range(&r["actor_range"]) == parse_range(&r["range"]) {
                        break;
                    }
                    std::thread::sleep(std::time::Duration::from_millis(50));
                    r = node.call(&json!({"op":"owner_query","keys":key_names}))?;
                }
                out.insert(vi.to_string(), r);
            }
            node.kill();
            Ok(Value::Object(out))
        };
        match run() {
            Ok(v) => v,
            Err(e) => json!({"tool_error": e.to_string()}),
        }
    });
    let mut failed = 0;
    let mut tool_errors = 0;
    for (vi, v) in views.iter().enumerate() {
        let alive: BTreeSet<u64> = v["alive"].as_array().unwrap().iter().map(|x| x.as_u64().unwrap()).collect();
        let mut res = ok(vi);
        // collect per live node
        let mut ranges: BTreeMap<u64, (u64, u64)> = BTreeMap::new();
        let mut inner_ranges: BTreeMap<u64, (u64, u64)> = BTreeMap::new();
        let mut routes: BTreeMap<u64, Vec<u64>> = BTreeMap::new();
        let mut bad_tool = false;
        for l in &alive {
            let a = &answers[(*l - 1) as usize];
            if a.get("tool_error").is_some() || a.get(&vi.to_string()).is_none() {
                bad_tool = true;
                break;
            }
            let r = &a[&vi.to_string()];
            // the range the registry actor decides with; before the first refresh it has none and owns nothing
            match parse_range(&r["actor_range"]) {
                Some(x) => { ranges.insert(*l, x); }
                None => {
                    // no range handed over yet: on a node that has only ever seen itself alive (the node manager's range
                    // is the whole space and never changed, so nothing was announced) the registry decides as a stand-alone
                    // node - everything is its own; in every other view "no range" owns nothing
                    let alone = parse_range(&r["range"]).map(|x| x.1 < 2).unwrap_or(false);
                    ranges.insert(*l, if alone { (0, 1) } else { (u64::MAX, 2) });
                }
            }
            if let Some(x) = parse_range(&r["range"]) {
                inner_ranges.insert(*l, x);
            }
            let mut rt = vec![];
            for item in r["routes"].as_array().unwrap() {
                let target = match item["route"].as_str().unwrap() {
                    "local" => *l,
                    addr => addr.rsplit(':').next().unwrap().parse::<u64>().unwrap_or(0) - 9000,
                };
                rt.push(target);
            }
            routes.insert(*l, rt);
        }
        if bad_tool {
            tool_errors += 1;
            println!("{}", json!({"kind":"result","i":vi,"ok":true,"tool_error":"node answer missing"}));
            continue;
        }
        'keys: for (ki, (name, h)) in keys.iter().enumerate() {
            let owners: Vec<u64> = alive.iter().filter(|l| is_range(ranges[l], *h)).cloned().collect();
            let inner_owners: Vec<u64> = alive.iter().filter(|l| inner_ranges.get(l).map(|r| is_range(*r, *h)).unwrap_or(false)).cloned().collect();
            if owners.len() != 1 {
                res = mismatch(vi, ki, "service key is not owned by exactly one live node", json!({"n":v["n"],"alive":alive,"key":name,"residue":h % 60,"owners":"exactly one"}),
                    json!({"owners":owners,"actor_ranges":ranges.iter().map(|(k, r)| format!("{}:({},{})", k, r.0 as i64, r.1)).collect::<Vec<_>>(),"node_manage_owners":inner_owners}));
                break 'keys;
            }
            for l in &alive {
                if routes[l][ki] != owners[0] {
                    res = mismatch(vi, ki, "a live node routes a write to a node that is not the owner", json!({"n":v["n"],"alive":alive,"key":name,"owner":owners[0]}), json!({"from":l,"routed_to":routes[l][ki]}));
                    break 'keys;
                }
            }
            let exp_owner = v["owner"][(h % 60).to_string().as_str()].as_u64().or_else(|| v["owner"][(h % 60) as usize].as_u64()).unwrap_or(0);
            if exp_owner != owners[0] {
                res = mismatch(vi, ki, "owner differs from the specification", json!(exp_owner), json!(owners[0]));
                break 'keys;
            }
        }
        if res["ok"] == json!(false) {
            failed += 1;
        }
        println!("{}", res);
    }
    println!("{}", json!({"kind":"summary","total":views.len(),"failed":failed,"tool_errors":tool_errors,"keys":keys.len()}));
    Ok(())
}
