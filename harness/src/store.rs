//! C02/C03 level B: the multi-file store through `FileStore`'s RaftStorage API on the mini node,
//! behaviours from RaftLog.tla with WithCompaction = TRUE; reopen = new OS process.
use crate::node::NodeProc;
use crate::util::*;
use serde_json::{json, Value};

fn exp_log(obs: &Value) -> Vec<(u64, u64, u64)> {
    obs["log"].as_array().map(|a| a.iter().map(|e| (e["index"].as_u64().unwrap(), e["term"].as_u64().unwrap(), e["id"].as_u64().unwrap())).collect()).unwrap_or_default()
}

fn check_obs(i: usize, k: usize, node: &mut NodeProc, obs: &Value, check_last: bool) -> anyhow::Result<Option<Value>> {
    let exp = exp_log(obs);
    let end = obs["end"].as_u64().unwrap();
    let floor = obs["floor"].as_u64().unwrap();
    let first = obs["first"].as_u64().unwrap();
    let r = node.call(&json!({"op":"read","a":first,"b":end + 3}))?;
    if r["res"] != "ok" {
        return Ok(Some(mismatch(i, k, "read failed", json!("ok"), r)));
    }
    let got: Vec<(u64, u64, u64, String)> = r["entries"].as_array().unwrap().iter().map(|e| (e["index"].as_u64().unwrap(), e["term"].as_u64().unwrap(), e["id"].as_u64().unwrap(), e["kind"].as_str().unwrap().to_string())).collect();
    // at or above the floor: exact
    let exp_hi: Vec<(u64, u64, u64)> = exp.iter().filter(|e| e.0 >= floor).cloned().collect();
    let got_hi: Vec<(u64, u64, u64)> = got.iter().filter(|e| e.0 >= floor && !(e.3 == "pointer" && e.0 == floor)).map(|e| (e.0, e.1, e.2)).collect();
    // a snapshot pointer may stand in for the entry at the floor itself
    let exp_hi2: Vec<(u64, u64, u64)> = if got.iter().any(|e| e.3 == "pointer" && e.0 == floor) { exp_hi.iter().filter(|e| e.0 != floor).cloned().collect() } else { exp_hi.clone() };
    if got_hi != exp_hi2 {
        return Ok(Some(mismatch(i, k, "log content differs", obs["log"].clone(), r["entries"].clone())));
    }
    // below the floor: anything returned must be an entry that really is at that index (or a pointer)
    for g in got.iter().filter(|e| e.0 < floor) {
        if g.3 == "pointer" {
            continue;
        }
        if !exp.iter().any(|e| (e.0, e.1, e.2) == (g.0, g.1, g.2)) {
            return Ok(Some(mismatch(i, k, "invented entry below the compaction floor", obs["log"].clone(), r["entries"].clone())));
        }
    }
    // order / contiguity of what is returned
    for w in got.windows(2) {
        if w[1].0 != w[0].0 + 1 {
            return Ok(Some(mismatch(i, k, "returned entries not contiguous", obs["log"].clone(), r["entries"].clone())));
        }
    }
    if check_last {
        if let Some(last) = exp.last() {
            let st = node.call(&json!({"op":"initial_state"}))?;
            if st["last_log_index"].as_u64() != Some(last.0) || st["last_log_term"].as_u64() != Some(last.1) {
                return Ok(Some(mismatch(i, k, "last (index, term) differs", json!([last.0, last.1]), json!([st["last_log_index"], st["last_log_term"]]))));
            }
        }
    }
    Ok(None)
}

fn run_one(i: usize, b: &Value, unit: u64) -> anyhow::Result<Value> {
    let dir = tempfile::tempdir()?;
    let d = dir.path().to_string_lossy().into_owned();
    let mut node = NodeProc::start(&d, 700)?;
    let steps = b["steps"].as_array().cloned().unwrap_or_default();
    // what is in the abstract log right now (for apply before compaction)
    let mut applied_upto = 0u64;
    let mut live: Vec<Value> = vec![];
    for (k, s) in steps.iter().enumerate() {
        let op = s["op"].as_str().unwrap();
        match op {
            "append" => {
                let mut o = s.clone();
                o["unit"] = json!(unit);
                let r = node.call(&o)?;
                if r["res"] != s["res"] {
                    node.kill();
                    return Ok(mismatch(i, k, "append result", s["res"].clone(), r));
                }
                if s["res"] == "ok" {
                    live.push(s.clone());
                }
            }
            "batch" => {
                let mut o = s.clone();
                o["unit"] = json!(unit);
                let r = node.call(&o)?;
                if r["res"] != s["res"] {
                    node.kill();
                    return Ok(mismatch(i, k, "batch result", s["res"].clone(), r));
                }
                if s["res"] == "ok" {
                    for e in s["entries"].as_array().unwrap() {
                        live.push(e.clone());
                    }
                }
            }
            "truncate" => {
                let kk = s["k"].as_u64().unwrap();
                let r = node.call(s)?;
                if r["res"] != "ok" {
                    node.kill();
                    return Ok(mismatch(i, k, "truncate failed", json!("ok"), r));
                }
                live.retain(|e| e["index"].as_u64().unwrap() < kk);
            }
            "compact" => {
                // everything is applied first (async-raft compacts only applied entries)
                for e in live.iter() {
                    let idx = e["index"].as_u64().unwrap();
                    if idx > applied_upto {
                        let mut o = e.clone();
                        o["op"] = json!("apply_sized");
                        o["unit"] = json!(unit);
                        let r = node.call(&o)?;
                        if r["res"] != "ok" {
                            node.kill();
                            return Ok(mismatch(i, k, "apply failed", json!("ok"), r));
                        }
                        applied_upto = idx;
                    }
                }
                let r = node.call(&json!({"op":"compact"}))?;
                if r["res"] != "ok" {
                    node.kill();
                    return Ok(mismatch(i, k, "compaction failed", json!("ok"), r));
                }
                if r["index"].as_u64() != s["upto"].as_u64() {
                    node.kill();
                    return Ok(mismatch(i, k, "compaction index", s["upto"].clone(), r));
                }
            }
            "reopen" => {
                node.stop()?;
                node = NodeProc::start(&d, 700)?;
            }
            _ => {}
        }
        let check_last = op == "reopen";
        if let Some(m) = check_obs(i, k, &mut node, &s["obs"], check_last)? {
            node.kill();
            return Ok(m);
        }
    }
    node.kill();
    Ok(ok(i))
}

pub fn replay(args: &[String]) -> anyhow::Result<()> {
    let behaviours = read_ndjson(&args[0])?;
    let unit = opt_u64(args, "--unit", 128);
    let jobs = opt_u64(args, "--jobs", 6) as usize;
    let results = std::sync::Mutex::new(Vec::new());
    let next = std::sync::atomic::AtomicUsize::new(0);
    std::thread::scope(|sc| {
        for _ in 0..jobs {
            sc.spawn(|| loop {
                let i = next.fetch_add(1, std::sync::atomic::Ordering::SeqCst);
                if i >= behaviours.len() {
                    break;
                }
                let r = match run_one(i, &behaviours[i], unit) {
                    Ok(v) => v,
                    Err(e) => json!({"kind":"result","i":i,"ok":true,"tool_error":e.to_string()}),
                };
                results.lock().unwrap().push(r);
            });
        }
    });
    let mut failed = 0;
    let mut tool_errors = 0;
    let mut rs = results.into_inner().unwrap();
    rs.sort_by_key(|r| r["i"].as_u64());
    for r in rs {
        if r["ok"] == json!(false) {
            failed += 1;
        }
        if r.get("tool_error").is_some() {
            tool_errors += 1;
        }
        println!("{}", r);
    }
    println!("{}", json!({"kind":"summary","total":behaviours.len(),"failed":failed,"tool_errors":tool_errors,"unit":unit}));
    Ok(())
}
