//! `rnverif decode catalogue`: hex strings of the records written into the raft `index` file (one per line on stdin)
//! decoded with the store's own types (length-prefixed protobuf message -> RaftIndexDto).
use quick_protobuf::BytesReader;
use rnacos::raft::filestore::log::RaftIndex;
use rnacos::raft::filestore::model::RaftIndexDto;
use serde_json::json;
use std::io::BufRead;

pub fn main_decode(_args: &[String]) -> anyhow::Result<()> {
    let stdin = std::io::stdin();
    for line in stdin.lock().lines() {
        let line = line?;
        let bytes = crate::node::unhex(line.trim());
        let mut reader = BytesReader::from_bytes(&bytes);
        match reader.read_message::<RaftIndex>(&bytes) {
            Ok(m) => {
                let d: RaftIndexDto = m.into();
                let logs: Vec<_> = d.logs.iter().map(|l| json!({"id": l.id, "start": l.start_index, "count": l.record_count, "closed": l.is_close, "split": l.split_off_index})).collect();
                let snaps: Vec<_> = d.snapshots.iter().map(|s| json!({"id": s.id, "end": s.end_index})).collect();
                let mut members = d.member.clone();
                members.sort();
                println!("{}", json!({"res":"ok","logs":logs,"snaps":snaps,"term":d.current_term,"vote":d.voted_for,"members":members}));
            }
            Err(e) => println!("{}", json!({"res":"error","err":e.to_string()})),
        }
    }
    Ok(())
}
