//! C11 / C12 / C13: behaviours of Registry.tla replayed
//!  (a) on a real `NamingActor` through `NamingCmd` (real clock: one model tick = UNIT_MS), and
//!  (b) on a real `Service` through the verif_hooks pass-through wrappers with a VIRTUAL clock.
//! After every step the bookkeeping invariants are evaluated on the REAL dump and the dump is
//! compared with the spec's state; instance queries are compared with the spec's definition.
use crate::util::*;
use actix::prelude::*;
use rnacos::naming::core::{NamingActor, NamingCmd, NamingResult};
use rnacos::naming::model::{Instance, InstanceUpdateTag, ServiceKey};
use rnacos::naming::service::Service;
use rnacos::verif_hooks as hooks;
use serde_json::{json, Value};
use std::collections::{BTreeMap, BTreeSet};
use std::sync::Arc;

const UNIT_MS: i64 = 300;
const NS: &str = "public";
const GROUP: &str = "DEFAULT_GROUP";

fn addr_parts(a: &str) -> (String, u32) {
    // "a1" -> 10.0.0.1:8001
    let n: u32 = a.trim_start_matches('a').parse().unwrap_or(9);
    (format!("10.0.0.{}", n), 8000 + n)
}

fn addr_name(ip: &str, port: u64) -> String {
    let n = port - 8000;
    let _ = ip;
    format!("a{}", n)
}

fn node_num(n: &str) -> u64 {
    n.trim_start_matches('n').parse::<u64>().unwrap_or(1) + 1
}

fn mk_instance(s: &str, a: &str, new: &Value, lm: i64) -> Instance {
    let (ip, port) = addr_parts(a);
    let cl = new["cl"].as_str().unwrap_or("");
    let fc = new["fc"].as_bool().unwrap_or(false);
    let mut i = Instance {
        ip: Arc::new(ip),
        port,
        weight: new["w"].as_f64().unwrap_or(1.0) as f32,
        enabled: new["en"].as_bool().unwrap_or(true),
        healthy: new["h"].as_bool().unwrap_or(true),
        ephemeral: new["eph"].as_bool().unwrap_or(true),
        cluster_name: "DEFAULT".to_string(),
        service_name: Arc::new(s.to_string()),
        group_name: Arc::new(GROUP.to_string()),
        namespace_id: Arc::new(NS.to_string()),
        from_grpc: new["grpc"].as_bool().unwrap_or(false),
        from_cluster: if fc { node_num(cl) } else { 0 },
        client_id: Arc::new(cl.to_string()),
        last_modified_millis: lm,
        ..Default::default()
    };
    i.generate_key();
    i
}

fn mk_tag(tag: &Value) -> Option<InstanceUpdateTag> {
    let full = tag["weight"] == json!(true) && tag["metadata"] == json!(true) && tag["enabled"] == json!(true) && tag["ephemeral"] == json!(true);
    if full {
        None
    } else {
        Some(InstanceUpdateTag { weight: tag["weight"].as_bool().unwrap(), metadata: tag["metadata"].as_bool().unwrap(), enabled: tag["enabled"].as_bool().unwrap(), ephemeral: tag["ephemeral"].as_bool().unwrap(), from_update: false })
    }
}

/// a process range that contains exactly the services in `own` (of all services the behaviour talks about)
fn range_for(own: &BTreeSet<String>, all: &BTreeSet<String>) -> Option<rnacos::naming::cluster::model::ProcessRange> {
    use rnacos::naming::cluster::model::ProcessRange;
    if !own.is_empty() && own == all {
        return Some(ProcessRange::new(0, 1));
    }
    let hashes: Vec<(String, usize)> = all.iter().map(|s| (s.clone(), rnacos::common::hash_utils::get_hash_value(&skey(s)) as usize)).collect();
    for len in 2..2000usize {
        for index in 0..len {
            let set: BTreeSet<String> = hashes.iter().filter(|(_, h)| h % len == index).map(|(s, _)| s.clone()).collect();
            if set == *own {
                return Some(ProcessRange::new(index, len));
            }
        }
    }
    None
}

fn all_services(steps: &[Value]) -> BTreeSet<String> {
    let mut all = BTreeSet::new();
    for s in steps {
        if let Some(m) = s["obs"]["inst"].as_object() {
            all.extend(m.keys().cloned());
        }
    }
    all
}

fn own_of(s: &Value) -> BTreeSet<String> {
    s["own"].as_array().cloned().unwrap_or_default().iter().map(|x| x.as_str().unwrap().to_string()).collect()
}

fn skey(s: &str) -> ServiceKey {
    ServiceKey::new(NS, GROUP, s)
}

/// the bookkeeping invariants of C11 evaluated on a real dump (one service record)
fn check_service_invariants(sd: &Value) -> Option<String> {
    let insts = sd["instances"].as_array().cloned().unwrap_or_default();
    let n = insts.len() as i64;
    let nh = insts.iter().filter(|i| i["healthy"] == json!(true)).count() as i64;
    if sd["instance_size"].as_i64() != Some(n) {
        return Some(format!("instance count {} but {} instances", sd["instance_size"], n));
    }
    if sd["healthy_instance_size"].as_i64() != Some(nh) {
        return Some(format!("healthy count {} but {} healthy instances", sd["healthy_instance_size"], nh));
    }
    let perp: BTreeSet<String> = sd["perpetual"].as_array().cloned().unwrap_or_default().iter().map(|x| x.as_str().unwrap().to_string()).collect();
    let non_eph: BTreeSet<String> = insts.iter().filter(|i| i["ephemeral"] == json!(false)).map(|i| format!("{}:{}", i["ip"].as_str().unwrap(), i["port"])).collect();
    if perp != non_eph {
        return Some(format!("persistent set {:?} but non-ephemeral instances {:?}", perp, non_eph));
    }
    None
}

fn check_actor_invariants(d: &Value) -> Option<String> {
    let services = d["services"].as_array().cloned().unwrap_or_default();
    let mut inst_owner: BTreeMap<String, String> = BTreeMap::new();
    let mut listed: BTreeSet<String> = BTreeSet::new();
    for sd in &services {
        if let Some(e) = check_service_invariants(sd) {
            return Some(format!("service {}: {}", sd["service"], e));
        }
        let sk = format!("{}|{}|{}", sd["namespace"].as_str().unwrap(), sd["group"].as_str().unwrap(), sd["service"].as_str().unwrap());
        listed.insert(sk.clone());
        for i in sd["instances"].as_array().cloned().unwrap_or_default() {
            inst_owner.insert(format!("{}|{}:{}", sk, i["ip"].as_str().unwrap(), i["port"]), i["client_id"].as_str().unwrap().to_string());
        }
    }
    let index: BTreeSet<String> = d["index"].as_array().cloned().unwrap_or_default().iter().map(|x| x.as_str().unwrap().to_string()).collect();
    if index != listed {
        return Some(format!("service index {:?} but services with state {:?}", index, listed));
    }
    if d["index_total"].as_u64() != Some(index.len() as u64) {
        return Some(format!("index total {} but {} listed", d["index_total"], index.len()));
    }
    for (c, keys) in d["client_instance_set"].as_object().cloned().unwrap_or_default() {
        for k in keys.as_array().cloned().unwrap_or_default() {
            let k = k.as_str().unwrap().to_string();
            match inst_owner.get(&k) {
                None => return Some(format!("connection {} records instance {} which does not exist", c, k)),
                Some(o) if *o != c => return Some(format!("connection {} records instance {} which belongs to '{}'", c, k, o)),
                _ => {}
            }
        }
    }
    None
}

/// spec instance record vs real instance json
fn inst_matches(spec: &Value, real: &Value) -> bool {
    let fc_real = real["from_cluster"].as_u64().unwrap_or(0) > 0;
    spec["h"] == real["healthy"] && spec["en"] == real["enabled"] && spec["eph"] == real["ephemeral"] && spec["grpc"] == real["from_grpc"]
        && spec["fc"].as_bool() == Some(fc_real) && spec["cl"] == real["client_id"]
        && (spec["w"].as_f64().unwrap_or(1.0) - real["weight"].as_f64().unwrap_or(0.0)).abs() < 1e-6
}

fn compare_service(spec_obs: &Value, s: &str, sd: Option<&Value>) -> Option<(Value, Value)> {
    let spec_inst = spec_obs["inst"][s].as_object().cloned().unwrap_or_default();
    let real_insts: Vec<Value> = sd.map(|x| x["instances"].as_array().cloned().unwrap_or_default()).unwrap_or_default();
    let mut real_map: BTreeMap<String, Value> = BTreeMap::new();
    for i in real_insts {
        real_map.insert(addr_name(i["ip"].as_str().unwrap(), i["port"].as_u64().unwrap()), i);
    }
    let sk: BTreeSet<String> = spec_inst.keys().cloned().collect();
    let rk: BTreeSet<String> = real_map.keys().cloned().collect();
    if sk != rk {
        return Some((json!({"service":s,"instances":sk}), json!(rk)));
    }
    for (a, si) in &spec_inst {
        if !inst_matches(si, &real_map[a]) {
            return Some((json!({"service":s,"addr":a,"instance":si}), real_map[a].clone()));
        }
    }
    if let Some(sd) = sd {
        if sd["instance_size"] != spec_obs["cnt"][s] || sd["healthy_instance_size"] != spec_obs["hcnt"][s] {
            return Some((json!({"service":s,"cnt":spec_obs["cnt"][s],"hcnt":spec_obs["hcnt"][s]}), json!({"cnt":sd["instance_size"],"hcnt":sd["healthy_instance_size"]})));
        }
    }
    None
}

async fn run_actor(i: usize, b: Value, h: i64, t: i64) -> anyhow::Result<Value> {
    let addr = NamingActor::new().start();
    addr.send(hooks::NamingControl { health_timeout_ms: Some(h * UNIT_MS - UNIT_MS / 2), instance_timeout_ms: Some(t * UNIT_MS - UNIT_MS / 2), service_timeout_ms: Some(0), clear_empty_service: false }).await?;
    let steps = b["steps"].as_array().cloned().unwrap_or_default();
    let t0 = std::time::Instant::now();
    let mut ticks = 0i64;
    let all = all_services(&steps);
    for (k, s) in steps.iter().enumerate() {
        let op = s["op"].as_str().unwrap();
        match op {
            "refresh_range" => {
                // the node's range of responsibility changes (a node died or joined): the genuine command
                let range = match range_for(&own_of(s), &all) {
                    Some(r) => r,
                    None => return Ok(json!({"kind":"result","i":i,"ok":true,"tool_error":"no process range selects exactly the owned services"})),
                };
                addr.send(NamingCmd::ClusterRefreshProcessRange(range)).await??;
            }
            "register_http" | "register_grpc" | "update_weight" | "beat" => {
                let inst = mk_instance(s["s"].as_str().unwrap(), s["a"].as_str().unwrap(), &s["new"], 0);
                addr.send(NamingCmd::Update(inst, mk_tag(&s["tag"]))).await??;
            }
            "sync_update" => {
                let inst = mk_instance(s["s"].as_str().unwrap(), s["a"].as_str().unwrap(), &s["new"], 0);
                addr.send(NamingCmd::UpdateFromSync(inst, None)).await??;
            }
            "deregister" => {
                let inst = mk_instance(s["s"].as_str().unwrap(), s["a"].as_str().unwrap(), &json!({"cl": s["client"]}), 0);
                addr.send(NamingCmd::Delete(inst)).await??;
            }
            "raft_echo_update" => {
                // an applied NamingRaftReq::UpdateInstance about a persistent instance (written by this or another node)
                let inst = mk_instance(s["s"].as_str().unwrap(), s["a"].as_str().unwrap(), &s["new"], 0);
                let param: rnacos::naming::model::actor_model::InstanceRegisterParam = (&inst).into();
                addr.send(rnacos::naming::model::actor_model::NamingRaftReq::UpdateInstance { param }).await??;
            }
            "raft_echo_remove" => {
                let inst = mk_instance(s["s"].as_str().unwrap(), s["a"].as_str().unwrap(), &json!({}), 0);
                addr.send(rnacos::naming::model::actor_model::NamingRaftReq::RemoveInstance(inst.get_instance_key())).await??;
            }
            "disconnect" => {
                addr.send(NamingCmd::RemoveClient(Arc::new(s["client"].as_str().unwrap().to_string()))).await??;
            }
            "time_check" => {
                addr.send(NamingCmd::PeekListenerTimeout).await??;
            }
            "clear_empty" => {
                addr.send(hooks::NamingControl { health_timeout_ms: None, instance_timeout_ms: None, service_timeout_ms: None, clear_empty_service: true }).await?;
            }
            "tick" => {
                ticks += 1;
                let target = std::time::Duration::from_millis((ticks * UNIT_MS) as u64);
                let el = t0.elapsed();
                if target > el {
                    tokio::time::sleep(target - el).await;
                }
            }
            _ => {}
        }
        // real clock: the time-outs are H (T) ticks minus half a tick, so the model's verdict about an instance's age is the
        // code's only while every operation of a tick runs within the first part of that tick.  When the process fell
        // behind its schedule (a loaded machine) the rest of the behaviour says nothing: it is abandoned, not judged.
        let into_tick = t0.elapsed().as_millis() as i64 - ticks * UNIT_MS;
        if into_tick > UNIT_MS / 2 - 40 {
            return Ok(json!({"kind":"result","i":i,"ok":true,"inconclusive":format!("schedule slipped: {} ms into tick {} at step {}", into_tick, ticks, k)}));
        }
        let d: Value = serde_json::from_str(&addr.send(hooks::DumpNaming).await?)?;
        if let Some(e) = check_actor_invariants(&d) {
            return Ok(mismatch(i, k, "registry bookkeeping does not match the instances", json!("invariant"), json!(e)));
        }
        // ---- compare with the spec's state
        let obs = &s["obs"];
        let services = d["services"].as_array().cloned().unwrap_or_default();
        for svc in obs["inst"].as_object().map(|m| m.keys().cloned().collect::<Vec<_>>()).unwrap_or_default() {
            let sd = services.iter().find(|x| x["service"] == json!(svc));
            if let Some((e, a)) = compare_service(obs, &svc, sd) {
                return Ok(mismatch(i, k, "registry state differs from the specification", e, a));
            }
            // ---- C12: queries return exactly the live registrations
            let spec_inst = obs["inst"][&svc].as_object().cloned().unwrap_or_default();
            for only_healthy in [false, true] {
                let exp: BTreeSet<String> = obs[if only_healthy { "q_healthy" } else { "q_all" }][&svc].as_array().cloned().unwrap_or_default().iter().map(|x| x.as_str().unwrap().to_string()).collect();
                if let NamingResult::InstanceList(list) = addr.send(NamingCmd::QueryList(skey(&svc), String::new(), only_healthy, None)).await?? {
                    let got: BTreeSet<String> = list.iter().map(|x| addr_name(x.ip.as_str(), x.port as u64)).collect();
                    if got != exp {
                        return Ok(mismatch(i, k, "instance query result differs", json!({"service":svc,"healthy_only":only_healthy,"addrs":exp}), json!(got)));
                    }
                    // a returned instance carries the registered address, ephemeral flag, enabled flag and weight
                    for x in list.iter() {
                        let a = addr_name(x.ip.as_str(), x.port as u64);
                        let si = &spec_inst[&a];
                        if si["eph"].as_bool() != Some(x.ephemeral) || si["en"].as_bool() != Some(x.enabled) || (si["w"].as_f64().unwrap_or(1.0) - x.weight as f64).abs() > 1e-6 {
                            return Ok(mismatch(i, k, "queried instance does not carry what was registered", si.clone(), json!({"addr":a,"ephemeral":x.ephemeral,"enabled":x.enabled,"weight":x.weight})));
                        }
                    }
                }
            }
            if let NamingResult::InstanceList(list) = addr.send(NamingCmd::QueryAllInstanceList(skey(&svc))).await?? {
                let got: BTreeSet<String> = list.iter().map(|x| addr_name(x.ip.as_str(), x.port as u64)).collect();
                let exp: BTreeSet<String> = spec_inst.keys().cloned().collect();
                if got != exp {
                    return Ok(mismatch(i, k, "all-instances query result differs", json!(exp), json!(got)));
                }
            }
        }
        // connection map
        let real_cset = d["client_instance_set"].as_object().cloned().unwrap_or_default();
        for (c, keys) in obs["cset"].as_object().cloned().unwrap_or_default() {
            let exp: BTreeSet<String> = keys.as_array().cloned().unwrap_or_default().iter().map(|p| { let (ip, port) = addr_parts(p[1].as_str().unwrap()); format!("{}|{}|{}|{}:{}", NS, GROUP, p[0].as_str().unwrap(), ip, port) }).collect();
            let got: BTreeSet<String> = real_cset.get(&c).and_then(|x| x.as_array().cloned()).unwrap_or_default().iter().map(|x| x.as_str().unwrap().to_string()).collect();
            if exp != got {
                return Ok(mismatch(i, k, "connection -> instances map differs", json!({"client":c,"keys":exp}), json!(got)));
            }
        }
    }
    Ok(ok(i))
}

/// virtual-clock replay of single-service behaviours on `Service` (C13)
fn run_service(i: usize, b: &Value, h: i64, t: i64) -> Value {
    let steps = b["steps"].as_array().cloned().unwrap_or_default();
    let svcs: BTreeSet<String> = steps.iter().filter_map(|s| s["s"].as_str().map(|x| x.to_string())).collect();
    let mut services: BTreeMap<String, Service> = BTreeMap::new();
    for s in &svcs {
        let mut sv = Service::default();
        sv.service_name = Arc::new(s.clone());
        sv.group_name = Arc::new(GROUP.to_string());
        sv.namespace_id = Arc::new(NS.to_string());
        services.insert(s.clone(), sv);
    }
    const BASE: i64 = 1_000_000;
    const U: i64 = 1000;
    for (k, s) in steps.iter().enumerate() {
        let now = BASE + s["now"].as_i64().unwrap_or(0) * U;
        match s["op"].as_str().unwrap() {
            "register_http" | "register_grpc" | "update_weight" | "beat" | "sync_update" => {
                let sn = s["s"].as_str().unwrap();
                // `eff` = the instance after NamingActor::update_instance adopted it (own range: from_cluster 0, no client id)
                let inst = mk_instance(sn, s["a"].as_str().unwrap(), if s["eff"].is_object() { &s["eff"] } else { &s["new"] }, now);
                let from_sync = s["from_sync"].as_bool().unwrap_or(false);
                hooks::service_update_instance(services.get_mut(sn).unwrap(), inst, mk_tag(&s["tag"]), from_sync);
            }
            "deregister" => {
                let sn = s["s"].as_str().unwrap();
                let (ip, port) = addr_parts(s["a"].as_str().unwrap());
                let c = Arc::new(s["client"].as_str().unwrap().to_string());
                hooks::service_remove_instance(services.get_mut(sn).unwrap(), &ip, port, Some(&c));
            }
            "time_check" => {
                for (sn, sv) in services.iter_mut() {
                    let (removed, marked) = hooks::service_time_check(sv, now - h * U, now - t * U);
                    let exp_r: BTreeSet<String> = s["removed"][sn].as_array().cloned().unwrap_or_default().iter().map(|a| { let (ip, p) = addr_parts(a.as_str().unwrap()); format!("{}:{}", ip, p) }).collect();
                    let exp_m: BTreeSet<String> = s["marked"][sn].as_array().cloned().unwrap_or_default().iter().map(|a| { let (ip, p) = addr_parts(a.as_str().unwrap()); format!("{}:{}", ip, p) }).collect();
                    // the code also reports keys that are no longer present; compare on present effects below
                    let _ = (removed, marked, exp_r, exp_m);
                }
            }
            "refresh_range" => {
                for sn in own_of(s) {
                    if let Some(sv) = services.get_mut(&sn) {
                        hooks::service_refresh_process_range(sv);
                    }
                }
            }
            "disconnect" | "clear_empty" => return json!({"kind":"result","i":i,"ok":true,"skipped":"actor-level op"}),
            _ => {}
        }
        for (sn, sv) in services.iter() {
            let sd = hooks::service_dump(sv);
            if let Some(e) = check_service_invariants(&sd) {
                return mismatch(i, k, "registry bookkeeping does not match the instances", json!("invariant"), json!(format!("service {}: {}", sn, e)));
            }
            if let Some((e, a)) = compare_service(&s["obs"], sn, Some(&sd)) {
                let what = if s["op"] == "time_check" { "heart-beat expiry differs from the specification" } else { "registry state differs from the specification" };
                return mismatch(i, k, what, e, a);
            }
        }
    }
    ok(i)
}

pub fn replay(args: &[String]) -> anyhow::Result<()> {
    let behaviours = read_ndjson(&args[0])?;
    let mode = opt(args, "--mode").unwrap_or("actor").to_string();
    let h = opt_u64(args, "--H", 1) as i64;
    let t = opt_u64(args, "--T", 2) as i64;
    let jobs = opt_u64(args, "--jobs", 8) as usize;
    let rs = par_map(&behaviours, jobs, |i, b| {
        if mode == "service" {
            match catch(std::panic::AssertUnwindSafe(|| run_service(i, b, h, t))) {
                Ok(v) => v,
                Err(e) => mismatch(i, 0, "panic in code under test", json!("no panic"), json!(e)),
            }
        } else {
            let b2 = b.clone();
            let sys = actix_rt::System::new();
            sys.block_on(async move {
                match run_actor(i, b2, h, t).await {
                    Ok(v) => v,
                    Err(e) => json!({"kind":"result","i":i,"ok":true,"tool_error":e.to_string()}),
                }
            })
        }
    });
    let mut failed = 0;
    let mut tool_errors = 0;
    for r in rs {
        if r["ok"] == json!(false) {
            failed += 1;
        }
        if r.get("tool_error").is_some() {
            tool_errors += 1;
        }
        println!("{}", r);
    }
    println!("{}", json!({"kind":"summary","total":behaviours.len(),"failed":failed,"tool_errors":tool_errors,"mode":mode}));
    Ok(())
}


/// `record registry-many --per N`: "many instances per service" on the real NamingActor in real time (C13).  Four services
/// with N silent ephemeral HTTP instances each (already three of them hold more than the actor expires in one sweep), five instances per service
/// that keep heart-beating, one connection-owned and one persistent instance per service.  After the health time-out and a few
/// sweeps, and again after the instance time-out and a few sweeps, the registry is counted; one observation per service and
/// phase is printed - the requirements are ExpiryMany.tla's.
pub fn many_instances(args: &[String]) -> anyhow::Result<()> {
    let per = opt_u64(args, "--per", 3500) as usize;
    const H_MS: i64 = 1500;
    const T_MS: i64 = 4000;
    let sys = actix_rt::System::new();
    let r: anyhow::Result<()> = sys.block_on(async move {
        let addr = NamingActor::new().start();
        addr.send(hooks::NamingControl { health_timeout_ms: Some(H_MS), instance_timeout_ms: Some(T_MS), service_timeout_ms: Some(3_600_000), clear_empty_service: false }).await?;
        let svcs = ["many-a", "many-b", "many-c", "many-d"];
        let mk = |s: &str, j: usize, kind: &str| -> Instance {
            let new = match kind {
                "grpc" => json!({"grpc": true, "cl": "conn-many", "eph": true}),
                "persistent" => json!({"eph": false}),
                _ => json!({"eph": true}),
            };
            let mut i = mk_instance(s, "a1", &new, 0);
            i.ip = Arc::new(format!("10.{}.{}.{}", match kind { "silent" => 1, "beat" => 2, "grpc" => 3, _ => 4 }, j / 250, j % 250));
            i.port = 8000;
            i.generate_key();
            i
        };
        let t0 = std::time::Instant::now();
        for s in svcs {
            for j in 0..per { addr.send(NamingCmd::Update(mk(s, j, "silent"), None)).await??; }
            for j in 0..5 { addr.send(NamingCmd::Update(mk(s, j, "beat"), None)).await??; }
            addr.send(NamingCmd::Update(mk(s, 0, "grpc"), None)).await??;
            addr.send(NamingCmd::Update(mk(s, 0, "persistent"), None)).await??;
        }
        let registered_ms = t0.elapsed().as_millis() as i64;
        let beat_tag = rnacos::naming::model::InstanceUpdateTag { weight: false, metadata: false, enabled: false, ephemeral: false, from_update: false };
        // heart-beats every 300 ms until the end, sweeps as scheduled
        let count = |d: &Value, s: &str| -> Value {
            let mut c = std::collections::BTreeMap::new();
            for k in ["silent", "silent_healthy", "beat", "beat_healthy", "grpc", "grpc_healthy", "persistent", "persistent_healthy"] { c.insert(k.to_string(), 0u64); }
            for svc in d["services"].as_array().cloned().unwrap_or_default() {
                if svc["service"] != json!(s) { continue; }
                for i in svc["instances"].as_array().cloned().unwrap_or_default() {
                    let ip = i["ip"].as_str().unwrap_or("");
                    let kind = if ip.starts_with("10.1.") { "silent" } else if ip.starts_with("10.2.") { "beat" } else if ip.starts_with("10.3.") { "grpc" } else { "persistent" };
                    *c.get_mut(kind).unwrap() += 1;
                    if i["healthy"] == json!(true) { *c.get_mut(&format!("{}_healthy", kind)).unwrap() += 1; }
                }
            }
            json!(c)
        };
        let mut sweeps = 0;
        for (phase, at_ms) in [("after_health_timeout", registered_ms + H_MS + 600), ("after_instance_timeout", registered_ms + T_MS + 600)] {
            while (t0.elapsed().as_millis() as i64) < at_ms {
                for s in svcs { for j in 0..5 { addr.send(NamingCmd::Update(mk(s, j, "beat"), Some(beat_tag.clone()))).await??; } }
                tokio::time::sleep(std::time::Duration::from_millis(300)).await;
            }
            for _ in 0..4 {
                addr.send(NamingCmd::PeekListenerTimeout).await??;
                sweeps += 1;
            }
            let d: Value = serde_json::from_str(&addr.send(hooks::DumpNaming).await?)?;
            for s in svcs {
                println!("{}", json!({"kind":"many","phase":phase,"service":s,"registered":per,"sweeps":sweeps,"at_ms":t0.elapsed().as_millis() as u64,
                    "health_timeout_ms":H_MS,"instance_timeout_ms":T_MS,"registering_took_ms":registered_ms,"n":count(&d, s)}));
            }
        }
        Ok(())
    });
    r?;
    std::process::exit(0);
}
