//! One real gRPC client connection to a cluster node (C15): the bi-stream is opened and set up as the SDK does, then
//! InstanceRequest payloads are sent over the same channel.  Ops on stdin, answers on stdout; closing stdin / killing the
//! process closes the connection (the server then removes what the connection registered).
use rnacos::grpc::nacos_proto::bi_request_stream_client::BiRequestStreamClient;
use rnacos::grpc::nacos_proto::request_client::RequestClient;
use rnacos::grpc::nacos_proto::Payload;
use rnacos::grpc::PayloadUtils;
use serde_json::{json, Value};
use tokio::io::AsyncBufReadExt;

pub fn main_client(args: &[String]) -> anyhow::Result<()> {
    let port: u16 = args[0].parse()?;
    let rt = tokio::runtime::Builder::new_current_thread().enable_all().build()?;
    rt.block_on(async move {
        let channel = tonic::transport::Endpoint::from_shared(format!("http://127.0.0.1:{}", port))?.connect().await?;
        let mut client = RequestClient::new(channel.clone());
        let mut bi = BiRequestStreamClient::new(channel.clone());
        let (tx, rx) = tokio::sync::mpsc::channel::<Payload>(16);
        let outbound = tokio_stream::wrappers::ReceiverStream::new(rx);
        let mut inbound = bi.request_bi_stream(tonic::Request::new(outbound)).await?.into_inner();
        tx.send(PayloadUtils::build_payload("ConnectionSetupRequest", json!({"clientVersion":"Nacos-Java-Client:v2.1.0","tenant":"","labels":{}}).to_string())).await.ok();
        tokio::spawn(async move { while let Ok(Some(_)) = inbound.message().await {} });
        tokio::time::sleep(std::time::Duration::from_millis(150)).await;
        // keep-alive as the SDK does (the server closes connections that stay silent for 15 s)
        let mut hc = RequestClient::new(channel.clone());
        tokio::spawn(async move {
            loop {
                tokio::time::sleep(std::time::Duration::from_millis(4000)).await;
                let _ = hc.request(tonic::Request::new(PayloadUtils::build_payload("HealthCheckRequest", "{}".to_string()))).await;
            }
        });
        println!("{}", json!({"res":"connected"}));
        let mut lines = tokio::io::BufReader::new(tokio::io::stdin()).lines();
        while let Ok(Some(line)) = lines.next_line().await {
            let op: Value = match serde_json::from_str(line.trim()) {
                Ok(v) => v,
                Err(_) => continue,
            };
            let name = op["op"].as_str().unwrap_or("");
            if name == "close" {
                break;
            }
            let inst = json!({"ip": op["ip"], "port": op["port"], "weight": op["weight"].as_f64().unwrap_or(1.0), "enabled": op["enabled"].as_bool().unwrap_or(true),
                "healthy": true, "ephemeral": true, "clusterName": "DEFAULT", "serviceName": op["service"], "metadata": {}});
            let (t, body) = match name {
                "register" => ("InstanceRequest", json!({"namespace":"public","serviceName":op["service"],"groupName":"DEFAULT_GROUP","type":"registerInstance","instance":inst})),
                "deregister" => ("InstanceRequest", json!({"namespace":"public","serviceName":op["service"],"groupName":"DEFAULT_GROUP","type":"deregisterInstance","instance":inst})),
                "query" => ("ServiceQueryRequest", json!({"namespace":"public","serviceName":op["service"],"groupName":"DEFAULT_GROUP","healthyOnly":false})),
                _ => ("HealthCheckRequest", json!({})),
            };
            let resp = tokio::time::timeout(std::time::Duration::from_millis(5000), client.request(tonic::Request::new(PayloadUtils::build_payload(t, body.to_string())))).await;
            match resp {
                Ok(Ok(p)) => {
                    let p = p.into_inner();
                    let text = String::from_utf8_lossy(&p.body.map(|b| b.value).unwrap_or_default()).to_string();
                    let v: Value = serde_json::from_str(&text).unwrap_or(Value::Null);
                    let okc = v["resultCode"].as_u64() == Some(200);
                    println!("{}", json!({"res": if okc {"ok"} else {"error"}, "body": v}));
                }
                Ok(Err(e)) => println!("{}", json!({"res":"error","err":e.to_string()})),
                Err(_) => println!("{}", json!({"res":"timeout"})),
            }
        }
        drop(tx);
        Ok::<(), anyhow::Error>(())
    })?;
    std::process::exit(0);
}
