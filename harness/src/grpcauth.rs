//! C16, gRPC leg: the REAL tonic services (RequestServerImpl + BiRequestStreamServerImpl, wired like main.rs)
//! are served on a loopback port of a single-member node with OpenAPI auth on and a cluster token
//! configured; every request of the TLC-enumerated product (request type x token carrier x token state x
//! cluster-token state) is sent over a real channel that also holds an established bi-stream (so the
//! connection is "active") and the answer is classified.
use std::collections::HashMap;
use std::sync::Arc;

use rnacos::common::appdata::AppShareData;
use rnacos::common::model::TokenSession;
use rnacos::config::model::ConfigRaftCmd;
use rnacos::grpc::handler::InvokerHandler;
use rnacos::grpc::nacos_proto::bi_request_stream_client::BiRequestStreamClient;
use rnacos::grpc::nacos_proto::bi_request_stream_server::BiRequestStreamServer;
use rnacos::grpc::nacos_proto::request_client::RequestClient;
use rnacos::grpc::nacos_proto::request_server::RequestServer;
use rnacos::grpc::nacos_proto::Payload;
use rnacos::grpc::server::{BiRequestStreamServerImpl, RequestServerImpl};
use rnacos::grpc::PayloadUtils;
use rnacos::naming::core::NamingCmd;
use rnacos::naming::model::Instance;
use rnacos::raft::cache::model::CacheType;
use rnacos::raft::cluster::model::RouterRequest;
use serde_json::{json, Value};

use crate::util::read_ndjson;

pub const CLUSTER_TOKEN_VALUE: &str = "verif-cluster-token";

pub fn invoker(app: &Arc<AppShareData>) -> InvokerHandler {
    // the same wiring as main.rs
    let mut invoker = InvokerHandler::new(app.clone());
    invoker.add_config_handler(app);
    invoker.add_naming_handler(app);
    invoker.add_raft_handler(app);
    invoker
}

async fn reseed(app: &Arc<AppShareData>) -> anyhow::Result<()> {
    app.config_addr.send(ConfigRaftCmd::ConfigAdd { key: "seed16\u{2}g".to_string(), value: Arc::new("CONTENT-MARK-seed".to_string()), config_type: None, desc: None, history_id: 1, history_table_id: None, op_time: 1, op_user: None }).await??;
    for k in ["pub16\u{2}g", "route16\u{2}g"] {
        app.config_addr.send(ConfigRaftCmd::ConfigRemove { key: k.to_string() }).await??;
    }
    let mut i = Instance { ip: Arc::new("10.9.9.1".to_string()), port: 8080, weight: 1.0, enabled: true, healthy: true, ephemeral: true, cluster_name: "DEFAULT".into(), service_name: Arc::new("svc-MARK-seed".to_string()), group_name: Arc::new("DEFAULT_GROUP".into()), namespace_id: Arc::new("public".to_string()), ..Default::default() };
    i.generate_key();
    app.naming_addr.send(NamingCmd::Update(i, None)).await??;
    for ip in ["10.6.6.6", "10.6.6.7", "10.6.6.8"] {
        let mut extra = Instance { ip: Arc::new(ip.to_string()), port: 6666, service_name: Arc::new("svc-MARK-seed".to_string()), group_name: Arc::new("DEFAULT_GROUP".into()), namespace_id: Arc::new("public".to_string()), ..Default::default() };
        extra.generate_key();
        app.naming_addr.send(NamingCmd::Delete(extra)).await??;
    }
    Ok(())
}

async fn digest(app: &Arc<AppShareData>) -> anyhow::Result<Value> {
    let d = crate::sm::dump(app).await?;
    let n: Value = serde_json::from_str(&app.naming_addr.send(rnacos::verif_hooks::DumpNaming).await?)?;
    let mut cfg = serde_json::Map::new();
    for (k, v) in d["cfg"].as_object().cloned().unwrap_or_default() {
        cfg.insert(k, v["content"].clone());
    }
    let inst: Vec<Value> = n["services"].as_array().cloned().unwrap_or_default().iter().map(|s| json!([s["namespace"], s["service"], s["instances"].as_array().map(|a| a.iter().map(|i| json!([i["ip"], i["port"], i["enabled"]])).collect::<Vec<_>>())])).collect();
    Ok(json!({"cfg": cfg, "inst": inst}))
}

/// request bodies: real, effective requests for the types that read or change data
fn body_of(t: &str) -> anyhow::Result<String> {
    let inst = json!({"ip":"10.6.6.6","port":6666,"weight":1.0,"enabled":true,"healthy":true,"ephemeral":true,"clusterName":"DEFAULT","serviceName":"svc-MARK-seed","metadata":{}});
    Ok(match t {
        "ConfigQueryRequest" => json!({"dataId":"seed16","group":"g","tenant":""}).to_string(),
        "ConfigPublishRequest" => json!({"dataId":"pub16","group":"g","tenant":"","content":"W"}).to_string(),
        "ConfigRemoveRequest" => json!({"dataId":"seed16","group":"g","tenant":""}).to_string(),
        "ConfigBatchListenRequest" => json!({"listen":true,"configListenContexts":[{"dataId":"seed16","group":"g","tenant":"","md5":"0"}]}).to_string(),
        "InstanceRequest" => json!({"namespace":"public","serviceName":"svc-MARK-seed","groupName":"DEFAULT_GROUP","type":"registerInstance","instance":inst}).to_string(),
        "BatchInstanceRequest" => json!({"namespace":"public","serviceName":"svc-MARK-seed","groupName":"DEFAULT_GROUP","type":"batchRegisterInstance","instances":[inst]}).to_string(),
        "SubscribeServiceRequest" => json!({"namespace":"public","serviceName":"svc-MARK-seed","groupName":"DEFAULT_GROUP","subscribe":true,"clusters":""}).to_string(),
        "ServiceQueryRequest" => json!({"namespace":"public","serviceName":"svc-MARK-seed","groupName":"DEFAULT_GROUP","healthyOnly":false}).to_string(),
        "ServiceListRequest" => json!({"namespace":"public","groupName":"DEFAULT_GROUP","pageNo":1,"pageSize":100}).to_string(),
        "RaftRouteRequest" => serde_json::to_string(&RouterRequest::ConfigSet { key: "route16\u{2}g".to_string(), value: Arc::new("W".to_string()), op_user: None, config_type: None, desc: None, extend_info: Default::default() })?,
        "NamingRouteRequest" => {
            let mut i = Instance { ip: Arc::new("10.6.6.7".to_string()), port: 6666, weight: 1.0, enabled: true, healthy: true, ephemeral: true, cluster_name: "DEFAULT".into(), service_name: Arc::new("svc-MARK-seed".to_string()), group_name: Arc::new("DEFAULT_GROUP".into()), namespace_id: Arc::new("public".to_string()), ..Default::default() };
            i.generate_key();
            serde_json::to_string(&rnacos::naming::cluster::model::NamingRouteRequest::UpdateInstance { instance: i, tag: None })?
        }
        _ => "{}".to_string(),
    })
}

fn tok_value(state: &str) -> Option<&'static str> {
    match state {
        "absent" => None,
        "empty" => Some(""),
        "garbage" => Some("zzz-not-a-token"),
        "expired" => Some("tok-expired"),
        "valid" => Some("tok-valid"),
        _ => Some("zzz-unknown-state"),
    }
}

fn ctok_value(state: &str) -> Option<String> {
    match state {
        "absent" => None,
        "empty" => Some(String::new()),
        "garbage" => Some("zzz-not-the-token-xx".to_string()),
        "prefix" => Some(CLUSTER_TOKEN_VALUE[..CLUSTER_TOKEN_VALUE.len() - 3].to_string()),
        "extended" => Some(format!("{}-x", CLUSTER_TOKEN_VALUE)),
        "casefold" => Some(CLUSTER_TOKEN_VALUE.to_uppercase()),
        "valid" => Some(CLUSTER_TOKEN_VALUE.to_string()),
        _ => Some("zzz".to_string()),
    }
}

pub async fn run(app: Arc<AppShareData>, mode: &str, file: &str) -> anyhow::Result<()> {
    if mode == "grpc-inventory" {
        println!("{}", json!({"kind":"types","types": invoker(&app).verif_handler_types()}));
        return Ok(());
    }
    let conf = app.sys_config.clone();
    if !conf.openapi_enable_auth || conf.cluster_token.as_str() != CLUSTER_TOKEN_VALUE {
        return Err(anyhow::anyhow!("node is not configured with auth on and the cluster token"));
    }
    let w = crate::node::exec(&app, &json!({"op":"wait_leader","ms":20000})).await;
    if w["res"] != "ok" {
        return Err(anyhow::anyhow!("node did not become leader"));
    }
    let ts = TokenSession { username: Arc::new("apiuser".to_string()), roles: vec![Arc::new("0".to_string())], extend_infos: Default::default() };
    crate::authz::put_cache(&app, CacheType::ApiTokenSession, "tok-valid", rnacos::cache::model::CacheValue::ApiTokenSession(Arc::new(ts.clone())), false).await?;
    crate::authz::put_cache(&app, CacheType::ApiTokenSession, "tok-expired", rnacos::cache::model::CacheValue::ApiTokenSession(Arc::new(ts)), true).await?;
    reseed(&app).await?;
    tokio::time::sleep(std::time::Duration::from_millis(100)).await;
    let base = digest(&app).await?;

    // the real services on a loopback port
    let port = { let l = std::net::TcpListener::bind("127.0.0.1:0")?; l.local_addr()?.port() };
    let addr: std::net::SocketAddr = format!("127.0.0.1:{}", port).parse()?;
    let request_server = RequestServerImpl::new(app.clone(), invoker(&app));
    let bi_server = BiRequestStreamServerImpl::new(app.clone());
    tokio::spawn(async move {
        tonic::transport::Server::builder().add_service(RequestServer::new(request_server)).add_service(BiRequestStreamServer::new(bi_server)).serve(addr).await.ok();
    });
    let mut channel = None;
    for _ in 0..100 {
        match tonic::transport::Endpoint::from_shared(format!("http://127.0.0.1:{}", port))?.connect().await {
            Ok(c) => { channel = Some(c); break; }
            Err(_) => tokio::time::sleep(std::time::Duration::from_millis(50)).await,
        }
    }
    let channel = channel.ok_or_else(|| anyhow::anyhow!("gRPC server did not start"))?;
    let mut client = RequestClient::new(channel.clone());
    let mut bi = BiRequestStreamClient::new(channel.clone());
    let (tx, rx) = tokio::sync::mpsc::channel::<Payload>(16);
    let outbound = tokio_stream::wrappers::ReceiverStream::new(rx);
    let mut inbound = bi.request_bi_stream(tonic::Request::new(outbound)).await?.into_inner();
    tx.send(PayloadUtils::build_payload("ConnectionSetupRequest", json!({"clientVersion":"Nacos-Java-Client:v2.1.0","tenant":"","labels":{}}).to_string())).await.ok();
    tokio::spawn(async move { while let Ok(Some(_)) = inbound.message().await {} });
    tokio::time::sleep(std::time::Duration::from_millis(200)).await;
    // sanity: the connection is active (a health check answers)
    let hc = client.request(tonic::Request::new(PayloadUtils::build_payload("HealthCheckRequest", "{}".to_string()))).await?.into_inner();
    if PayloadUtils::get_payload_type(&hc).map(|t| t.as_str() != "HealthCheckResponse").unwrap_or(true) {
        return Err(anyhow::anyhow!("bi-stream connection is not active: {}", PayloadUtils::get_payload_string(&hc)));
    }

    let reqs = read_ndjson(file)?;
    for r in reqs.iter() {
        let t = r["type"].as_str().unwrap_or("");
        let mut headers: HashMap<String, String> = HashMap::new();
        if let Some(v) = tok_value(r["tok"].as_str().unwrap_or("absent")) {
            headers.insert(r["carrier"].as_str().unwrap_or("accessToken").to_string(), v.to_string());
        }
        if let Some(v) = ctok_value(r["ctok"].as_str().unwrap_or("absent")) {
            headers.insert("ClusterToken".to_string(), v);
        }
        let payload = PayloadUtils::build_full_payload(t, body_of(t)?, "127.0.0.1", headers);
        let resp = tokio::time::timeout(std::time::Duration::from_millis(5000), client.request(tonic::Request::new(payload))).await;
        let (d, rtype, text) = match resp {
            Ok(Ok(p)) => {
                let p = p.into_inner();
                let rtype = PayloadUtils::get_payload_type(&p).map(|s| s.to_string()).unwrap_or_default();
                let text = String::from_utf8_lossy(&p.body.map(|b| b.value).unwrap_or_default()).to_string();
                let v: Value = serde_json::from_str(&text).unwrap_or(Value::Null);
                let code = v["errorCode"].as_u64().unwrap_or(0);
                let msg = v["message"].as_str().unwrap_or("");
                let d = if rtype == "ErrorResponse" && code == 403 { "refused_auth" }
                    else if rtype == "ErrorResponse" && code == 500 && msg == "request cluster token is invalid" { "refused_cluster" }
                    else if rtype == "ErrorResponse" && code == 301 { "inactive" }
                    else if rtype == "ErrorResponse" && code == 302 { "no_handler" }
                    else { "handled" };
                (d.to_string(), rtype, text)
            }
            Ok(Err(st)) => ("transport_error".to_string(), String::new(), st.to_string()),
            Err(_) => ("handled".to_string(), String::new(), "timeout".to_string()),
        };
        let leaked = text.contains("MARK-seed");
        let mut now = digest(&app).await?;
        if d == "handled" {
            for _ in 0..6 {
                tokio::time::sleep(std::time::Duration::from_millis(20)).await;
                let again = digest(&app).await?;
                if again == now { break; }
                now = again;
            }
        }
        let changed = now != base;
        if changed {
            for _ in 0..80 {
                reseed(&app).await?;
                tokio::time::sleep(std::time::Duration::from_millis(20)).await;
                if digest(&app).await? == base { break; }
            }
            if digest(&app).await? != base {
                return Err(anyhow::anyhow!("could not restore the seed state after request {}", r["id"]));
            }
        }
        println!("{}", json!({"kind":"obs","id":r["id"],"type":t,"words":r["words"],"carrier":r["carrier"],"tok":r["tok"],"ctok":r["ctok"],"d":d,"rtype":rtype,"changed":changed,"leaked":leaked,"text":text.chars().take(120).collect::<String>()}));
    }
    drop(tx);
    Ok(())
}
