//! C01 / C07: behaviours of StateMachine.tla replayed on mini nodes.
//!  mode c01: apply / apply_batch / compact / interrupt_snapshot / restart on ONE node; after every step the
//!            served state is compared with the spec's `sm`; at every restart also with the dump taken before.
//!  mode c07: the behaviour's request sequence through three paths on fresh nodes - leader apply one by one,
//!            follower batches (as generated, and as one big batch), start-up replay - all dumps compared.
use crate::node::NodeProc;
use crate::util::*;
use serde_json::{json, Map, Value};

pub const GROUP: &str = "g";

pub const SVC_NS: &str = "";
pub const TOOL_NS: &str = "tns";
pub const TOOL_GROUP: &str = "tg";

/// optional string field of a request: "" = not given, "<e>" = given as the empty string
fn opt_str(v: &Value) -> Value {
    match v.as_str() {
        Some("") | None => Value::Null,
        Some("<e>") => json!(""),
        Some(s) => json!(s),
    }
}

/// a model instance key "svc:ip:port"
fn inst_parts(k: &str) -> (String, String, u32) {
    let p: Vec<&str> = k.split(':').collect();
    (p[0].to_string(), p.get(1).unwrap_or(&"10.0.0.1").to_string(), p.get(2).and_then(|x| x.parse().ok()).unwrap_or(80))
}

fn simple_tool(k: &str, ver: u64) -> Value {
    json!({"toolName": k, "toolKey": {"namespace": TOOL_NS, "group": TOOL_GROUP, "toolName": k}, "toolVersion": ver,
        "routeRule": {"protocol": "http", "url": "http://x/y", "method": "GET", "additionHeaders": {}, "convertType": "NONE",
            "serviceGroup": "", "serviceName": ""}})
}

/// the namespace a model config key lives in (CfgTenant of StateMachine.tla as the simulation configurations override
/// it): keys named kn<i> live in the user namespace n<i>, all others in the default namespace
pub fn cfg_tenant(k: &str) -> &str {
    match k { "kn1" => "n1", "kn2" => "n2", _ => "" }
}

/// Sizes.  The model's contents are names ("a", "b", "c"); with RNVERIF_BIG="c=2400000" the content named c is a text of
/// that many bytes on the real node (records larger than one read of the snapshot / log readers, several chunks of a
/// snapshot transfer), and is given its name back when the served state is projected.
fn big() -> &'static Option<(String, usize)> {
    static BIG: std::sync::OnceLock<Option<(String, usize)>> = std::sync::OnceLock::new();
    BIG.get_or_init(|| {
        let v = std::env::var("RNVERIF_BIG").ok()?;
        let (k, n) = v.split_once('=')?;
        Some((k.to_string(), n.parse().ok()?))
    })
}

pub fn expand_content(v: &Value) -> Value {
    if let (Some((k, n)), Some(s)) = (big(), v.as_str()) {
        if s == k {
            let mut t = String::with_capacity(*n);
            t.push_str(k);
            t.push('#');
            let mut x: u32 = 12345;
            while t.len() < *n {
                // printable, not periodic within any power-of-two window
                x = x.wrapping_mul(1103515245).wrapping_add(12345);
                t.push((b'a' + ((x >> 16) % 26) as u8) as char);
            }
            return json!(t);
        }
    }
    v.clone()
}

pub fn shrink_content(c: &Value) -> Value {
    if let (Some((k, n)), Some(s)) = (big(), c.as_str()) {
        if s.len() > 64 && s.starts_with(&format!("{}#", k)) {
            return if s.len() == *n && json!(s) == expand_content(&json!(k)) { json!(k) } else { json!(format!("{}#DAMAGED(len {})", k, s.len())) };
        }
    }
    c.clone()
}

/// the namespace a model instance key lives in (InstTenant of StateMachine.tla as the simulation configurations override
/// it): the services named sn<i> live in the namespace n<i>, all others in the default namespace
pub fn inst_tenant(svc: &str) -> &str {
    match svc { "sn1" => "n1", "sn2" => "n2", _ => SVC_NS }
}

fn cfg_key(k: &str) -> String {
    let t = cfg_tenant(k);
    if t.is_empty() { format!("{}\u{2}{}", k, GROUP) } else { format!("{}\u{2}{}\u{2}{}", k, GROUP, t) }
}

/// model request -> real ClientRequest (JSON, serde's externally tagged form)
pub fn to_client_request(r: &Value, index: u64) -> Value {
    let k = r["k"].as_str().unwrap_or("");
    match r["t"].as_str().unwrap_or("") {
        "cfg_set" => json!({"ConfigSet": {"key": cfg_key(k), "value": expand_content(&r["v"]), "config_type": opt_str(&r["ty"]), "desc": opt_str(&r["ds"]),
            "history_id": r["hid"], "history_table_id": r["hid"], "op_time": 1000 + index, "op_user": null}}),
        "cfg_del" => json!({"ConfigRemove": {"key": cfg_key(k)}}),
        "ns_set" => json!({"NamespaceReq": {"Set": {"namespace_id": k, "namespace_name": opt_str(&r["v"]), "type": null}}}),
        "ns_upd" => json!({"NamespaceReq": {"Update": {"namespace_id": k, "namespace_name": opt_str(&r["v"]), "type": null}}}),
        "ns_del" => json!({"NamespaceReq": {"Delete": {"id": k}}}),
        "usr_set" => json!({"TableManagerReq": {"Set": {"table_name": "T_USER", "key": k.as_bytes(), "value": user_bytes(k, r["v"].as_str().unwrap_or("")), "last_seq_id": null}}}),
        "usr_del" => json!({"TableManagerReq": {"Remove": {"table_name": "T_USER", "key": k.as_bytes()}}}),
        "seq_next" => json!({"SequenceReq": {"req": {"NextId": k}}}),
        "seq_range" => json!({"SequenceReq": {"req": {"NextRange": [k, r["n"]]}}}),
        "seq_set" => json!({"SequenceReq": {"req": {"SetId": [k, r["n"]]}}}),
        "seq_del" => json!({"SequenceReq": {"req": {"RemoveId": k}}}),
        "nam_set" => {
            let (svc, ip, port) = inst_parts(k);
            let param = json!({"ip": ip, "port": port, "weight": r["w"].as_f64().unwrap_or(1.0), "enabled": r["en"].as_bool().unwrap_or(true),
                "healthy": true, "ephemeral": false, "metadata": {"m": format!("w{}", r["w"])}, "namespace_id": inst_tenant(&svc), "group_name": "DEFAULT_GROUP",
                "service_name": svc, "cluster_name": "DEFAULT", "app_name": null, "last_modified_millis": 1000 + index});
            if r["upd"].as_bool().unwrap_or(false) {
                json!({"NamingReq": {"req": {"UpdateInstance": {"param": param}}}})
            } else {
                json!({"NamingReq": {"req": {"RegisterInstance": {"param": param}}}})
            }
        }
        "nam_del" => {
            let (svc, ip, port) = inst_parts(k);
            json!({"NamingReq": {"req": {"RemoveInstance": {"namespaceId": inst_tenant(&svc), "groupName": "DEFAULT_GROUP", "serviceName": svc, "ip": ip, "port": port}}}})
        }
        "cch_set" => json!({"CacheReq": {"req": {"Set": {"key": {"cache_type": "String", "key": k}, "value": {"String": r["v"]}, "ttl": -1, "now": 0,
            "nx": r["m"] == "nx", "xx": r["m"] == "xx"}}}}),
        "cch_del" => json!({"CacheReq": {"req": {"Remove": {"cache_type": "String", "key": k}}}}),
        "tool_set" => json!({"McpReq": {"req": {"UpdateToolSpec": {"namespace": TOOL_NS, "group": TOOL_GROUP, "toolName": k,
            "parameters": {"name": k, "description": r["v"], "inputSchema": {"type": "object", "properties": {}}},
            "version": r["hid"], "updateTime": 1000 + index, "opUser": null}}}}),
        "tool_del" => json!({"McpReq": {"req": {"RemoveToolSpec": {"namespace": TOOL_NS, "group": TOOL_GROUP, "toolName": k}}}}),
        t @ ("srv_set" | "srv_add") => {
            let id = srv_id(r);
            let tools: Vec<Value> = r["tools"].as_array().cloned().unwrap_or_default().iter().map(|x| simple_tool(x["k"].as_str().unwrap_or(""), x["ver"].as_u64().unwrap_or(0))).collect();
            let param = json!({"id": id, "uniqueKey": format!("srv{}", id), "valueId": r["hid"], "tools": tools, "opUser": "u", "updateTime": 1000 + index,
                "namespace": TOOL_NS, "name": r["v"], "description": "d", "token": null, "authKeys": ["key"],
                "publishValueId": if t == "srv_add" { json!(r["hid"].as_u64().unwrap_or(0) + 1) } else { Value::Null }});
            if t == "srv_add" {
                json!({"McpReq": {"req": {"AddServer": param}}})
            } else {
                json!({"McpReq": {"req": {"UpdateServer": param}}})
            }
        }
        "srv_pub" => json!({"McpReq": {"req": {"PublishCurrentServer": [srv_id(r), r["hid"]]}}}),
        "srv_pubhist" => json!({"McpReq": {"req": {"PublishHistoryServer": [srv_id(r), r["hid"]]}}}),
        "srv_del" => json!({"McpReq": {"req": {"RemoveServer": srv_id(r)}}}),
        _ => Value::Null,
    }
}

/// a user record as the user service stores it (the model value is the nick name)
fn user_bytes(name: &str, nick: &str) -> Vec<u8> {
    let u = rnacos::user::model::UserDo {
        username: name.to_string(),
        password: String::new(),
        nickname: nick.to_string(),
        gmt_create: 1000,
        gmt_modified: 1000,
        enable: true,
        roles: vec!["0".to_string()],
        extend_info: Default::default(),
        password_hash: Some("$2b$04$verifverifverifverifveOZl3pM1Y0Q1x3b0X4kq4o9yJ0q1Jm".to_string()),
        namespace_privilege_flags: None,
        namespace_white_list: vec![],
        namespace_black_list: vec![],
        source: None,
    };
    u.to_bytes()
}

/// table value as dumped (text or hex) -> the nick name of the user record it holds
fn user_nick(v: &Value) -> Value {
    let s = v.as_str().unwrap_or("");
    let bytes: Vec<u8> = if s.len() % 2 == 0 && s.chars().all(|c| c.is_ascii_hexdigit()) && !s.is_empty() {
        (0..s.len()).step_by(2).filter_map(|i| u8::from_str_radix(&s[i..i + 2], 16).ok()).collect()
    } else {
        s.as_bytes().to_vec()
    };
    match rnacos::user::model::UserDo::from_bytes(&bytes) {
        Ok(u) if !u.username.is_empty() => json!(u.nickname),
        _ => v.clone(),
    }
}

fn srv_id(r: &Value) -> u64 {
    r["k"].as_str().and_then(|x| x.parse().ok()).or(r["k"].as_u64()).unwrap_or(1)
}

fn as_map(v: &Value) -> Map<String, Value> {
    v.as_object().cloned().unwrap_or_default() // TLC prints an empty function as []
}

/// project a real dump onto the shape of the spec's `sm`
pub fn project(dump: &Value) -> Value {
    let mut cfg = Map::new();
    for (k, v) in as_map(&dump["cfg"]) {
        // key = tenant|group|dataId ; the model uses tenant "" and group GROUP
        let parts: Vec<&str> = k.splitn(3, '|').collect();
        let name = if parts.len() == 3 && parts[1] == GROUP && parts[0] == cfg_tenant(parts[2]) { parts[2].to_string() } else { k.clone() };
        let hist: Vec<Value> = v["hist"].as_array().cloned().unwrap_or_default().iter().map(|h| json!({"id": h["id"], "content": shrink_content(&h["content"])})).collect();
        cfg.insert(name, json!({"content": shrink_content(&v["content"]), "ty": v["type"].as_str().unwrap_or(""), "desc": v["desc"].as_str().unwrap_or(""), "hist": hist}));
    }
    let mut ns = Map::new();
    for (k, v) in as_map(&dump["ns"]) {
        if k.is_empty() {
            continue; // the built-in default namespace
        }
        ns.insert(k, v["name"].clone());
    }
    let mut usr = Map::new();
    for (k, v) in as_map(&dump["tables"]["T_USER"]) {
        if k == "admin" {
            continue; // created by a leader node itself
        }
        usr.insert(k, user_nick(&v));
    }
    let seq = as_map(&dump["seq"]);
    // persistent instances: "ns|group|svc|ip:port" -> model key "svc:ip:port"
    let mut nam = Map::new();
    for (k, v) in as_map(&dump["nam"]) {
        let p: Vec<&str> = k.splitn(4, '|').collect();
        let name = if p.len() == 4 && p[0] == inst_tenant(p[2]) { format!("{}:{}", p[2], p[3]) } else { k.clone() };
        let w = v["weight"].as_f64().unwrap_or(0.0);
        nam.insert(name, json!({"w": w as i64, "en": v["enabled"]}));
    }
    let mut cch = Map::new();
    for (k, v) in as_map(&dump["cch"]) {
        cch.insert(k, v["value"]["String"].clone());
    }
    let mut tool = Map::new();
    for (k, v) in as_map(&dump["tool"]) {
        let name = k.rsplit('|').next().unwrap_or("").to_string();
        tool.insert(name, json!({"cur": v["cur"], "vers": v["vers"]}));
    }
    let mut srv = Map::new();
    for (k, v) in as_map(&dump["srv"]) {
        srv.insert(k, json!({"name": v["name"], "cur": v["cur"], "rel": v["rel"], "hist": v["hist"]}));
    }
    json!({"cfg": cfg, "ns": ns, "usr": usr, "seq": seq, "nam": nam, "cch": cch, "tool": tool, "srv": srv})
}

fn norm_value(v: &Value) -> Value {
    let mut ts: Vec<Value> = v["tools"].as_array().cloned().unwrap_or_default();
    ts.sort_by_key(|t| t["k"].as_str().unwrap_or("").to_string());
    json!({"vid": v["vid"], "tools": ts})
}

pub fn norm_model(sm: &Value) -> Value {
    // TLC prints a function over numbers 1..n as an array and other number-keyed functions as objects with string keys
    let mut tool = Map::new();
    for (k, v) in as_map(&sm["tool"]) {
        let vers = match &v["vers"] {
            Value::Array(a) => a.iter().enumerate().map(|(i, x)| ((i + 1).to_string(), x.clone())).collect::<Map<String, Value>>(),
            other => as_map(other),
        };
        tool.insert(k, json!({"cur": v["cur"], "vers": vers}));
    }
    let mut srv = Map::new();
    let srv_in = match &sm["srv"] {
        Value::Array(a) => a.iter().enumerate().map(|(i, x)| ((i + 1).to_string(), x.clone())).collect::<Map<String, Value>>(),
        other => as_map(other),
    };
    for (k, v) in srv_in {
        let hist: Vec<Value> = v["hist"].as_array().cloned().unwrap_or_default().iter().map(norm_value).collect();
        srv.insert(k, json!({"name": v["name"], "cur": norm_value(&v["cur"]), "rel": norm_value(&v["rel"]), "hist": hist}));
    }
    let mut cfg = Map::new();
    for (k, v) in as_map(&sm["cfg"]) {
        cfg.insert(k, json!({"content": v["content"], "ty": v["ty"].as_str().unwrap_or(""), "desc": v["desc"].as_str().unwrap_or(""), "hist": v["hist"]}));
    }
    json!({"cfg": cfg, "ns": as_map(&sm["ns"]), "usr": as_map(&sm["usr"]), "seq": as_map(&sm["seq"]),
        "nam": as_map(&sm["nam"]), "cch": as_map(&sm["cch"]), "tool": tool, "srv": srv})
}

pub fn get_dump(node: &mut NodeProc) -> anyhow::Result<Value> {
    let r = node.call(&json!({"op":"dump"}))?;
    if r["res"] != "ok" {
        return Err(anyhow::anyhow!("dump failed: {}", r));
    }
    let mut dump = r["dump"].clone();
    unjudged_naming_marks(&mut dump);
    Ok(dump)
}

/// The NAMING mark of a namespace (set by the service index as soon as a service exists in it) is judged only where a
/// PERSISTENT instance lives in the namespace - replicated state, which StateMachine.tla specifies (InstTenant,
/// TenantsInUse).  A service without persistent instances (an emptied service waiting for its timed clean-up) is node-local
/// bookkeeping that a restart legitimately forgets: its mark is taken out of the dump, and a namespace listed for no
/// other reason with it.
fn unjudged_naming_marks(dump: &mut Value) {
    const NAMING: u64 = 0b1000;
    let used: std::collections::HashSet<String> = as_map(&dump["nam"]).keys().map(|k| k.split('|').next().unwrap_or("").to_string()).collect();
    if let Some(ns) = dump["ns"].as_object_mut() {
        let ids: Vec<String> = ns.keys().cloned().collect();
        for id in ids {
            let flag = ns[&id]["flag"].as_u64().unwrap_or(0);
            if flag & NAMING != 0 && !used.contains(&id) {
                if flag & !NAMING == 0 {
                    ns.remove(&id);
                } else {
                    ns[&id]["flag"] = json!(flag & !NAMING);
                }
            }
        }
    }
}

pub fn first_diff(a: &Value, b: &Value) -> String {
    for part in ["cfg", "ns", "usr", "seq", "tables", "listing_total", "nam", "cch", "tool", "tool_total", "srv", "srv_total"] {
        if a.get(part) != b.get(part) {
            return format!("{}: {} vs {}", part, a.get(part).unwrap_or(&Value::Null), b.get(part).unwrap_or(&Value::Null));
        }
    }
    "?".into()
}

pub fn log_and_apply(node: &mut NodeProc, index: u64, req: &Value) -> anyhow::Result<Option<Value>> {
    let a = node.call(&json!({"op":"append_req","index":index,"term":1,"req":req}))?;
    if a["res"] != "ok" {
        return Ok(Some(a));
    }
    let r = node.call(&json!({"op":"apply","index":index,"req":req}))?;
    if r["res"] != "ok" {
        // a refusal by the component (RemoveToolSpec of a tool in use ...) is an outcome: the state comparison judges it
        let refusal = req.get("McpReq").is_some() && r["err"].as_str().map(|e| !e.contains("close-write")).unwrap_or(false);
        if !refusal {
            return Ok(Some(r));
        }
    }
    Ok(None)
}

fn run_c01(i: usize, b: &Value) -> anyhow::Result<Value> {
    let dir = tempfile::tempdir()?;
    let d = dir.path().to_string_lossy().into_owned();
    let mut node = NodeProc::start(&d, 700)?;
    let steps = b["steps"].as_array().cloned().unwrap_or_default();
    for (k, s) in steps.iter().enumerate() {
        let op = s["op"].as_str().unwrap();
        match op {
            "apply" => {
                let idx = s["index"].as_u64().unwrap();
                if let Some(e) = log_and_apply(&mut node, idx, &to_client_request(&s["req"], idx))? {
                    node.kill();
                    return Ok(mismatch(i, k, "apply failed", json!("ok"), e));
                }
            }
            "apply_batch" => {
                let idx0 = s["index"].as_u64().unwrap();
                let mut items = vec![];
                for (j, r) in s["reqs"].as_array().unwrap().iter().enumerate() {
                    let idx = idx0 + j as u64;
                    let req = to_client_request(r, idx);
                    let a = node.call(&json!({"op":"append_req","index":idx,"term":1,"req":req}))?;
                    if a["res"] != "ok" {
                        node.kill();
                        return Ok(mismatch(i, k, "append failed", json!("ok"), a));
                    }
                    items.push(json!({"index": idx, "req": req}));
                }
                let r = node.call(&json!({"op":"apply_batch","items":items}))?;
                if r["res"] != "ok" {
                    node.kill();
                    return Ok(mismatch(i, k, "apply_batch failed", json!("ok"), r));
                }
            }
            "compact" => {
                let r = node.call(&json!({"op":"compact"}))?;
                // (the snapshot index may lag behind the model's applied index by the trailing requests a component
                //  REFUSED - RemoveToolSpec of a tool in use: the store records only successful applies; the state is what counts)
                if r["res"] != "ok" || r["index"].as_u64().unwrap_or(u64::MAX) > s["upto"].as_u64().unwrap_or(0) {
                    node.kill();
                    return Ok(mismatch(i, k, "compaction", json!({"res":"ok","index":s["upto"]}), r));
                }
            }
            "interrupt_snapshot" => {
                // a compaction attempt dies after the snapshot file was written and before the catalogue
                // was updated: run it for real, then put the catalogue file back
                node.stop()?;
                let idx = format!("{}/index", d);
                let bak = format!("{}/index.verif_bak", d);
                std::fs::copy(&idx, &bak)?;
                node = NodeProc::start(&d, 700)?;
                let r = node.call(&json!({"op":"compact"}))?;
                if r["res"] != "ok" {
                    node.kill();
                    return Ok(mismatch(i, k, "compaction (to be interrupted) failed", json!("ok"), r));
                }
                node.stop()?;
                std::fs::copy(&bak, &idx)?;
                std::fs::remove_file(&bak).ok();
                node = NodeProc::start(&d, 700)?;
            }
            "restart" => {
                let before = get_dump(&mut node)?;
                node.stop()?;
                node = NodeProc::start(&d, 700)?;
                let after = get_dump(&mut node)?;
                if before != after {
                    node.kill();
                    return Ok(mismatch(i, k, "served state differs after restart", json!(first_diff(&before, &after)), json!("(before vs after)")));
                }
            }
            _ => {}
        }
        let got = project(&get_dump(&mut node)?);
        let exp = norm_model(&s["sm"]);
        if got != exp {
            node.kill();
            return Ok(mismatch(i, k, "served state differs from the specification", exp.clone(), json!(first_diff(&exp, &got))));
        }
    }
    node.kill();
    Ok(ok(i))
}

/// the committed request sequence of a behaviour, with the batch split TLC chose
fn sequence_of(b: &Value) -> (Vec<Value>, Vec<usize>) {
    let mut reqs = vec![];
    let mut groups = vec![];
    for s in b["steps"].as_array().unwrap() {
        match s["op"].as_str().unwrap() {
            "apply" => {
                reqs.push(s["req"].clone());
                groups.push(1);
            }
            "apply_batch" => {
                let n = s["reqs"].as_array().unwrap().len();
                for r in s["reqs"].as_array().unwrap() {
                    reqs.push(r.clone());
                }
                groups.push(n);
            }
            _ => {}
        }
    }
    (reqs, groups)
}

fn follower_path(reqs: &[Value], groups: &[usize]) -> anyhow::Result<(Value, tempfile::TempDir, NodeProc)> {
    follower_path_echo(reqs, groups, false)
}

/// `echo`: this follower is the node the publishes were sent to - it routed each one to the leader and echoes the value
/// locally (ConfigCmd::SetTmpValue) before the committed entry reaches it
fn follower_path_echo(reqs: &[Value], groups: &[usize], echo: bool) -> anyhow::Result<(Value, tempfile::TempDir, NodeProc)> {
    let dir = tempfile::tempdir()?;
    let d = dir.path().to_string_lossy().into_owned();
    let mut node = NodeProc::start(&d, 700)?;
    let mut idx = 1u64;
    let mut pos = 0usize;
    for g in groups {
        let mut items = vec![];
        for r in &reqs[pos..pos + g] {
            let req = to_client_request(r, idx);
            node.call(&json!({"op":"append_req","index":idx,"term":1,"req":req}))?;
            if echo && r["t"] == "cfg_set" {
                node.call(&json!({"op":"cfg_tmp","data_id":r["k"],"group":GROUP,"tenant":cfg_tenant(r["k"].as_str().unwrap_or("")),"value":expand_content(&r["v"])}))?;
            }
            items.push(json!({"index": idx, "req": req}));
            idx += 1;
        }
        pos += g;
        let r = node.call(&json!({"op":"apply_batch","items":items}))?;
        if r["res"] != "ok" {
            return Err(anyhow::anyhow!("apply_batch failed {}", r));
        }
    }
    let dump = get_dump(&mut node)?;
    Ok((dump, dir, node))
}

fn run_c07(i: usize, b: &Value) -> anyhow::Result<Value> {
    let (reqs, groups) = sequence_of(b);
    if reqs.is_empty() {
        return Ok(ok(i));
    }
    // path L: leader, one by one
    let dir_l = tempfile::tempdir()?;
    let dl = dir_l.path().to_string_lossy().into_owned();
    let mut leader = NodeProc::start(&dl, 700)?;
    for (j, r) in reqs.iter().enumerate() {
        let idx = j as u64 + 1;
        if let Some(e) = log_and_apply(&mut leader, idx, &to_client_request(r, idx))? {
            leader.kill();
            return Ok(mismatch(i, j, "leader apply failed", json!("ok"), e));
        }
    }
    let dump_l = get_dump(&mut leader)?;
    // path R: start-up replay of the same log on the same directory
    leader.stop()?;
    let mut replayed = NodeProc::start(&dl, 700)?;
    let dump_r = get_dump(&mut replayed)?;
    replayed.kill();
    // path F: follower batches as generated, and everything in one batch
    let (dump_f, _d1, n1) = follower_path(&reqs, &groups)?;
    n1.kill();
    let (dump_f1, _d2, n2) = follower_path(&reqs, &[reqs.len()])?;
    n2.kill();
    let (dump_fe, _d3, n3) = follower_path_echo(&reqs, &groups, true)?;
    n3.kill();
    // path S: a node that applied a prefix, compacted, restarted from the snapshot and applied the rest
    if reqs.len() >= 2 {
        let cut = (reqs.len() + 1) / 2;
        let dir_s = tempfile::tempdir()?;
        let ds = dir_s.path().to_string_lossy().into_owned();
        let mut n = NodeProc::start(&ds, 700)?;
        for (j, r) in reqs.iter().enumerate() {
            let idx = j as u64 + 1;
            if let Some(e) = log_and_apply(&mut n, idx, &to_client_request(r, idx))? {
                n.kill();
                return Ok(mismatch(i, j, "apply failed on the snapshot path", json!("ok"), e));
            }
            if j + 1 == cut {
                let r = n.call(&json!({"op":"compact"}))?;
                if r["res"] != "ok" {
                    n.kill();
                    return Ok(mismatch(i, j, "compaction failed on the snapshot path", json!("ok"), r));
                }
                n.stop()?;
                n = NodeProc::start(&ds, 700)?;
            }
        }
        let dump_s = get_dump(&mut n)?;
        n.kill();
        if dump_l != dump_s {
            return Ok(mismatch(i, 0, "leader path and the path of a node restarted from a snapshot midway differ", json!(first_diff(&dump_l, &dump_s)), json!({"compacted_and_restarted_after": cut})));
        }
    }
    if dump_l != dump_fe {
        return Ok(mismatch(i, 0, "leader path and the path of a follower that routed and echoed the publishes differ", json!(first_diff(&dump_l, &dump_fe)), json!({"groups":groups})));
    }
    if dump_l != dump_f {
        return Ok(mismatch(i, 0, "leader path and follower batch path differ", json!(first_diff(&dump_l, &dump_f)), json!({"groups":groups})));
    }
    if dump_l != dump_f1 {
        return Ok(mismatch(i, 0, "leader path and follower single-batch path differ", json!(first_diff(&dump_l, &dump_f1)), json!({"batch":reqs.len()})));
    }
    if dump_l != dump_r {
        return Ok(mismatch(i, 0, "leader path and start-up replay differ", json!(first_diff(&dump_l, &dump_r)), json!("replay")));
    }
    // the specification's state after the last apply step
    if let Some(last) = b["steps"].as_array().unwrap().iter().rev().find(|s| s["op"] == "apply" || s["op"] == "apply_batch") {
        let exp = norm_model(&last["sm"]);
        let got = project(&dump_l);
        if exp != got {
            return Ok(mismatch(i, 0, "leader path differs from the specification", exp.clone(), json!(first_diff(&exp, &got))));
        }
    }
    Ok(ok(i))
}


// ------------------------------------------------------------------------------------------------
// data transfer (export / import): the request kinds an import sends (ConfigFullValue, NamespaceReq::Update,
// McpReq::SetToolSpec / SetServer / ImportFinished, NamingReq::UpdateInstance, TableManagerReq::Set) go through
// the same three apply paths and the same snapshot / replay persistence as everything else (C01, C07)

/// what an export carries, with the ids an import renumbers (history ids, tool versions, server and value ids)
/// replaced by what they identify
fn transfer_canon(dump: &Value) -> Value {
    let p = project(dump);
    let mut cfg = Map::new();
    for (k, v) in as_map(&p["cfg"]) {
        let h: Vec<Value> = v["hist"].as_array().cloned().unwrap_or_default().iter().map(|x| x["content"].clone()).collect();
        cfg.insert(k, json!({"content": v["content"], "ty": v["ty"], "desc": v["desc"], "hist": h}));
    }
    let mut tool = Map::new();
    for (k, v) in as_map(&p["tool"]) {
        let vers = as_map(&v["vers"]);
        let mut vs: Vec<(u64, Value)> = vers.iter().map(|(n, c)| (n.parse().unwrap_or(0), c.clone())).collect();
        vs.sort_by_key(|x| x.0);
        let cur = v["cur"].as_u64().unwrap_or(0);
        let cur_rank = vs.iter().position(|x| x.0 == cur);
        tool.insert(k, json!({"versions": vs.iter().map(|x| x.1.clone()).collect::<Vec<_>>(), "current": cur_rank}));
    }
    let val = |v: &Value| -> Value {
        let ts: Vec<Value> = v["tools"].as_array().cloned().unwrap_or_default().iter().map(|t| json!({"k": t["k"], "c": t["c"]})).collect();
        json!(ts)
    };
    let mut srv: Vec<Value> = vec![];
    for (_, v) in as_map(&p["srv"]) {
        let hist: Vec<Value> = v["hist"].as_array().cloned().unwrap_or_default().iter().map(|h| val(h)).collect();
        srv.push(json!({"name": v["name"], "cur": val(&v["cur"]), "rel": val(&v["rel"]), "hist": hist}));
    }
    srv.sort_by_key(|s| s.to_string());
    json!({"cfg": cfg, "ns": p["ns"], "usr": p["usr"], "nam": p["nam"], "tool": tool, "srv": srv})
}

fn leader_node(dir: &str) -> anyhow::Result<NodeProc> {
    leader_node_opt(dir, false)
}

/// `fresh`: the directory holds nothing worth keeping - wipe it before another attempt
fn leader_node_opt(dir: &str, fresh: bool) -> anyhow::Result<NodeProc> {
    // (a fresh auto-init node can die at start - DESIGN 0.3, observation; wipe and start it again, as tools/cluster.py does)
    let mut last_err = String::new();
    for attempt in 0..4 {
        if fresh && attempt > 0 {
            std::fs::remove_dir_all(dir).ok();
            std::fs::create_dir_all(dir).ok();
        }
        let mut n = match NodeProc::start_env(dir, 700, &[("RNVERIF_LEADER", "1".to_string())]) {
            Ok(n) => n,
            Err(e) => {
                last_err = e.to_string();
                continue;
            }
        };
        let w = n.call(&json!({"op":"wait_leader","ms":12000}))?;
        if w["res"] != "ok" {
            n.kill();
            last_err = format!("no leader: {}", w);
            continue;
        }
        // the node creates its default admin user once it leads; wait until its own writes have settled
        let mut stable = 0;
        let mut last = 0u64;
        for _ in 0..200 {
            let m = n.call(&json!({"op":"raft_metrics"}))?;
            let (la, ll) = (m["last_applied"].as_u64().unwrap_or(0), m["last_log_index"].as_u64().unwrap_or(0));
            let d = get_dump(&mut n)?;
            let has_admin = d["tables"]["T_USER"].get("admin").is_some();
            if la == ll && la == last && has_admin {
                stable += 1;
                if stable >= 6 {
                    break;
                }
            } else {
                stable = 0;
                last = la;
            }
            std::thread::sleep(std::time::Duration::from_millis(100));
        }
        return Ok(n);
    }
    Err(anyhow::anyhow!("single-member node did not start: {}", last_err))
}

/// mode c01: the importing node's state must survive a restart (log replay of the import entries) and a
///           compaction + restart (snapshot); mode c07: the import entries through the follower path on a
///           third node give the same state.  The round trip itself (exported == imported) is reported as a
///           note: it is not one of the listed properties.
fn run_transfer(i: usize, b: &Value, c07: bool) -> anyhow::Result<Value> {
    let (reqs, _groups) = sequence_of(b);
    if reqs.is_empty() {
        return Ok(ok(i));
    }
    // source node A (dormant Raft): the behaviour's requests, then the export
    let dir_a = tempfile::tempdir()?;
    let da = dir_a.path().to_string_lossy().into_owned();
    let mut a = NodeProc::start(&da, 700)?;
    for (j, r) in reqs.iter().enumerate() {
        let idx = j as u64 + 1;
        if let Some(e) = log_and_apply(&mut a, idx, &to_client_request(r, idx))? {
            a.kill();
            return Ok(mismatch(i, j, "apply failed on the exporting node", json!("ok"), e));
        }
    }
    let dump_a = get_dump(&mut a)?;
    let ex = a.call(&json!({"op":"transfer_export"}))?;
    a.kill();
    if ex["res"] != "ok" || ex["len"].as_u64().unwrap_or(0) == 0 {
        return Err(anyhow::anyhow!("export failed: {}", ex.to_string().chars().take(200).collect::<String>()));
    }
    // target node B: a real single-member Raft group (the importer writes through Raft)
    let dir_b = tempfile::tempdir()?;
    let db = dir_b.path().to_string_lossy().into_owned();
    let mut bn = leader_node_opt(&db, true)?;
    let im = bn.call(&json!({"op":"transfer_import","hex":ex["hex"]}))?;
    if im["res"] != "ok" {
        bn.kill();
        return Ok(mismatch(i, 0, "import did not finish", json!("ok"), im));
    }
    let dump_b = get_dump(&mut bn)?;
    let mut notes = vec![];
    let (ca, cb) = (transfer_canon(&dump_a), transfer_canon(&dump_b));
    if ca != cb {
        for part in ["cfg", "ns", "usr", "nam", "tool", "srv"] {
            if ca[part] != cb[part] {
                notes.push(json!({"round_trip_differs": part, "exported": ca[part], "imported": cb[part]}));
            }
        }
    }
    let last = im["last_log_index"].as_u64().unwrap_or(0);
    let entries = bn.call(&json!({"op":"read_reqs","a":1,"b":last + 1}))?;
    let imported_reqs: Vec<Value> = entries["entries"].as_array().cloned().unwrap_or_default().into_iter().filter(|e| !e["req"].is_null()).collect();
    let kinds: std::collections::BTreeSet<String> = imported_reqs.iter().map(|e| {
        let o = e["req"].as_object().unwrap();
        let k = o.keys().next().cloned().unwrap_or_default();
        match &o[&k] {
            Value::Object(inner) if k == "McpReq" || k == "NamingReq" || k == "SequenceReq" => {
                let r = &inner["req"];
                let sub = r.as_object().and_then(|x| x.keys().next().cloned()).or(r.as_str().map(|s| s.to_string())).unwrap_or_default();
                format!("{}::{}", k, sub)
            }
            Value::Object(inner) if k == "NamespaceReq" || k == "TableManagerReq" => format!("{}::{}", k, inner.keys().next().cloned().unwrap_or_default()),
            _ => k,
        }
    }).collect();
    if !c07 {
        // C01: restart (replay of the import entries), then compaction + restart (snapshot)
        bn.stop()?;
        let mut b2 = leader_node(&db)?;
        let d2 = get_dump(&mut b2)?;
        if d2 != dump_b {
            b2.kill();
            return Ok(mismatch(i, 0, "imported state differs after restart", json!(first_diff(&dump_b, &d2)), json!({"request_kinds": kinds})));
        }
        let r = b2.call(&json!({"op":"compact"}))?;
        if r["res"] != "ok" {
            b2.kill();
            return Ok(mismatch(i, 0, "compaction of the importing node failed", json!("ok"), r));
        }
        b2.stop()?;
        let mut b3 = leader_node(&db)?;
        let d3 = get_dump(&mut b3)?;
        b3.kill();
        if d3 != dump_b {
            return Ok(mismatch(i, 0, "imported state differs after compaction and restart", json!(first_diff(&dump_b, &d3)), json!({"request_kinds": kinds})));
        }
    } else {
        bn.kill();
        // C07: the same entries through the follower path of a fresh node, in two batches
        let dir_c = tempfile::tempdir()?;
        let dc = dir_c.path().to_string_lossy().into_owned();
        let mut c = NodeProc::start(&dc, 700)?;
        let n = imported_reqs.len();
        let cut = (n + 1) / 2;
        let mut idx = 1u64;
        for part in [&imported_reqs[..cut], &imported_reqs[cut..]] {
            if part.is_empty() {
                continue;
            }
            let mut items = vec![];
            for e in part {
                c.call(&json!({"op":"append_req","index":idx,"term":1,"req":e["req"]}))?;
                items.push(json!({"index": idx, "req": e["req"]}));
                idx += 1;
            }
            let r = c.call(&json!({"op":"apply_batch","items":items}))?;
            if r["res"] != "ok" {
                c.kill();
                return Ok(mismatch(i, 0, "follower path refused the import entries", json!("ok"), r));
            }
        }
        let dump_c = get_dump(&mut c)?;
        c.kill();
        if dump_c != dump_b {
            return Ok(mismatch(i, 0, "import entries: leader path and follower batch path differ", json!(first_diff(&dump_b, &dump_c)), json!({"request_kinds": kinds})));
        }
    }
    let mut r = ok(i);
    r["notes"] = json!(notes);
    r["request_kinds"] = json!(kinds);
    r["exported_bytes"] = ex["len"].clone();
    r["exported_items"] = json!(["cfg", "ns", "usr", "nam", "tool", "srv"].iter().map(|p| ca[*p].as_object().map(|o| o.len()).or(ca[*p].as_array().map(|a| a.len())).unwrap_or(0)).sum::<usize>());
    Ok(r)
}

pub fn replay(args: &[String]) -> anyhow::Result<()> {
    let behaviours = read_ndjson(&args[0])?;
    let jobs = opt_u64(args, "--jobs", 6) as usize;
    let mode = opt(args, "--mode").unwrap_or("c01").to_string();
    let rs = par_map(&behaviours, jobs, |i, b| {
        let r = match mode.as_str() {
            "c07" => run_c07(i, b),
            "transfer_c01" => run_transfer(i, b, false),
            "transfer_c07" => run_transfer(i, b, true),
            _ => run_c01(i, b),
        };
        match r {
            Ok(v) => v,
            Err(e) => json!({"kind":"result","i":i,"ok":true,"tool_error":e.to_string()}),
        }
    });
    let mut failed = 0;
    let mut tool_errors = 0;
    for r in rs {
        if r["ok"] == json!(false) {
            failed += 1;
        }
        if r.get("tool_error").is_some() {
            tool_errors += 1;
        }
        println!("{}", r);
    }
    println!("{}", json!({"kind":"summary","total":behaviours.len(),"failed":failed,"tool_errors":tool_errors,"mode":mode}));
    Ok(())
}

// ------------------------------------------------------------------------------------------------
// code -> spec: seeded random histories (larger alphabets than the model-checking constants)

fn random_model_request(rng: &mut rand::rngs::StdRng, hid: &mut u64) -> Value {
    use rand::prelude::*;
    let ck = ["k1", "k2", "k3", "k4", "k5", "k6"];
    let contents = ["a", "b", "c", "dddddddddd", "e e e", "中文内容", "{\"json\":true}"];
    let ns = ["n1", "n2", "n3"];
    let names = ["x", "y", "z"];
    let uk = ["u1", "u2", "u3"];
    let uv = ["p", "q", "r"];
    let sk = ["s1", "s2", "s3"];
    let ik = ["s1:10.0.0.1:80", "s1:10.0.0.2:80", "s2:10.0.0.1:81", "s3:10.0.0.9:8080"];
    let cak = ["c1", "c2", "c3"];
    let tys = ["", "", "json", "yaml", "text"];
    let dss = ["", "", "d1", "描述"];
    let modes = ["", "", "nx", "xx"];
    if rng.gen_range(0..100) < 22 {
        return match rng.gen_range(0..100) {
            0..=44 => json!({"t":"nam_set","k":ik.choose(rng).unwrap(),"w":rng.gen_range(2..9),"en":rng.gen_bool(0.7),"upd":rng.gen_bool(0.5)}),
            45..=59 => json!({"t":"nam_del","k":ik.choose(rng).unwrap()}),
            60..=89 => json!({"t":"cch_set","k":cak.choose(rng).unwrap(),"v":contents.choose(rng).unwrap(),"m":modes.choose(rng).unwrap()}),
            _ => json!({"t":"cch_del","k":cak.choose(rng).unwrap()}),
        };
    }
    match rng.gen_range(0..100) {
        0..=39 => {
            *hid += 1;
            json!({"t":"cfg_set","k":ck.choose(rng).unwrap(),"v":contents.choose(rng).unwrap(),"hid":*hid,"ty":tys.choose(rng).unwrap(),"ds":dss.choose(rng).unwrap()})
        }
        40..=49 => json!({"t":"cfg_del","k":ck.choose(rng).unwrap()}),
        50..=54 => json!({"t":"ns_set","k":ns.choose(rng).unwrap(),"v":names.choose(rng).unwrap()}),
        55..=57 => json!({"t":"ns_upd","k":ns.choose(rng).unwrap(),"v":names.choose(rng).unwrap()}),
        58..=61 => json!({"t":"ns_del","k":ns.choose(rng).unwrap()}),
        62..=71 => json!({"t":"usr_set","k":uk.choose(rng).unwrap(),"v":uv.choose(rng).unwrap()}),
        72..=76 => json!({"t":"usr_del","k":uk.choose(rng).unwrap()}),
        77..=88 => json!({"t":"seq_next","k":sk.choose(rng).unwrap()}),
        89..=94 => json!({"t":"seq_range","k":sk.choose(rng).unwrap(),"n":rng.gen_range(2..50)}),
        95..=97 => json!({"t":"seq_set","k":sk.choose(rng).unwrap(),"n":rng.gen_range(1..1000)}),
        _ => json!({"t":"seq_del","k":sk.choose(rng).unwrap()}),
    }
}

/// `record sm <out.ndjson> --seed S --ops N [--c07 1]`
/// One node driven through the leader path with compactions and restarts at random places; events
/// `apply` (model-form request) / `compact` / `restart` / `state` (projection of the served state).
/// With --c07 the same sequence is also pushed through the follower path in ONE batch and in random
/// batches on fresh nodes and through start-up replay; a `paths` event reports whether all dumps agree.
pub fn record(args: &[String]) -> anyhow::Result<()> {
    use rand::prelude::*;
    use std::io::Write;
    let out_path = &args[0];
    let seed = opt_u64(args, "--seed", 1);
    let nops = opt_u64(args, "--ops", 60) as usize;
    let c07 = opt_u64(args, "--c07", 0) == 1;
    let mut rng = StdRng::seed_from_u64(seed);
    let mut out = std::io::BufWriter::new(std::fs::File::create(out_path)?);
    let dir = tempfile::tempdir()?;
    let d = dir.path().to_string_lossy().into_owned();
    let mut node = NodeProc::start(&d, 700)?;
    let mut hid = 0u64;
    let mut idx = 0u64;
    let mut reqs: Vec<Value> = vec![];
    let mut last_compact = 0u64;
    writeln!(out, "{}", json!({"event":"reset"}))?;
    for _ in 0..nops {
        let c = rng.gen_range(0..100);
        if c < 86 || idx == 0 {
            let r = random_model_request(&mut rng, &mut hid);
            idx += 1;
            if let Some(e) = log_and_apply(&mut node, idx, &to_client_request(&r, idx))? {
                writeln!(out, "{}", json!({"event":"error","what":e}))?;
                break;
            }
            reqs.push(r.clone());
            writeln!(out, "{}", json!({"event":"apply","index":idx,"req":r}))?;
        } else if c < 93 && !c07 {
            if idx > last_compact {
                let r = node.call(&json!({"op":"compact"}))?;
                last_compact = idx;
                writeln!(out, "{}", json!({"event":"compact","res":r["res"],"index":r["index"],"applied":idx}))?;
            }
        } else if !c07 {
            node.stop()?;
            node = NodeProc::start(&d, 700)?;
            writeln!(out, "{}", json!({"event":"restart"}))?;
        }
        if rng.gen_bool(0.35) {
            let p = project(&get_dump(&mut node)?);
            writeln!(out, "{}", json!({"event":"state","sm":p}))?;
        }
    }
    let dump_l = get_dump(&mut node)?;
    writeln!(out, "{}", json!({"event":"state","sm":project(&dump_l)}))?;
    if c07 {
        node.stop()?;
        let mut replayed = NodeProc::start(&d, 700)?;
        let dump_r = get_dump(&mut replayed)?;
        replayed.kill();
        let (dump_one, _d1, n1) = follower_path(&reqs, &[reqs.len()])?;
        n1.kill();
        let mut groups = vec![];
        let mut left = reqs.len();
        while left > 0 {
            let g = std::cmp::min(left, *[1usize, 2, 3, 5, 17, 20, 40].choose(&mut rng).unwrap());
            groups.push(g);
            left -= g;
        }
        let (dump_g, _d2, n2) = follower_path(&reqs, &groups)?;
        n2.kill();
        let mut diffs = vec![];
        if dump_l != dump_r { diffs.push(json!({"paths":"leader vs start-up replay","diff":first_diff(&dump_l,&dump_r)})); }
        if dump_l != dump_one { diffs.push(json!({"paths":"leader vs follower single batch","diff":first_diff(&dump_l,&dump_one),"batch":reqs.len()})); }
        if dump_l != dump_g { diffs.push(json!({"paths":"leader vs follower batches","diff":first_diff(&dump_l,&dump_g),"groups":groups})); }
        writeln!(out, "{}", json!({"event":"paths","agree":diffs.is_empty(),"diffs":diffs,"requests":reqs.len()}))?;
    } else {
        node.kill();
    }
    out.flush()?;
    println!("{}", json!({"kind":"summary","requests":reqs.len()}));
    Ok(())
}
