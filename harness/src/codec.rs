//! C20: MessageBufReader / varint functions against Codec.tla.
use crate::util::*;
use rand::prelude::*;
use rnacos::common::protobuf_utils::{
    inner_sizeof_varint, read_varint64, write_varint64, MessageBufReader,
};
use serde_json::{json, Value};
use std::io::Write;

/// Real bytes of one record whose TOTAL encoded length (prefix + body) is `total`.
/// body bytes are 0x00 when `zero_body`, else a non-zero pattern.
pub fn record_bytes(total: usize, zero_body: bool, tag: u8) -> Vec<u8> {
    // find body length b with sizeof_varint(b) + b == total
    let mut b = total - 1;
    while inner_sizeof_varint(b as u64) + b > total {
        b -= 1;
    }
    assert!(inner_sizeof_varint(b as u64) + b == total, "unencodable total {}", total);
    let mut v = write_varint64(b as u64);
    let fill = if zero_body { 0u8 } else { 0x40 | (tag & 0x3f) | 1 };
    v.extend(std::iter::repeat(fill).take(b));
    v
}

/// lengths that cannot be hit exactly (prefix grows by one byte): total such that no b fits
pub fn encodable(total: usize) -> bool {
    if total < 2 {
        return false;
    }
    let mut b = total - 1;
    while inner_sizeof_varint(b as u64) + b > total {
        b -= 1;
    }
    inner_sizeof_varint(b as u64) + b == total
}

struct Stream {
    recs: Vec<Vec<u8>>,
    bytes: Vec<u8>,
}

fn build_stream(lens: &[(usize, bool)], zeros: usize) -> Stream {
    let mut recs = vec![];
    let mut bytes = vec![];
    for (i, (l, zb)) in lens.iter().enumerate() {
        let r = record_bytes(*l, *zb, i as u8);
        bytes.extend_from_slice(&r);
        recs.push(r);
    }
    bytes.extend(std::iter::repeat(0u8).take(zeros));
    Stream { recs, bytes }
}

/// spec -> code: behaviours produced by TLC from Codec.tla, with `--unit U` real bytes per cell.
pub fn replay(args: &[String]) -> anyhow::Result<()> {
    let file = &args[0];
    let unit = opt_u64(args, "--unit", 1) as usize;
    let behaviours = read_ndjson(file)?;
    let mut failed = 0;
    let mut nontrivial = 0;
    let out = std::io::stdout();
    let rt = tokio::runtime::Builder::new_current_thread().enable_all().build()?;
    for (i, b) in behaviours.iter().enumerate() {
        let lens: Vec<(usize, bool)> = b["stream"]
            .as_array()
            .map(|a| {
                a.iter()
                    .map(|r| (r["len"].as_u64().unwrap() as usize * unit, r["zb"].as_bool().unwrap()))
                    .collect()
            })
            .unwrap_or_default();
        let zeros = b["zeros"].as_u64().unwrap_or(0) as usize * unit;
        let st = build_stream(&lens, zeros);
        let steps = b["steps"].as_array().cloned().unwrap_or_default();
        let res = std::panic::catch_unwind(|| run_behaviour(i, &st, &steps, unit));
        let mut v = match res {
            Ok(v) => v,
            Err(_) => mismatch(i, 0, "panic in code under test", json!("no panic"), json!("panic")),
        };
        // the same stream through the FILE reader (FileMessageReader: catalogue file, transfer files, record positions in log
        // files): every record, in order, nothing dropped at the end of the file, and the same count by positions
        if v["ok"] == json!(true) {
            if let Some(m) = rt.block_on(file_reader_leg(i, &st)) {
                v = m;
            }
        }
        if v["ok"] == json!(false) {
            failed += 1;
        }
        if steps.iter().any(|s| s["op"] == "next" && s["rec"].as_u64().unwrap_or(0) > 0) {
            nontrivial += 1;
        }
        writeln!(out.lock(), "{}", v)?;
    }
    println!(
        "{}",
        json!({"kind":"summary","total":behaviours.len(),"failed":failed,"nontrivial":nontrivial,"unit":unit})
    );
    Ok(())
}

async fn file_reader_leg(i: usize, st: &Stream) -> Option<Value> {
    use rnacos::common::protobuf_utils::FileMessageReader;
    let dir = tempfile::tempdir().ok()?;
    let path = dir.path().join("stream");
    std::fs::write(&path, &st.bytes).ok()?;
    let f = tokio::fs::File::open(&path).await.ok()?;
    let mut rd = FileMessageReader::new(f, 0);
    let mut got: Vec<Vec<u8>> = vec![];
    while got.len() <= st.recs.len() + 1 {
        match rd.read_next().await {
            Ok(r) => got.push(r),
            Err(_) => break,
        }
    }
    if got != st.recs {
        let lens = |v: &Vec<Vec<u8>>| v.iter().map(|r| r.len()).collect::<Vec<_>>();
        return Some(mismatch(i, 0, "file reader (FileMessageReader::read_next): records differ from the stream that was written",
            json!({"records": st.recs.len(), "lengths": lens(&st.recs)}), json!({"records": got.len(), "lengths": lens(&got)})));
    }
    let f = tokio::fs::File::open(&path).await.ok()?;
    let mut rd = FileMessageReader::new(f, 0);
    if let Ok((count, _)) = rd.read_to_end().await {
        if count as usize != st.recs.len() {
            return Some(mismatch(i, 0, "file reader (FileMessageReader::read_to_end): record count differs", json!(st.recs.len()), json!(count)));
        }
    }
    None
}

fn run_behaviour(i: usize, st: &Stream, steps: &[Value], unit: usize) -> Value {
    let mut reader = MessageBufReader::new();
    let mut fed = 0usize;
    for (k, s) in steps.iter().enumerate() {
        let exp_empty = s["empty"].as_bool().unwrap();
        match s["op"].as_str().unwrap() {
            "feed" => {
                let n = s["n"].as_u64().unwrap() as usize * unit;
                reader.append_next_buf(&st.bytes[fed..fed + n]);
                fed += n;
            }
            "next" => {
                let exp = s["rec"].as_u64().unwrap() as usize;
                let got = reader.next_message_vec().map(|v| v.to_vec());
                match (exp, got) {
                    (0, None) => {}
                    (0, Some(g)) => {
                        return mismatch(i, k, "next returned a record, none expected", json!(null), json!(g.len()))
                    }
                    (e, None) => {
                        return mismatch(i, k, "next returned none, record expected", json!(e), json!(null))
                    }
                    (e, Some(g)) => {
                        if g != st.recs[e - 1] {
                            return mismatch(i, k, "next returned different bytes", json!({"rec":e,"len":st.recs[e-1].len()}), json!({"len":g.len()}));
                        }
                    }
                }
            }
            _ => {}
        }
        let got_empty = reader.is_empty();
        if got_empty != exp_empty {
            return mismatch(i, k, "is_empty", json!(exp_empty), json!(got_empty));
        }
    }
    ok(i)
}

/// spec -> code: varint digit patterns (least significant first, digits in {0,1,"m"}; "m" = base-1)
/// from the Varint part of the spec.
pub fn replay_varint(args: &[String]) -> anyhow::Result<()> {
    let cases = read_ndjson(&args[0])?;
    let mut failed = 0;
    let mut total = 0;
    for (i, c) in cases.iter().enumerate() {
        // digits: array of ints 0..=2 meaning 0,1,127 ; most significant digit non-zero
        let digits: Vec<u64> = c["digits"].as_array().unwrap().iter().map(|d| match d.as_u64().unwrap() { 0 => 0, 1 => 1, _ => 127 }).collect();
        let width = c["width"].as_u64().unwrap() as usize;
        let mut v: u128 = 0;
        for (k, d) in digits.iter().enumerate() {
            v |= (*d as u128) << (7 * k);
        }
        if v > u64::MAX as u128 {
            continue; // outside the u64 domain (10th digit > 1)
        }
        let v = v as u64;
        total += 1;
        let enc = write_varint64(v);
        let size = inner_sizeof_varint(v);
        let mut padded = enc.clone();
        padded.extend_from_slice(&[0u8; 12]);
        let dec = catch(move || read_varint64(&padded).ok());
        let good = enc.len() == width && size == width && dec == Ok(Some(v));
        if !good {
            failed += 1;
            println!("{}", mismatch(i, 0, "varint write/size/read disagree", json!({"value":v.to_string(),"width":width}),
                json!({"enc_len":enc.len(),"size":size,"dec":format!("{:?}",dec)})));
        }
    }
    println!("{}", json!({"kind":"summary","total":total,"failed":failed,"nontrivial":total}));
    Ok(())
}

/// code -> spec: seeded random streams with boundary-biased native lengths and random chunkings;
/// one trace (ndjson) with `reset` events separating streams, validated by Trace_Codec.tla.
pub fn record(args: &[String]) -> anyhow::Result<()> {
    let out_path = &args[0];
    let seed = opt_u64(args, "--seed", 1);
    let n_streams = opt_u64(args, "--streams", 40) as usize;
    let mut rng = StdRng::seed_from_u64(seed);
    let mut out = std::io::BufWriter::new(std::fs::File::create(out_path)?);
    let boundary: Vec<usize> = vec![2, 3, 127, 128, 129, 130, 131, 255, 256, 512, 1022, 1023, 1024, 1025, 1026, 2048, 3000, 16383, 16384, 16385, 16386, 16387, 16388, 20000];
    let mut events = 0usize;
    for s in 0..n_streams {
        let nrec = rng.gen_range(0..7);
        let mut lens = vec![];
        for _ in 0..nrec {
            let mut l = if rng.gen_bool(0.6) { boundary[rng.gen_range(0..boundary.len())] } else { rng.gen_range(2..1400) };
            while !encodable(l) {
                l += 1;
            }
            lens.push((l, rng.gen_bool(0.3)));
        }
        // sometimes force the stream prefix to end exactly on a 1024 boundary
        if rng.gen_bool(0.4) && !lens.is_empty() {
            let sum: usize = lens.iter().map(|x| x.0).sum();
            let pad = (1024 - sum % 1024) % 1024;
            if pad >= 2 && encodable(pad) {
                lens.push((pad, false));
            }
        }
        let zeros = if rng.gen_bool(0.3) { 0 } else { rng.gen_range(1..40) };
        let st = build_stream(&lens, zeros);
        writeln!(out, "{}", json!({"event":"reset","stream":s,"lens":lens.iter().map(|x| x.0).collect::<Vec<_>>(),"zeros":zeros}))?;
        events += 1;
        let mut reader = MessageBufReader::new();
        let mut fed = 0usize;
        let mut nret = 0usize;
        let total = st.bytes.len();
        let mut idle = 0;
        while idle < 3 {
            let do_feed = fed < total && rng.gen_bool(0.5);
            if do_feed {
                let maxn = std::cmp::min(total - fed, 1024);
                let n = match rng.gen_range(0..4) { 0 => 1, 1 => maxn, 2 => std::cmp::min(maxn, rng.gen_range(1..12)), _ => rng.gen_range(1..=maxn) };
                reader.append_next_buf(&st.bytes[fed..fed + n]);
                fed += n;
                writeln!(out, "{}", json!({"event":"feed","n":n,"empty":reader.is_empty()}))?;
            } else {
                let got = reader.next_message_vec().map(|v| v.to_vec());
                let (rec, matches) = match got {
                    None => (0, true),
                    Some(g) => {
                        nret += 1;
                        (nret, nret <= st.recs.len() && g == st.recs[nret - 1])
                    }
                };
                writeln!(out, "{}", json!({"event":"next","rec":rec,"match":matches,"empty":reader.is_empty()}))?;
                if rec == 0 && fed == total { idle += 1; }
            }
            events += 1;
        }
    }
    out.flush()?;
    println!("{}", json!({"kind":"summary","streams":n_streams,"events":events}));
    Ok(())
}
