//! rnverif — conformance harness binding the TLA+ specifications in /verif/spec
//! to the real `rnacos` crate built from /repo's working tree.
//!
//! Sub-commands (each prints ndjson on stdout; exit 0 unless the tool itself failed):
//!   replay <module> <behaviours.ndjson> [opts]   spec -> code
//!   record <module> <out.ndjson> [opts]          code -> spec (trace for TLC)
mod authz;
mod grpcauth;
mod cfgcenter;
mod codec;
mod decode;
mod echoreplay;
mod front;
mod logfile;
mod meta;
mod node;
mod nsclient;
mod ownership;
mod registry;
mod seq;
mod sm;
mod smreplay;
mod snapinstall;
mod store;
mod util;

fn main() {
    let args: Vec<String> = std::env::args().collect();
    if args.len() < 3 {
        eprintln!("usage: rnverif <replay|record> <module> ...");
        std::process::exit(2);
    }
    let r = match (args[1].as_str(), args[2].as_str()) {
        ("replay", "codec") => codec::replay(&args[3..]),
        ("replay", "varint") => codec::replay_varint(&args[3..]),
        ("record", "codec") => codec::record(&args[3..]),
        ("replay", "logfile") => logfile::replay(&args[3..]),
        ("replay", "store") => store::replay(&args[3..]),
        ("record", "logfile") => logfile::record(&args[3..]),
        ("replay", "sm") => smreplay::replay(&args[3..]),
        ("record", "sm") => smreplay::record(&args[3..]),
        ("replay", "echo") => echoreplay::replay(&args[3..]),
        ("replay", "snapinstall") => snapinstall::replay(&args[3..]),
        ("replay", "cfgcenter") => cfgcenter::replay(&args[3..]),
        ("replay", "registry") => registry::replay(&args[3..]),
        ("record", "registry-many") => registry::many_instances(&args[3..]),
        ("record", "seqgroup") => seq::record_seqgroup(&args[3..]),
        ("record", "seqnode") => seq::record_seqnode(&args[3..]),
        ("replay", "ownership") => ownership::replay(&args[3..]),
        ("authz", _) => authz::main_authz(&args[2..]),
        ("front", _) => front::main_front(&args[2..]),
        ("replay", "meta") => meta::replay(&args[3..]),
        ("decode", "catalogue") => decode::main_decode(&args[3..]),
        ("node", "run") => node::main_node(&args[3..]),
        ("nsclient", _) => nsclient::main_client(&args[2..]),
        _ => Err(anyhow::anyhow!("unknown command {} {}", args[1], args[2])),
    };
    if let Err(e) = r {
        eprintln!("rnverif: tool error: {:?}", e);
        std::process::exit(2);
    }
}
