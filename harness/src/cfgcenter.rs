//! C09 / C10: behaviours of ConfigCenter.tla replayed on a real `ConfigActor` (in-process, no Raft).
//! Every behaviour runs in its own actix system; gRPC notifications are observed through the
//! verif_hooks in-memory trace (so behaviours of one process run one after the other; the driver
//! shards behaviours over child processes).
use crate::util::*;
use actix::prelude::*;
use rnacos::config::config_index::ConfigQueryParam;
use rnacos::config::core::{ConfigActor, ConfigCmd, ConfigKey, ConfigResult, ListenerItem, ListenerResult};
use rnacos::config::dal::ConfigHistoryParam;
use rnacos::config::model::{ConfigHistoryItemDO, ConfigRaftCmd, ConfigValueDO};
use serde_json::{json, Value};
use std::collections::{BTreeMap, BTreeSet, HashMap};
use std::sync::Arc;

const UNIT_MS: i64 = 400;

fn key_of(k: &Value) -> ConfigKey {
    ConfigKey::new(k["d"].as_str().unwrap(), k["g"].as_str().unwrap(), k["t"].as_str().unwrap())
}

/// "t|g|d" -> ConfigKey
fn key_from_str(s: &str) -> ConfigKey {
    let p: Vec<&str> = s.splitn(3, '|').collect();
    ConfigKey::new(p[2], p[1], p[0])
}

fn build_key(k: &ConfigKey) -> String {
    k.build_key()
}

/// (tenant, group, dataId) of a key, through its public string form
fn parts(k: &ConfigKey) -> (String, String, String) {
    let s = k.build_key();
    let p: Vec<&str> = s.split('\u{2}').collect();
    (p.get(2).unwrap_or(&"").to_string(), p.get(1).unwrap_or(&"").to_string(), p.first().unwrap_or(&"").to_string())
}

fn tgd(k: &ConfigKey) -> String {
    let (t, g, d) = parts(k);
    format!("{}|{}|{}", t, g, d)
}

fn set_of(v: &Value) -> BTreeSet<String> {
    v.as_array().map(|a| a.iter().filter_map(|x| x.as_str().map(|s| s.to_string())).collect()).unwrap_or_default()
}

fn items_of(v: &Value) -> Vec<ListenerItem> {
    v.as_object().map(|m| m.iter().map(|(k, md5)| {
        let content = md5.as_str().unwrap_or("");
        let m = if content.is_empty() { String::new() } else { rnacos::utils::get_md5(content) };
        ListenerItem::new(key_from_str(k), Arc::new(m))
    }).collect()).unwrap_or_default()
}

struct Ctx {
    addr: Addr<ConfigActor>,
    rx: HashMap<u64, tokio::sync::oneshot::Receiver<ListenerResult>>,
    seen_keys: BTreeSet<String>,
}

async fn check_obs(i: usize, k: usize, cx: &mut Ctx, s: &Value, paging: bool) -> anyhow::Result<Option<Value>> {
    // ---- long-poll answers
    let mut expected: HashMap<u64, BTreeSet<String>> = HashMap::new();
    for a in s["answered"].as_array().cloned().unwrap_or_default() {
        expected.insert(a["id"].as_u64().unwrap(), set_of(&a["keys"]));
    }
    let ids: Vec<u64> = cx.rx.keys().cloned().collect();
    for id in ids {
        let got = cx.rx.get_mut(&id).unwrap().try_recv();
        match (expected.get(&id), got) {
            (None, Err(tokio::sync::oneshot::error::TryRecvError::Empty)) => {}
            (None, Ok(r)) => {
                let keys: Vec<String> = match r { ListenerResult::DATA(v) => v.iter().map(tgd).collect(), ListenerResult::NULL => vec![] };
                return Ok(Some(mismatch(i, k, "listener answered although nothing it listens to changed", json!(null), json!({"id":id,"keys":keys}))));
            }
            (None, Err(_)) => {
                return Ok(Some(mismatch(i, k, "listener dropped without an answer", json!("pending"), json!({"id":id}))));
            }
            (Some(exp), Ok(r)) => {
                let keys: BTreeSet<String> = match r { ListenerResult::DATA(v) => v.iter().map(tgd).collect(), ListenerResult::NULL => BTreeSet::new() };
                if &keys != exp {
                    return Ok(Some(mismatch(i, k, "listener answered with the wrong keys", json!(exp), json!(keys))));
                }
                cx.rx.remove(&id);
            }
            (Some(exp), Err(tokio::sync::oneshot::error::TryRecvError::Empty)) => {
                if s["op"] == "tick" {
                    // timing: give the heart-beat a generous extra period before calling it a miss
                    tokio::time::sleep(std::time::Duration::from_millis(1500)).await;
                    if cx.rx.get_mut(&id).unwrap().try_recv().is_ok() {
                        cx.rx.remove(&id);
                        continue;
                    }
                    return Ok(Some(mismatch(i, k, "long poll not answered after its timeout", json!({"id":id}), json!("still pending"))));
                }
                return Ok(Some(mismatch(i, k, "change not reported to a waiting listener", json!({"id":id,"keys":exp}), json!("still pending"))));
            }
            (Some(_), Err(_)) => {
                return Ok(Some(mismatch(i, k, "listener dropped without an answer", json!({"id":id}), json!("closed"))));
            }
        }
    }
    // ---- gRPC subscriber notifications emitted by this step
    let events = rnacos::verif_hooks::take_events();
    let mut got_notify: Vec<(String, BTreeSet<String>)> = vec![];
    for e in events {
        if let Ok(v) = serde_json::from_str::<Value>(&e) {
            if v["event"] == "NotifyConfig" {
                // hook key format dataId|group|tenant -> t|g|d
                let p: Vec<&str> = v["key"].as_str().unwrap_or("").splitn(3, '|').collect();
                got_notify.push((format!("{}|{}|{}", p[2], p[1], p[0]), set_of(&v["clients"])));
            }
        }
    }
    let exp_notify: Vec<(String, BTreeSet<String>)> = s["notify"].as_array().cloned().unwrap_or_default().iter().map(|n| (n["key"].as_str().unwrap().to_string(), set_of(&n["clients"]))).collect();
    if got_notify != exp_notify {
        return Ok(Some(mismatch(i, k, "gRPC subscriber notification differs", json!(exp_notify), json!(got_notify))));
    }
    // ---- pending listeners
    let mut exp_pending: Vec<BTreeSet<String>> = s["obs"]["pending"].as_array().cloned().unwrap_or_default().iter().map(|p| set_of(&p["keys"])).collect();
    exp_pending.sort();
    let dump = cx.addr.send(rnacos::verif_hooks::DumpConfigListeners).await?;
    let mut got_pending: Vec<BTreeSet<String>> = dump.iter().map(|(_, keys)| keys.iter().map(|x| { let p: Vec<&str> = x.splitn(3, '|').collect(); format!("{}|{}|{}", p[2], p[1], p[0]) }).collect()).collect();
    got_pending.sort();
    // a listener that was answered for one key stays registered (without sender) under its other keys: compare the set of listeners only
    if got_pending.len() != exp_pending.len() {
        return Ok(Some(mismatch(i, k, "number of pending listeners differs", json!(exp_pending), json!(got_pending))));
    }
    // ---- store: every key ever seen
    let cache = s["obs"]["cache"].as_object().cloned().unwrap_or_default();
    for ks in cache.keys() {
        cx.seen_keys.insert(ks.clone());
    }
    for ks in cx.seen_keys.clone() {
        let key = key_from_str(&ks);
        let got = cx.addr.send(ConfigCmd::GET(key.clone())).await??;
        match (cache.get(&ks), got) {
            (None, ConfigResult::Data { value, .. }) => return Ok(Some(mismatch(i, k, "removed or unknown key is served", json!(null), json!({"key":ks,"content":value.as_str()})))),
            (None, _) => {}
            (Some(_), ConfigResult::NULL) => return Ok(Some(mismatch(i, k, "stored key not found", json!(ks), json!(null)))),
            (Some(exp), ConfigResult::Data { value, md5, config_type, .. }) => {
                if value.as_str() != exp["content"].as_str().unwrap() {
                    return Ok(Some(mismatch(i, k, "content differs (last write must win)", exp["content"].clone(), json!(value.as_str()))));
                }
                if md5.as_str() != rnacos::utils::get_md5(value.as_str()) {
                    return Ok(Some(mismatch(i, k, "md5 does not match content", json!(rnacos::utils::get_md5(value.as_str())), json!(md5.as_str()))));
                }
                let ty = config_type.map(|x| x.as_str().to_string()).unwrap_or_default();
                if ty != exp["ctype"].as_str().unwrap_or("") {
                    return Ok(Some(mismatch(i, k, "config type differs", exp["ctype"].clone(), json!(ty))));
                }
            }
            _ => {}
        }
        // history, newest first, all page windows
        let exp_hist: Vec<(u64, String)> = cache.get(&ks).map(|e| e["hist"].as_array().cloned().unwrap_or_default().iter().map(|h| (h["id"].as_u64().unwrap(), h["content"].as_str().unwrap().to_string())).collect()).unwrap_or_default();
        let n = exp_hist.len();
        let mut newest_first = exp_hist.clone();
        newest_first.reverse();
        for (off, lim) in [(0usize, 1000usize), (0, 1), (1, 1), (1, 2), (n, 3)] {
            let (kt, kg, kd) = parts(&key);
            let hp = ConfigHistoryParam { id: None, data_id: Some(kd), group: Some(kg), tenant: Some(kt), order_by: None, order_by_desc: None, limit: Some(lim as i64), offset: Some(off as i64) };
            if let ConfigResult::ConfigHistoryInfoPage(total, list) = cx.addr.send(ConfigCmd::QueryHistoryPageInfo(Box::new(hp))).await?? {
                let got: Vec<(u64, String)> = list.iter().map(|d| (d.id.unwrap_or(0) as u64, d.content.clone().unwrap_or_default())).collect();
                let exp: Vec<(u64, String)> = newest_first.iter().skip(off).take(lim).cloned().collect();
                if total != n || got != exp {
                    return Ok(Some(mismatch(i, k, "change history differs", json!({"total":n,"page":exp,"offset":off,"limit":lim}), json!({"total":total,"page":got}))));
                }
            }
        }
    }
    // ---- listings: per tenant, every page window and filter
    if paging {
        let mut by_tenant: BTreeMap<String, Vec<(String, String)>> = BTreeMap::new();
        for ks in cx.seen_keys.iter() {
            let key = key_from_str(ks);
            let (kt, kg, kd) = parts(&key);
            by_tenant.entry(kt.clone()).or_default();
            // (a key that only holds an echoed, temporary value is served by a read but not listed yet)
            if cache.get(ks).map(|e| e["listed"] != json!(false)).unwrap_or(false) {
                by_tenant.get_mut(&kt).unwrap().push((kg, kd));
            }
        }
        for (tenant, mut listing) in by_tenant {
            listing.sort();
            let groups: BTreeSet<String> = listing.iter().map(|x| x.0.clone()).collect();
            // (group exact, dataId exact, like group, like dataId)
            let mut filters: Vec<(Option<String>, Option<String>, Option<String>, Option<String>)> = vec![(None, None, None, None), (None, None, Some("g".into()), Some("d".into())), (None, None, None, Some("1".into())), (None, Some("d1".into()), None, None)];
            for g in groups {
                filters.push((Some(g), None, None, None));
            }
            for (fg, fd, lg, ld) in filters {
                let matching: Vec<(String, String)> = listing.iter().filter(|(g, d)| {
                    let gm = if let Some(x) = &fg { x.is_empty() || g == x } else if let Some(x) = &lg { x.is_empty() || g.contains(x.as_str()) } else { true };
                    let dm = if let Some(x) = &fd { x.is_empty() || d == x } else if let Some(x) = &ld { x.is_empty() || d.contains(x.as_str()) } else { true };
                    gm && dm
                }).cloned().collect();
                let n = matching.len();
                for off in 0..=(n + 1) {
                    for lim in 1..=(n + 1) {
                        let param = ConfigQueryParam { tenant: Some(Arc::new(tenant.clone())), group: fg.clone().map(Arc::new), data_id: fd.clone().map(Arc::new), like_group: lg.clone(), like_data_id: ld.clone(), namespace_privilege: Default::default(), query_context: true, offset: off, limit: lim };
                        if let ConfigResult::ConfigInfoPage(total, list) = cx.addr.send(ConfigCmd::QueryPageInfo(Box::new(param))).await?? {
                            let got: Vec<(String, String)> = list.iter().map(|d| (d.group.as_str().to_string(), d.data_id.as_str().to_string())).collect();
                            let exp: Vec<(String, String)> = matching.iter().skip(off).take(lim).cloned().collect();
                            if total != n || got != exp {
                                return Ok(Some(mismatch(i, k, "listing page differs", json!({"tenant":tenant,"filter":[fg,fd,lg,ld],"offset":off,"limit":lim,"total":n,"page":exp}), json!({"total":total,"page":got}))));
                            }
                        }
                    }
                }
            }
        }
    }
    Ok(None)
}

async fn run_one(i: usize, b: Value) -> anyhow::Result<Value> {
    rnacos::verif_hooks::take_events();
    let addr = ConfigActor::new().start();
    let mut cx = Ctx { addr, rx: HashMap::new(), seen_keys: BTreeSet::new() };
    let steps = b["steps"].as_array().cloned().unwrap_or_default();
    let paging = !steps.iter().any(|s| s["op"] == "listen" || s["op"] == "subscribe");
    let t0 = std::time::Instant::now();
    let mut slept_ms: i64 = 0;
    for (k, s) in steps.iter().enumerate() {
        // real clock: a long poll's deadline is model time x 400 ms.  While a short poll is pending, the steps between two
        // ticks must run within a fraction of a unit; when the process fell behind (a loaded machine) the rest of the
        // behaviour says nothing about the code and is abandoned, not judged
        if !cx.rx.is_empty() && t0.elapsed().as_millis() as i64 - slept_ms > UNIT_MS / 2 {
            return Ok(json!({"kind":"result","i":i,"ok":true,"inconclusive":format!("schedule slipped at step {}", k)}));
        }
        match s["op"].as_str().unwrap() {
            "publish" => {
                let key = key_of(&s["k"]);
                let ty = s["ty"].as_str().unwrap_or("");
                if s["echo"] == json!(true) {
                    // this node routed the publish to the leader and echoes the value before the committed entry arrives
                    cx.addr.send(ConfigCmd::SetTmpValue(key_of(&s["k"]), Arc::new(s["v"].as_str().unwrap().to_string()))).await??;
                }
                cx.addr.send(ConfigRaftCmd::ConfigAdd { key: build_key(&key), value: Arc::new(s["v"].as_str().unwrap().to_string()), config_type: if ty.is_empty() { None } else { Some(Arc::new(ty.to_string())) }, desc: None, history_id: s["hid"].as_u64().unwrap(), history_table_id: s["hid"].as_u64(), op_time: 1000 + k as i64, op_user: None }).await??;
            }
            "echo" => {
                // the echo alone: this node routed a publish and serves the value before any committed state arrives
                let key = key_of(&s["k"]);
                cx.addr.send(ConfigCmd::SetTmpValue(key, Arc::new(s["v"].as_str().unwrap().to_string()))).await??;
            }
            "remove" => {
                let key = key_of(&s["k"]);
                cx.addr.send(ConfigRaftCmd::ConfigRemove { key: build_key(&key) }).await??;
            }
            "import" => {
                let key = key_of(&s["k"]);
                let v = s["v"].as_str().unwrap().to_string();
                // the history as the record lists it (it need not end with the record's content)
                let histories: Vec<ConfigHistoryItemDO> = match s["h"].as_array() {
                    Some(h) => h.iter().map(|x| ConfigHistoryItemDO { id: x["id"].as_u64(), content: x["content"].as_str().map(|c| c.to_string()), last_time: Some(1000 + k as i64), op_user: None }).collect(),
                    None => vec![ConfigHistoryItemDO { id: s["hid"].as_u64(), content: Some(v.clone()), last_time: Some(1000 + k as i64), op_user: None }],
                };
                let vdo = ConfigValueDO { content: Some(v.clone()), histories, config_type: None, desc: None };
                cx.addr.send(ConfigRaftCmd::SetFullValue { key, value: vdo.into(), last_id: s["hid"].as_u64() }).await??;
            }
            "listen" => {
                let (tx, rx) = tokio::sync::oneshot::channel();
                let dt = s["dt"].as_i64().unwrap();
                let deadline = if dt == 0 { 0 } else { rnacos::now_millis_i64() + dt * UNIT_MS };
                cx.rx.insert(s["id"].as_u64().unwrap(), rx);
                cx.addr.send(ConfigCmd::LISTENER(items_of(&s["items"]), tx, deadline)).await??;
            }
            "tick" => {
                // (absolute schedule: the tick ends at the model time it stands for)
                slept_ms += s["units"].as_i64().unwrap() * UNIT_MS;
                let el = t0.elapsed().as_millis() as i64;
                if slept_ms > el {
                    tokio::time::sleep(std::time::Duration::from_millis((slept_ms - el) as u64)).await;
                }
            }
            "subscribe" => {
                let r = cx.addr.send(ConfigCmd::Subscribe(items_of(&s["items"]), Arc::new(s["client"].as_str().unwrap().to_string()))).await??;
                let got: BTreeSet<String> = match r { ConfigResult::ChangeKey(v) => v.iter().map(tgd).collect(), _ => BTreeSet::new() };
                if got != set_of(&s["changed"]) {
                    return Ok(mismatch(i, k, "subscribe did not report the keys whose md5 differs", s["changed"].clone(), json!(got)));
                }
            }
            "unsubscribe" => {
                let items: Vec<ListenerItem> = set_of(&s["keys"]).iter().map(|x| ListenerItem::new(key_from_str(x), Arc::new(String::new()))).collect();
                cx.addr.send(ConfigCmd::RemoveSubscribe(items, Arc::new(s["client"].as_str().unwrap().to_string()))).await??;
            }
            "disconnect" => {
                cx.addr.send(ConfigCmd::RemoveSubscribeClient(Arc::new(s["client"].as_str().unwrap().to_string()))).await??;
            }
            _ => {}
        }
        if let Some(m) = check_obs(i, k, &mut cx, s, paging).await? {
            return Ok(m);
        }
    }
    Ok(ok(i))
}

pub fn replay(args: &[String]) -> anyhow::Result<()> {
    let behaviours = read_ndjson(&args[0])?;
    let shards = opt_u64(args, "--shards", 1) as usize;
    if shards > 1 && opt(args, "--shard").is_none() {
        // fan out over child processes (the hook trace is process-global)
        let exe = std::env::current_exe()?;
        let mut children = vec![];
        for sidx in 0..shards {
            let c = std::process::Command::new(&exe).args(["replay", "cfgcenter", &args[0], "--shards", &shards.to_string(), "--shard", &sidx.to_string()]).stdout(std::process::Stdio::piped()).stderr(std::process::Stdio::null()).spawn()?;
            children.push(c);
        }
        let mut failed = 0;
        let mut total = 0;
        for c in children {
            let out = c.wait_with_output()?;
            for line in String::from_utf8_lossy(&out.stdout).lines() {
                if let Ok(v) = serde_json::from_str::<Value>(line) {
                    if v["kind"] == "result" {
                        total += 1;
                        if v["ok"] == json!(false) {
                            failed += 1;
                        }
                        println!("{}", v);
                    }
                }
            }
        }
        println!("{}", json!({"kind":"summary","total":total,"failed":failed}));
        return Ok(());
    }
    let shard = opt_u64(args, "--shard", 0) as usize;
    rnacos::verif_hooks::enable_mem_trace();
    let mut failed = 0;
    let mut total = 0;
    for (i, b) in behaviours.iter().enumerate() {
        if i % shards.max(1) != shard {
            continue;
        }
        total += 1;
        let b2 = b.clone();
        let sys = actix_rt::System::new();
        let r = sys.block_on(async move {
            match run_one(i, b2).await {
                Ok(v) => v,
                Err(e) => json!({"kind":"result","i":i,"ok":true,"tool_error":e.to_string()}),
            }
        });
        if r["ok"] == json!(false) {
            failed += 1;
        }
        println!("{}", r);
    }
    println!("{}", json!({"kind":"summary","total":total,"failed":failed}));
    Ok(())
}
