//! Front-door legs: behaviours of ConfigCenter.tla (C09 / C10, the client-visible part of C06) and of
//! Registry.tla (C12 / C13) replayed through the REAL ENTRY POINTS of a node instead of actor messages:
//! the actix-web application of the main port (in-process service with the real route table and
//! handlers) and the real tonic gRPC services on a loopback port (request/response service and the
//! bi-directional stream that carries server pushes).  The node is a real single-member Raft group, so a
//! publish travels handler -> ConfigRoute -> Raft client_write -> log -> apply -> ConfigActor, and a
//! notification travels ConfigActor -> BiStreamManage -> the connection's stream.
//! What is compared is what a CLIENT sees: status codes, bodies, headers, response payloads, pushes.
use crate::util::*;
use actix_web::dev::{Service, ServiceResponse};
use actix_web::{test, web, App};
use rnacos::common::appdata::AppShareData;
use rnacos::grpc::nacos_proto::bi_request_stream_client::BiRequestStreamClient;
use rnacos::grpc::nacos_proto::bi_request_stream_server::BiRequestStreamServer;
use rnacos::grpc::nacos_proto::request_client::RequestClient;
use rnacos::grpc::nacos_proto::request_server::RequestServer;
use rnacos::grpc::nacos_proto::Payload;
use rnacos::grpc::server::BiRequestStreamServerImpl;
use rnacos::grpc::server::RequestServerImpl;
use rnacos::grpc::PayloadUtils;
use rnacos::web_config::app_config;
use serde_json::{json, Value};
use std::collections::{BTreeMap, BTreeSet, HashMap};
use std::ops::Deref;
use std::rc::Rc;
use std::sync::{Arc, Mutex};

pub struct GrpcConn {
    pub client: RequestClient<tonic::transport::Channel>,
    pub tx: tokio::sync::mpsc::Sender<Payload>,
    /// pushes received on the stream: (payload type, body)
    pub pushes: Arc<Mutex<Vec<(String, Value)>>>,
}

pub async fn start_grpc(app: &Arc<AppShareData>) -> anyhow::Result<u16> {
    let port = { let l = std::net::TcpListener::bind("127.0.0.1:0")?; l.local_addr()?.port() };
    let addr: std::net::SocketAddr = format!("127.0.0.1:{}", port).parse()?;
    let invoker = crate::grpcauth::invoker(app);
    let request_server = RequestServerImpl::new(app.clone(), invoker);
    let bi_server = BiRequestStreamServerImpl::new(app.clone());
    tokio::spawn(async move {
        tonic::transport::Server::builder().add_service(RequestServer::new(request_server)).add_service(BiRequestStreamServer::new(bi_server)).serve(addr).await.ok();
    });
    for _ in 0..100 {
        if tonic::transport::Endpoint::from_shared(format!("http://127.0.0.1:{}", port))?.connect().await.is_ok() {
            return Ok(port);
        }
        tokio::time::sleep(std::time::Duration::from_millis(50)).await;
    }
    Err(anyhow::anyhow!("gRPC server did not start"))
}

/// one SDK-like connection: channel, bi-stream set up, pushes collected (and acknowledged as the SDK does)
pub async fn connect(port: u16, tenant: &str) -> anyhow::Result<GrpcConn> {
    connect_opt(port, tenant, None).await
}

/// `gate`: a SLOW subscriber - the bi-stream gets an HTTP/2 window of a few hundred bytes and is not read until the gate
/// opens, so the server's pushes pile up in the connection's queue (capacity 10 in the product) and behind it
pub async fn connect_opt(port: u16, tenant: &str, gate: Option<Arc<tokio::sync::Notify>>) -> anyhow::Result<GrpcConn> {
    let mut ep = tonic::transport::Endpoint::from_shared(format!("http://127.0.0.1:{}", port))?;
    if gate.is_some() {
        ep = ep.initial_stream_window_size(Some(300u32));
    }
    let channel = ep.connect().await?;
    let mut client = RequestClient::new(channel.clone());
    let mut bi = BiRequestStreamClient::new(channel.clone());
    let (tx, rx) = tokio::sync::mpsc::channel::<Payload>(64);
    let outbound = tokio_stream::wrappers::ReceiverStream::new(rx);
    let mut inbound = bi.request_bi_stream(tonic::Request::new(outbound)).await?.into_inner();
    tx.send(PayloadUtils::build_payload("ConnectionSetupRequest", json!({"clientVersion":"Nacos-Java-Client:v2.1.0","tenant":tenant,"labels":{}}).to_string())).await.ok();
    let pushes: Arc<Mutex<Vec<(String, Value)>>> = Arc::new(Mutex::new(vec![]));
    let p2 = pushes.clone();
    tokio::spawn(async move {
        if let Some(g) = gate {
            g.notified().await;
        }
        while let Ok(Some(p)) = inbound.message().await {
            let t = PayloadUtils::get_payload_type(&p).map(|s| s.to_string()).unwrap_or_default();
            let text = String::from_utf8_lossy(&p.body.map(|b| b.value).unwrap_or_default()).to_string();
            let v: Value = serde_json::from_str(&text).unwrap_or(Value::Null);
            p2.lock().unwrap().push((t, v));
        }
    });
    for _ in 0..60 {
        tokio::time::sleep(std::time::Duration::from_millis(25)).await;
        let hc = client.request(tonic::Request::new(PayloadUtils::build_payload("HealthCheckRequest", "{}".to_string()))).await?.into_inner();
        if PayloadUtils::get_payload_type(&hc).map(|t| t.as_str() == "HealthCheckResponse").unwrap_or(false) {
            return Ok(GrpcConn { client, tx, pushes });
        }
    }
    Err(anyhow::anyhow!("bi-stream connection did not become active"))
}

pub async fn grpc_call(c: &mut GrpcConn, t: &str, body: Value) -> anyhow::Result<(String, Value)> {
    let resp = tokio::time::timeout(std::time::Duration::from_millis(8000), c.client.request(tonic::Request::new(PayloadUtils::build_payload(t, body.to_string())))).await;
    match resp {
        Ok(Ok(p)) => {
            let p = p.into_inner();
            let rtype = PayloadUtils::get_payload_type(&p).map(|s| s.to_string()).unwrap_or_default();
            let text = String::from_utf8_lossy(&p.body.map(|b| b.value).unwrap_or_default()).to_string();
            Ok((rtype, serde_json::from_str(&text).unwrap_or(Value::Null)))
        }
        Ok(Err(st)) => Ok(("transport_error".to_string(), json!(st.to_string()))),
        Err(_) => Ok(("timeout".to_string(), Value::Null)),
    }
}

pub struct HttpAnswer {
    pub status: u16,
    pub headers: HashMap<String, String>,
    pub body: Vec<u8>,
}

pub async fn http<S, B>(svc: &S, req: actix_http::Request) -> HttpAnswer
where
    S: Service<actix_http::Request, Response = ServiceResponse<B>, Error = actix_web::Error>,
    B: actix_web::body::MessageBody,
{
    match svc.call(req).await {
        Ok(resp) => {
            let status = resp.status().as_u16();
            let headers = resp.headers().iter().map(|(k, v)| (k.as_str().to_lowercase(), v.to_str().unwrap_or("").to_string())).collect();
            let body = test::read_body(resp).await.to_vec();
            HttpAnswer { status, headers, body }
        }
        Err(e) => {
            let r = e.error_response();
            HttpAnswer { status: r.status().as_u16(), headers: HashMap::new(), body: vec![] }
        }
    }
}

fn enc(s: &str) -> String {
    let mut o = String::new();
    for b in s.bytes() {
        if b.is_ascii_alphanumeric() || b == b'-' || b == b'_' || b == b'.' {
            o.push(b as char);
        } else {
            o.push_str(&format!("%{:02X}", b));
        }
    }
    o
}

fn pct_decode(s: &str) -> Vec<u8> {
    let b = s.as_bytes();
    let mut o = vec![];
    let mut i = 0;
    while i < b.len() {
        if b[i] == b'%' && i + 2 < b.len() {
            if let Ok(x) = u8::from_str_radix(&s[i + 1..i + 3], 16) {
                o.push(x);
                i += 3;
                continue;
            }
        }
        o.push(if b[i] == b'+' { b' ' } else { b[i] });
        i += 1;
    }
    o
}

/// "t|g|d" -> (tenant, group, dataId)
fn tgd(s: &str) -> (String, String, String) {
    let p: Vec<&str> = s.splitn(3, '|').collect();
    (p[0].to_string(), p[1].to_string(), p[2].to_string())
}

fn norm_tenant(t: &str) -> String {
    if t == "public" { String::new() } else { t.to_string() }
}

fn set_of(v: &Value) -> BTreeSet<String> {
    v.as_array().map(|a| a.iter().filter_map(|x| x.as_str().map(|s| s.to_string())).collect()).unwrap_or_default()
}

/// how the default namespace is spelled in a request, varied deterministically
fn spell_tenant(t: &str, n: usize) -> Option<String> {
    if t.is_empty() {
        match n % 3 { 0 => None, 1 => Some(String::new()), _ => Some("public".to_string()) }
    } else {
        Some(t.to_string())
    }
}

fn q_tenant(t: &str, n: usize) -> String {
    match spell_tenant(t, n) { None => String::new(), Some(x) => format!("&tenant={}", enc(&x)) }
}

fn media_of(ty: &str) -> &'static str {
    match ty { "json" => "application/json", "xml" => "application/xml", "html" => "text/html", _ => "text/plain" }
}

struct Poll {
    handle: tokio::task::JoinHandle<()>,
    result: Rc<std::cell::RefCell<Option<(u16, BTreeSet<String>)>>>,
}

/// body of a long-poll answer -> set of "t|g|d"
fn decode_listener_answer(body: &[u8]) -> BTreeSet<String> {
    let text = String::from_utf8_lossy(body).to_string();
    let raw = pct_decode(text.trim());
    let mut out = BTreeSet::new();
    for item in raw.split(|b| *b == 1u8) {
        if item.is_empty() {
            continue;
        }
        let parts: Vec<String> = item.split(|b| *b == 2u8).map(|x| String::from_utf8_lossy(x).to_string()).collect();
        let d = parts.first().cloned().unwrap_or_default();
        let g = parts.get(1).cloned().unwrap_or_default();
        let t = norm_tenant(&parts.get(2).cloned().unwrap_or_default());
        out.insert(format!("{}|{}|{}", t, g, d));
    }
    out
}

async fn run_config_behaviour<S, B>(i: usize, b: &Value, app: &Arc<AppShareData>, svc: &Rc<S>, port: u16) -> anyhow::Result<Value>
where
    S: Service<actix_http::Request, Response = ServiceResponse<B>, Error = actix_web::Error> + 'static,
    S::Future: 'static,
    B: actix_web::body::MessageBody + 'static,
{
    let steps = b["steps"].as_array().cloned().unwrap_or_default();
    let mut seen: BTreeSet<String> = BTreeSet::new();
    let mut polls: HashMap<u64, Poll> = HashMap::new();
    let mut conns: HashMap<String, GrpcConn> = HashMap::new();
    let mut reader = connect(port, "").await?;
    let mut result = ok(i);
    'steps: for (k, s) in steps.iter().enumerate() {
        let op = s["op"].as_str().unwrap_or("");
        let via_grpc = (i + k) % 2 == 1;
        match op {
            "publish" | "remove" => {
                let (t, g, d) = tgd(s["key"].as_str().unwrap());
                if op == "publish" {
                    let v = s["v"].as_str().unwrap();
                    let ty = s["ty"].as_str().unwrap_or("");
                    if via_grpc {
                        let mut add = serde_json::Map::new();
                        if !ty.is_empty() { add.insert("type".into(), json!(ty)); }
                        let (rt, body) = grpc_call(&mut reader, "ConfigPublishRequest", json!({"dataId":d,"group":g,"tenant":spell_tenant(&t, k).unwrap_or_default(),"content":v,"additionMap":add})).await?;
                        if rt != "ConfigPublishResponse" || body["resultCode"].as_u64() != Some(200) {
                            result = mismatch(i, k, "gRPC publish on a healthy single-member node was not acknowledged", json!("ConfigPublishResponse 200"), json!([rt, body]));
                            break 'steps;
                        }
                    } else {
                        let mut form = format!("dataId={}&group={}&content={}", enc(&d), enc(&g), enc(v));
                        if let Some(x) = spell_tenant(&t, k) { form.push_str(&format!("&tenant={}", enc(&x))); }
                        if !ty.is_empty() { form.push_str(&format!("&type={}", ty)); }
                        let req = if k % 2 == 0 { test::TestRequest::post() } else { test::TestRequest::put() };
                        let a = http(svc.deref(), req.uri("/nacos/v1/cs/configs").insert_header(("Content-Type", "application/x-www-form-urlencoded")).set_payload(form).to_request()).await;
                        if a.status != 200 || a.body != b"true" {
                            result = mismatch(i, k, "HTTP publish on a healthy single-member node was not acknowledged", json!("200 true"), json!([a.status, String::from_utf8_lossy(&a.body)]));
                            break 'steps;
                        }
                    }
                } else if via_grpc {
                    let (rt, body) = grpc_call(&mut reader, "ConfigRemoveRequest", json!({"dataId":d,"group":g,"tenant":spell_tenant(&t, k).unwrap_or_default()})).await?;
                    if rt != "ConfigRemoveResponse" || body["resultCode"].as_u64() != Some(200) {
                        result = mismatch(i, k, "gRPC remove was not acknowledged", json!("ConfigRemoveResponse 200"), json!([rt, body]));
                        break 'steps;
                    }
                } else {
                    let a = http(svc.deref(), test::TestRequest::delete().uri(&format!("/nacos/v1/cs/configs?dataId={}&group={}{}", enc(&d), enc(&g), q_tenant(&t, k))).to_request()).await;
                    if a.status != 200 || a.body != b"true" {
                        result = mismatch(i, k, "HTTP remove was not acknowledged", json!("200 true"), json!([a.status, String::from_utf8_lossy(&a.body)]));
                        break 'steps;
                    }
                }
            }
            "listen" => {
                let id = s["id"].as_u64().unwrap();
                let mut cfgs = String::new();
                for (ks, held) in s["items"].as_object().cloned().unwrap_or_default() {
                    let (t, g, d) = tgd(&ks);
                    let content = held.as_str().unwrap_or("");
                    let md5 = if content.is_empty() { String::new() } else { rnacos::utils::get_md5(content) };
                    cfgs.push_str(&d); cfgs.push('\u{2}'); cfgs.push_str(&g); cfgs.push('\u{2}'); cfgs.push_str(&md5);
                    if !t.is_empty() || k % 2 == 0 { cfgs.push('\u{2}'); cfgs.push_str(&spell_tenant(&t, k + 1).unwrap_or_default()); }
                    cfgs.push('\u{1}');
                }
                let mut req = test::TestRequest::post().uri("/nacos/v1/cs/configs/listener").insert_header(("Content-Type", "application/x-www-form-urlencoded")).set_payload(format!("Listening-Configs={}", enc(&cfgs)));
                if s["dt"].as_i64().unwrap_or(0) != 0 {
                    req = req.insert_header(("Long-Pulling-Timeout", "30000"));
                }
                let fut = svc.call(req.to_request());
                let cell = Rc::new(std::cell::RefCell::new(None));
                let c2 = cell.clone();
                let handle = actix_rt::spawn(async move {
                    if let Ok(resp) = fut.await {
                        let st = resp.status().as_u16();
                        let body = test::read_body(resp).await.to_vec();
                        *c2.borrow_mut() = Some((st, decode_listener_answer(&body)));
                    }
                });
                polls.insert(id, Poll { handle, result: cell });
            }
            "tick" => {
                tokio::time::sleep(std::time::Duration::from_millis(120)).await;
            }
            "subscribe" | "unsubscribe" => {
                let c = s["client"].as_str().unwrap().to_string();
                if !conns.contains_key(&c) {
                    conns.insert(c.clone(), connect(port, if k % 2 == 0 { "" } else { "public" }).await?);
                }
                let conn = conns.get_mut(&c).unwrap();
                let ctx: Vec<Value> = if op == "subscribe" {
                    s["items"].as_object().cloned().unwrap_or_default().iter().map(|(ks, held)| {
                        let (t, g, d) = tgd(ks);
                        let content = held.as_str().unwrap_or("");
                        let md5 = if content.is_empty() { String::new() } else { rnacos::utils::get_md5(content) };
                        json!({"dataId":d,"group":g,"tenant":spell_tenant(&t, k).unwrap_or_default(),"md5":md5})
                    }).collect()
                } else {
                    set_of(&s["keys"]).iter().map(|ks| { let (t, g, d) = tgd(ks); json!({"dataId":d,"group":g,"tenant":spell_tenant(&t, k).unwrap_or_default(),"md5":""}) }).collect()
                };
                let (rt, body) = grpc_call(conn, "ConfigBatchListenRequest", json!({"listen": op == "subscribe", "configListenContexts": ctx})).await?;
                if rt != "ConfigChangeBatchListenResponse" {
                    result = mismatch(i, k, "batch listen request not answered", json!("ConfigChangeBatchListenResponse"), json!([rt, body]));
                    break 'steps;
                }
                if op == "subscribe" {
                    let got: BTreeSet<String> = body["changedConfigs"].as_array().cloned().unwrap_or_default().iter().map(|x| format!("{}|{}|{}", norm_tenant(x["tenant"].as_str().unwrap_or("")), x["group"].as_str().unwrap_or(""), x["dataId"].as_str().unwrap_or(""))).collect();
                    if got != set_of(&s["changed"]) {
                        result = mismatch(i, k, "gRPC batch listen did not report exactly the keys whose md5 differs", s["changed"].clone(), json!(got));
                        break 'steps;
                    }
                }
            }
            "disconnect" => {
                let c = s["client"].as_str().unwrap().to_string();
                if let Some(conn) = conns.remove(&c) {
                    drop(conn);
                    // the server notices the closed stream and forgets the connection's subscriptions
                    tokio::time::sleep(std::time::Duration::from_millis(250)).await;
                }
            }
            _ => {
                result = json!({"kind":"result","i":i,"ok":true,"skipped":op});
                break 'steps;
            }
        }
        // -------- what clients see after the step
        // (1) long polls
        let mut expected: HashMap<u64, BTreeSet<String>> = HashMap::new();
        for a in s["answered"].as_array().cloned().unwrap_or_default() {
            expected.insert(a["id"].as_u64().unwrap(), set_of(&a["keys"]));
        }
        if !expected.is_empty() || !polls.is_empty() {
            // an answer travels actor -> oneshot -> handler -> response
            for _ in 0..40 {
                if expected.keys().all(|id| polls.get(id).map(|p| p.result.borrow().is_some()).unwrap_or(true)) { break; }
                tokio::time::sleep(std::time::Duration::from_millis(25)).await;
            }
            tokio::time::sleep(std::time::Duration::from_millis(20)).await;
        }
        let ids: Vec<u64> = polls.keys().cloned().collect();
        for id in ids {
            let got = polls[&id].result.borrow().clone();
            match (expected.get(&id), got) {
                (None, None) => {}
                (None, Some((st, keys))) => {
                    result = mismatch(i, k, "long poll answered although nothing it listens to changed", json!(null), json!({"id":id,"status":st,"keys":keys}));
                    break 'steps;
                }
                (Some(exp), None) => {
                    result = mismatch(i, k, "change not reported to a waiting long poll (HTTP listener)", json!({"id":id,"keys":exp}), json!("still pending"));
                    break 'steps;
                }
                (Some(exp), Some((st, keys))) => {
                    if st != 200 || &keys != exp {
                        result = mismatch(i, k, "long poll answered with the wrong keys", json!({"id":id,"keys":exp}), json!({"status":st,"keys":keys}));
                        break 'steps;
                    }
                    polls.remove(&id);
                }
            }
        }
        // (2) pushes to gRPC subscribers
        let mut exp_push: BTreeMap<String, BTreeSet<String>> = BTreeMap::new();
        for n in s["notify"].as_array().cloned().unwrap_or_default() {
            for c in set_of(&n["clients"]) {
                exp_push.entry(c).or_default().insert(n["key"].as_str().unwrap().to_string());
            }
        }
        if !conns.is_empty() {
            for _ in 0..30 {
                let all = exp_push.iter().all(|(c, keys)| conns.get(c).map(|x| x.pushes.lock().unwrap().iter().filter(|p| p.0 == "ConfigChangeNotifyRequest").count() >= keys.len()).unwrap_or(true));
                if all { break; }
                tokio::time::sleep(std::time::Duration::from_millis(20)).await;
            }
            tokio::time::sleep(std::time::Duration::from_millis(30)).await;
            for (c, conn) in conns.iter() {
                let got: Vec<(String, Value)> = std::mem::take(&mut *conn.pushes.lock().unwrap());
                let got_keys: Vec<String> = got.iter().filter(|p| p.0 == "ConfigChangeNotifyRequest").map(|p| format!("{}|{}|{}", norm_tenant(p.1["tenant"].as_str().unwrap_or("")), p.1["group"].as_str().unwrap_or(""), p.1["dataId"].as_str().unwrap_or(""))).collect();
                let exp = exp_push.get(c).cloned().unwrap_or_default();
                let got_set: BTreeSet<String> = got_keys.iter().cloned().collect();
                if got_set != exp || got_keys.len() != exp.len() {
                    result = mismatch(i, k, "push to a gRPC subscriber differs (ConfigChangeNotifyRequest on the connection's stream)", json!({"client":c,"keys":exp}), json!(got_keys));
                    break 'steps;
                }
            }
        }
        // (3) reads of every key, alternately over HTTP and gRPC
        let cache = s["obs"]["cache"].as_object().cloned().unwrap_or_default();
        for ks in cache.keys() { seen.insert(ks.clone()); }
        for (n, ks) in seen.clone().iter().enumerate() {
            let (t, g, d) = tgd(ks);
            let exp = cache.get(ks);
            // HTTP
            let a = http(svc.deref(), test::TestRequest::get().uri(&format!("/nacos/v1/cs/configs?dataId={}&group={}{}", enc(&d), enc(&g), q_tenant(&t, n + k))).to_request()).await;
            match exp {
                None => {
                    if a.status != 404 {
                        result = mismatch(i, k, "HTTP read of a removed / never published key", json!(404), json!([ks, a.status, String::from_utf8_lossy(&a.body)]));
                        break 'steps;
                    }
                }
                Some(e) => {
                    let content = e["content"].as_str().unwrap_or("");
                    let md5 = a.headers.get("content-md5").cloned().unwrap_or_default();
                    let ct = a.headers.get("content-type").cloned().unwrap_or_default();
                    if a.status != 200 || a.body != content.as_bytes() {
                        result = mismatch(i, k, "HTTP read: content differs (last write must win)", json!([ks, 200, content]), json!([a.status, String::from_utf8_lossy(&a.body)]));
                        break 'steps;
                    }
                    if md5 != rnacos::utils::get_md5(content) {
                        result = mismatch(i, k, "HTTP read: content-md5 header is not the md5 of the content", json!(rnacos::utils::get_md5(content)), json!(md5));
                        break 'steps;
                    }
                    if !ct.to_lowercase().starts_with(media_of(e["ctype"].as_str().unwrap_or(""))) {
                        result = mismatch(i, k, "HTTP read: content type does not follow the config type", json!([ks, e["ctype"], media_of(e["ctype"].as_str().unwrap_or(""))]), json!(ct));
                        break 'steps;
                    }
                }
            }
            // gRPC
            let (rt, body) = grpc_call(&mut reader, "ConfigQueryRequest", json!({"dataId":d,"group":g,"tenant":spell_tenant(&t, n + k + 1).unwrap_or_default()})).await?;
            match exp {
                None => {
                    if !(rt == "ConfigQueryResponse" && body["resultCode"].as_u64() != Some(200) && body["errorCode"].as_u64() == Some(300)) {
                        result = mismatch(i, k, "gRPC query of a removed / never published key", json!("errorCode 300 (not found)"), json!([ks, rt, body]));
                        break 'steps;
                    }
                }
                Some(e) => {
                    let content = e["content"].as_str().unwrap_or("");
                    let ty = e["ctype"].as_str().unwrap_or("");
                    let exp_ty = if ty.is_empty() { "text" } else { ty };
                    if rt != "ConfigQueryResponse" || body["resultCode"].as_u64() != Some(200) || body["content"].as_str() != Some(content)
                        || body["md5"].as_str() != Some(rnacos::utils::get_md5(content).as_str()) || body["contentType"].as_str() != Some(exp_ty) {
                        result = mismatch(i, k, "gRPC query: content / md5 / type differ", json!([ks, content, rnacos::utils::get_md5(content), exp_ty]), json!([rt, body]));
                        break 'steps;
                    }
                }
            }
        }
        // (4) listings over HTTP: per tenant, accurate and blur search, a few page windows
        if polls.is_empty() {
            let mut by_tenant: BTreeMap<String, Vec<(String, String, String)>> = BTreeMap::new();
            for ks in seen.iter() {
                let (t, g, d) = tgd(ks);
                by_tenant.entry(t.clone()).or_default();
                if let Some(e) = cache.get(ks) {
                    if e["listed"] != json!(false) {
                        by_tenant.get_mut(&t).unwrap().push((g, d, e["content"].as_str().unwrap_or("").to_string()));
                    }
                }
            }
            for (tn, (tenant, mut listing)) in by_tenant.into_iter().enumerate() {
                listing.sort();
                let n = listing.len();
                for (mode, fd, fg) in [("accurate", "", ""), ("blur", "d", ""), ("accurate", "d1", ""), ("blur", "", "2")] {
                    let matching: Vec<&(String, String, String)> = listing.iter().filter(|(g, d, _)| {
                        let dm = fd.is_empty() || if mode == "accurate" { d == fd } else { d.contains(fd) };
                        let gm = fg.is_empty() || if mode == "accurate" { g == fg } else { g.contains(fg) };
                        dm && gm
                    }).collect();
                    let m = matching.len();
                    for (page_no, page_size) in [(1usize, 100usize), (1, 1), (2, 1), (2, 2), (m + 1, 1)] {
                        let uri = format!("/nacos/v1/cs/configs?search={}&dataId={}&group={}{}&pageNo={}&pageSize={}", mode, fd, fg, q_tenant(&tenant, tn + k + page_no), page_no, page_size);
                        let a = http(svc.deref(), test::TestRequest::get().uri(&uri).to_request()).await;
                        let v: Value = serde_json::from_slice(&a.body).unwrap_or(Value::Null);
                        let got: Vec<(String, String, String, String)> = v["pageItems"].as_array().cloned().unwrap_or_default().iter().map(|x| (x["group"].as_str().unwrap_or("").to_string(), x["dataId"].as_str().unwrap_or("").to_string(), x["content"].as_str().unwrap_or("").to_string(), x["md5"].as_str().unwrap_or("").to_string())).collect();
                        let exp: Vec<(String, String, String, String)> = matching.iter().skip((page_no - 1) * page_size).take(page_size).map(|(g, d, c)| (g.clone(), d.clone(), c.clone(), rnacos::utils::get_md5(c))).collect();
                        let pages = if m == 0 { 0 } else { (m + page_size - 1) / page_size };
                        if a.status != 200 || v["totalCount"].as_u64() != Some(m as u64) || got != exp || v["pagesAvailable"].as_u64() != Some(pages as u64) {
                            result = mismatch(i, k, "HTTP listing page differs", json!({"uri":uri,"total":m,"pages":pages,"items":exp,"of":n}), json!({"status":a.status,"total":v["totalCount"],"pages":v["pagesAvailable"],"items":got}));
                            break 'steps;
                        }
                    }
                }
            }
        }
    }
    // -------- leave the node as it was found
    for (_, p) in polls.drain() { p.handle.abort(); }
    conns.clear();
    for st in steps.iter() {
        if let Some(ks) = st["key"].as_str() { seen.insert(ks.to_string()); }
    }
    for ks in seen.iter() {
        let (t, g, d) = tgd(ks);
        http(svc.deref(), test::TestRequest::delete().uri(&format!("/nacos/v1/cs/configs?dataId={}&group={}&tenant={}", enc(&d), enc(&g), enc(&t))).to_request()).await;
    }
    let _ = app;
    tokio::time::sleep(std::time::Duration::from_millis(150)).await;
    Ok(result)
}

/// the timing clause "a pending long poll is answered no later than its timeout" on the real handler: the shortest
/// time-out the handler accepts (10 s, answered 0.5 s early by design)
async fn long_poll_timeout<S, B>(svc: &Rc<S>) -> Value
where
    S: Service<actix_http::Request, Response = ServiceResponse<B>, Error = actix_web::Error> + 'static,
    S::Future: 'static,
    B: actix_web::body::MessageBody + 'static,
{
    let cfgs = format!("quiet-key\u{2}g1\u{2}\u{2}\u{1}");
    let req = test::TestRequest::post().uri("/nacos/v1/cs/configs/listener").insert_header(("Content-Type", "application/x-www-form-urlencoded")).insert_header(("Long-Pulling-Timeout", "10000")).set_payload(format!("Listening-Configs={}", enc(&cfgs)));
    let t0 = std::time::Instant::now();
    let r = tokio::time::timeout(std::time::Duration::from_millis(14000), http(svc.deref(), req.to_request())).await;
    let ms = t0.elapsed().as_millis() as u64;
    match r {
        Ok(a) => json!({"kind":"timing","status":a.status,"empty":decode_listener_answer(&a.body).is_empty(),"ms":ms}),
        Err(_) => json!({"kind":"timing","status":0,"empty":false,"ms":ms}),
    }
}


/// "one listener holding several keys ... notified of every later change of every key": a SLOW gRPC subscriber of 30 keys
/// that does not read its stream while all 30 keys are published one after the other, then reads - every key must have
/// been announced (the product queues at most 10 pushes per connection; what does not fit has to wait, not vanish)
async fn burst_slow_subscriber<S, B>(svc: &Rc<S>, port: u16) -> anyhow::Result<Value>
where
    S: Service<actix_http::Request, Response = ServiceResponse<B>, Error = actix_web::Error> + 'static,
    S::Future: 'static,
    B: actix_web::body::MessageBody + 'static,
{
    const N: usize = 30;
    let gate = Arc::new(tokio::sync::Notify::new());
    let mut conn = connect_opt(port, "", Some(gate.clone())).await?;
    let ctx: Vec<Value> = (0..N).map(|j| json!({"dataId": format!("burst-{}", j), "group": "g1", "tenant": "", "md5": ""})).collect();
    let (rt, body) = grpc_call(&mut conn, "ConfigBatchListenRequest", json!({"listen": true, "configListenContexts": ctx})).await?;
    if rt != "ConfigChangeBatchListenResponse" {
        return Err(anyhow::anyhow!("burst: batch listen not answered: {} {}", rt, body));
    }
    for j in 0..N {
        let form = format!("dataId=burst-{}&group=g1&content=burst-content-{}", j, j);
        let a = http(svc.deref(), test::TestRequest::post().uri("/nacos/v1/cs/configs").insert_header(("Content-Type", "application/x-www-form-urlencoded")).set_payload(form).to_request()).await;
        if a.status != 200 || a.body != b"true" {
            return Err(anyhow::anyhow!("burst: publish {} not acknowledged: {}", j, a.status));
        }
    }
    tokio::time::sleep(std::time::Duration::from_millis(400)).await;
    let before_gate = conn.pushes.lock().unwrap().len();
    gate.notify_one();
    let want: BTreeSet<String> = (0..N).map(|j| format!("burst-{}", j)).collect();
    let mut got: BTreeSet<String> = BTreeSet::new();
    for _ in 0..120 {
        got = conn.pushes.lock().unwrap().iter().filter(|p| p.0 == "ConfigChangeNotifyRequest").map(|p| p.1["dataId"].as_str().unwrap_or("").to_string()).collect();
        if want.is_subset(&got) { break; }
        tokio::time::sleep(std::time::Duration::from_millis(50)).await;
    }
    let missing: Vec<&String> = want.difference(&got).collect();
    Ok(json!({"kind":"burst","keys":N,"announced":got.intersection(&want).count(),"missing":missing,"read_before_gate":before_gate}))
}


// ------------------------------------------------------------------------------------------------ registry
fn addr_parts(a: &str) -> (String, u32) {
    let n: u32 = a.trim_start_matches('a').parse().unwrap_or(9);
    (format!("10.0.0.{}", n), 8000 + n)
}

fn hosts_of(v: &Value) -> BTreeMap<String, (bool, bool, bool, f64)> {
    // address -> (healthy, enabled, ephemeral, weight)
    let mut m = BTreeMap::new();
    for h in v.as_array().cloned().unwrap_or_default() {
        let port = h["port"].as_u64().unwrap_or(0);
        let name = format!("a{}", port.saturating_sub(8000));
        m.insert(name, (h["healthy"].as_bool().unwrap_or(false), h["enabled"].as_bool().unwrap_or(false), h["ephemeral"].as_bool().unwrap_or(false), h["weight"].as_f64().unwrap_or(-1.0)));
    }
    m
}

async fn run_naming_behaviour<S, B>(i: usize, b: &Value, svc: &Rc<S>, port: u16) -> anyhow::Result<Value>
where
    S: Service<actix_http::Request, Response = ServiceResponse<B>, Error = actix_web::Error> + 'static,
    S::Future: 'static,
    B: actix_web::body::MessageBody + 'static,
{
    let steps = b["steps"].as_array().cloned().unwrap_or_default();
    let mut conns: HashMap<String, GrpcConn> = HashMap::new();
    let mut reader = connect(port, "").await?;
    let svc_name = |s: &str| format!("{}x{}", s, i);
    let mut result = ok(i);
    let mut touched: BTreeSet<(String, String)> = BTreeSet::new();
    // the protection threshold of each service (Prot[s] / 2 in the specification) is set through the service API
    if let Some(prot) = steps.first().and_then(|st| st["obs"]["prot"].as_object().cloned()) {
        for (sname, p) in prot {
            let th = p.as_f64().unwrap_or(0.0) / 2.0;
            let r = http(svc.deref(), test::TestRequest::put().uri(&format!("/nacos/v1/ns/service?serviceName={}&protectThreshold={}", svc_name(&sname), th)).to_request()).await;
            if r.status != 200 {
                return Ok(json!({"kind":"result","i":i,"ok":true,"tool_error":format!("service update refused: {}", r.status)}));
            }
        }
    }
    'steps: for (k, st) in steps.iter().enumerate() {
        let op = st["op"].as_str().unwrap_or("");
        let s = st["s"].as_str().unwrap_or("");
        let a = st["a"].as_str().unwrap_or("");
        let (ip, iport) = addr_parts(a);
        if !s.is_empty() { touched.insert((s.to_string(), a.to_string())); }
        match op {
            "api_register_http" => {
                let n = &st["new"];
                let form = format!("serviceName={}&ip={}&port={}&ephemeral={}&enabled={}&weight={}", svc_name(s), ip, iport, n["eph"], n["en"], n["w"]);
                let req = if k % 2 == 0 { test::TestRequest::post() } else { test::TestRequest::put() };
                let r = if k % 3 == 0 {
                    http(svc.deref(), req.uri(&format!("/nacos/v1/ns/instance?{}", form)).to_request()).await
                } else {
                    http(svc.deref(), req.uri("/nacos/v1/ns/instance").insert_header(("Content-Type", "application/x-www-form-urlencoded")).set_payload(form).to_request()).await
                };
                if r.status != 200 {
                    result = mismatch(i, k, "HTTP instance registration refused", json!(200), json!([r.status, String::from_utf8_lossy(&r.body)]));
                    break 'steps;
                }
            }
            "api_update_weight" => {
                let r = http(svc.deref(), test::TestRequest::put().uri(&format!("/nacos/v1/ns/instance?serviceName={}&ip={}&port={}&weight={}", svc_name(s), ip, iport, st["new"]["w"])).to_request()).await;
                if r.status != 200 {
                    result = mismatch(i, k, "HTTP weight update refused", json!(200), json!([r.status, String::from_utf8_lossy(&r.body)]));
                    break 'steps;
                }
            }
            "api_beat" => {
                let r = http(svc.deref(), test::TestRequest::put().uri(&format!("/nacos/v1/ns/instance/beat?serviceName={}&ip={}&port={}", svc_name(s), ip, iport)).to_request()).await;
                if r.status != 200 {
                    result = mismatch(i, k, "HTTP heart-beat refused", json!(200), json!([r.status, String::from_utf8_lossy(&r.body)]));
                    break 'steps;
                }
            }
            "api_register_grpc" | "deregister" => {
                let c = if op == "deregister" { st["client"].as_str().unwrap_or("").to_string() } else { st["new"]["cl"].as_str().unwrap_or("").to_string() };
                if c.is_empty() {
                    let r = http(svc.deref(), test::TestRequest::delete().uri(&format!("/nacos/v1/ns/instance?serviceName={}&ip={}&port={}", svc_name(s), ip, iport)).to_request()).await;
                    if r.status != 200 {
                        result = mismatch(i, k, "HTTP deregistration refused", json!(200), json!([r.status, String::from_utf8_lossy(&r.body)]));
                        break 'steps;
                    }
                } else {
                    if !conns.contains_key(&c) {
                        conns.insert(c.clone(), connect(port, "").await?);
                    }
                    let conn = conns.get_mut(&c).unwrap();
                    let n = &st["new"];
                    let inst = if op == "deregister" {
                        json!({"ip": ip, "port": iport, "weight": 1.0, "enabled": true, "healthy": true, "ephemeral": true, "clusterName": "DEFAULT", "serviceName": svc_name(s), "metadata": {}})
                    } else {
                        json!({"ip": ip, "port": iport, "weight": n["w"].as_f64().unwrap_or(1.0), "enabled": n["en"], "healthy": n["h"].as_bool().unwrap_or(true), "ephemeral": n["eph"], "clusterName": "DEFAULT", "serviceName": svc_name(s), "metadata": {}})
                    };
                    let (rt, body) = grpc_call(conn, "InstanceRequest", json!({"namespace":"public","serviceName":svc_name(s),"groupName":"DEFAULT_GROUP","type": if op == "deregister" {"deregisterInstance"} else {"registerInstance"},"instance":inst})).await?;
                    if rt != "InstanceResponse" || body["resultCode"].as_u64() != Some(200) {
                        result = mismatch(i, k, "gRPC instance request refused", json!("InstanceResponse 200"), json!([rt, body]));
                        break 'steps;
                    }
                }
            }
            "disconnect" => {
                let c = st["client"].as_str().unwrap_or("").to_string();
                if let Some(conn) = conns.remove(&c) {
                    drop(conn);
                    tokio::time::sleep(std::time::Duration::from_millis(250)).await;
                }
            }
            "raft_echo_update" | "raft_echo_remove" => {
                // no client call: the replicated entry of the previous step is applied by the node itself
                tokio::time::sleep(std::time::Duration::from_millis(220)).await;
            }
            _ => {
                result = json!({"kind":"result","i":i,"ok":true,"skipped":op});
                break 'steps;
            }
        }
        // (the replicated entry of this step is on its way: the next step of the behaviour is its arrival)
        if steps.get(k + 1).map(|n| n["op"].as_str().unwrap_or("").starts_with("raft_echo")).unwrap_or(false) {
            continue;
        }
        // what a client sees: instance queries of every service, over HTTP and over gRPC, all / healthy only
        for sname in ["s1", "s2"] {
            let exp_inst = st["obs"]["inst"][sname].as_object().cloned().unwrap_or_default();
            for healthy_only in [false, true] {
                let exp_set: BTreeSet<String> = set_of(&st["obs"][if healthy_only { "q_healthy" } else { "q_all" }][sname]);
                let r = http(svc.deref(), test::TestRequest::get().uri(&format!("/nacos/v1/ns/instance/list?serviceName={}&healthyOnly={}", svc_name(sname), healthy_only)).to_request()).await;
                let v: Value = serde_json::from_slice(&r.body).unwrap_or(Value::Null);
                let (rt, body) = grpc_call(&mut reader, "ServiceQueryRequest", json!({"namespace":"public","serviceName":svc_name(sname),"groupName":"DEFAULT_GROUP","healthyOnly":healthy_only})).await?;
                for (via, hosts, okk) in [("HTTP /ns/instance/list", hosts_of(&v["hosts"]), r.status == 200), ("gRPC ServiceQueryRequest", hosts_of(&body["serviceInfo"]["hosts"]), rt == "QueryServiceResponse")] {
                    let got_set: BTreeSet<String> = hosts.keys().cloned().collect();
                    if !okk || got_set != exp_set {
                        result = mismatch(i, k, "instance query does not return exactly the live registrations", json!({"via":via,"service":sname,"healthy_only":healthy_only,"instances":exp_set}), json!({"ok":okk,"instances":got_set}));
                        break 'steps;
                    }
                    let protected = st["obs"]["q_prot"][sname].as_bool().unwrap_or(false);
                    for (an, (h, en, eph, w)) in hosts.iter() {
                        let e = &exp_inst[an];
                        // under protection every returned instance is reported healthy
                        let exp_h = if protected { Some(true) } else { e["h"].as_bool() };
                        if Some(*h) != exp_h || Some(*en) != e["en"].as_bool() || Some(*eph) != e["eph"].as_bool() || Some(*w) != e["w"].as_f64() {
                            result = mismatch(i, k, "returned instance does not carry the registered flags / weight", json!({"via":via,"service":sname,"addr":an,"healthy":exp_h,"protected":protected,"enabled":e["en"],"ephemeral":e["eph"],"weight":e["w"]}), json!({"healthy":h,"enabled":en,"ephemeral":eph,"weight":w}));
                            break 'steps;
                        }
                    }
                }
            }
        }
    }
    conns.clear();
    tokio::time::sleep(std::time::Duration::from_millis(200)).await;
    for (s, a) in touched.iter() {
        let (ip, iport) = addr_parts(a);
        for eph in ["true", "false"] {
            http(svc.deref(), test::TestRequest::delete().uri(&format!("/nacos/v1/ns/instance?serviceName={}&ip={}&port={}&ephemeral={}", svc_name(s), ip, iport, eph)).to_request()).await;
        }
    }
    Ok(result)
}

pub fn main_front(args: &[String]) -> anyhow::Result<()> {
    let mode = args[0].clone();
    let file = args[1].clone();
    let shards = opt_u64(args, "--shards", 1) as usize;
    if shards > 1 && opt(args, "--shard").is_none() {
        // one node (= one OS process) per shard; a shard whose node did not come up (loaded machine, the start-up race
        // of a fresh auto-init node) is started again on a fresh directory - nothing of a failed start is kept
        let exe = std::env::current_exe()?;
        let spawn = |sidx: usize| -> std::io::Result<std::process::Child> {
            std::process::Command::new(&exe).args(["front", &mode, &file, "--shards", &shards.to_string(), "--shard", &sidx.to_string()]).stdout(std::process::Stdio::piped()).stderr(std::process::Stdio::piped()).spawn()
        };
        let mut pending: Vec<usize> = (0..shards).collect();
        let mut errs = vec![];
        for attempt in 0..10 {
            let children: Vec<(usize, std::process::Child)> = pending.iter().map(|sidx| spawn(*sidx).map(|c| (*sidx, c))).collect::<Result<_, _>>()?;
            let mut failed = vec![];
            errs.clear();
            for (sidx, c) in children {
                let out = c.wait_with_output()?;
                if out.status.success() {
                    print!("{}", String::from_utf8_lossy(&out.stdout));
                } else {
                    failed.push(sidx);
                    let e = String::from_utf8_lossy(&out.stderr).to_string();
                    errs.push(format!("shard {} attempt {}: {}", sidx, attempt, e.lines().filter(|l| l.contains("rror") || l.contains("panicked")).take(3).collect::<Vec<_>>().join(" | ")));
                }
            }
            pending = failed;
            if pending.is_empty() { break; }
        }
        if !pending.is_empty() {
            return Err(anyhow::anyhow!("{} front shard(s) failed: {}", pending.len(), errs.join(" ;; ")));
        }
        return Ok(());
    }
    let shard = opt_u64(args, "--shard", 0) as usize;
    let behaviours = read_ndjson(&file)?;
    let dir = tempfile::tempdir()?;
    let d = dir.path().to_string_lossy().into_owned();
    std::env::set_var("RNVERIF_LEADER", "1");
    std::env::set_var("RNACOS_ENABLE_OPEN_API_AUTH", "false");
    // persistent instances are probed over TCP by the node (every 60 s by default); the addresses of the behaviours do
    // not exist, so the probe is kept out of the run
    std::env::set_var("RNACOS_NAMING_PERPETUAL_INSTANCE_PROBE_INTERVAL_SECOND", "1000000");
    let sys = actix_rt::System::new();
    let r: anyhow::Result<()> = sys.block_on(async move {
        let app = crate::node::boot(&d).await?;
        let w = crate::node::exec(&app, &json!({"op":"wait_leader","ms":20000})).await;
        if w["res"] != "ok" {
            return Err(anyhow::anyhow!("node did not become leader"));
        }
        let conf = app.sys_config.deref().clone();
        let svc = Rc::new(test::init_service(App::new().app_data(web::Data::new(app.clone())).app_data(web::Data::new(app.config_addr.clone())).app_data(web::Data::new(app.naming_addr.clone())).app_data(web::Data::new(app.bi_stream_manage.clone())).configure(app_config(conf))).await);
        let port = start_grpc(&app).await?;
        match mode.as_str() {
            "config" => {
                let timing = if shard == 0 && opt(args_static(), "--no-timing").is_none() {
                    let s2 = svc.clone();
                    Some(actix_rt::spawn(async move { long_poll_timeout(&s2).await }))
                } else { None };
                for (i, b) in behaviours.iter().enumerate() {
                    if i % shards.max(1) != shard { continue; }
                    let r = match run_config_behaviour(i, b, &app, &svc, port).await {
                        Ok(v) => v,
                        Err(e) => json!({"kind":"result","i":i,"ok":true,"tool_error":e.to_string()}),
                    };
                    println!("{}", r);
                }
                if shard == 0 && opt(args_static(), "--no-timing").is_none() {
                    match burst_slow_subscriber(&svc, port).await {
                        Ok(v) => println!("{}", v),
                        Err(e) => println!("{}", json!({"kind":"burst","tool_error":e.to_string()})),
                    }
                }
                if let Some(h) = timing {
                    if let Ok(v) = h.await { println!("{}", v); }
                }
            }
            "naming" => {
                for (i, b) in behaviours.iter().enumerate() {
                    if i % shards.max(1) != shard { continue; }
                    let r = match run_naming_behaviour(i, b, &svc, port).await {
                        Ok(v) => v,
                        Err(e) => json!({"kind":"result","i":i,"ok":true,"tool_error":e.to_string()}),
                    };
                    println!("{}", r);
                }
            }
            _ => return Err(anyhow::anyhow!("unknown front mode")),
        }
        Ok(())
    });
    r?;
    std::process::exit(0);
}

fn args_static() -> &'static [String] {
    static ARGS: std::sync::OnceLock<Vec<String>> = std::sync::OnceLock::new();
    ARGS.get_or_init(|| std::env::args().collect())
}
