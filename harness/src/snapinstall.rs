//! C08: behaviours of SnapInstall.tla replayed on two real mini nodes (leader L, follower F).
//! Log entries and snapshot chunks are hand-carried by this driver; the follower side of the install
//! runs the transcribed async-raft handler on the real FileStore (`snap_chunk` in node.rs).
use crate::node::NodeProc;
use crate::smreplay::{first_diff, get_dump, log_and_apply, norm_model, project, to_client_request};
use crate::util::{mismatch, ok, opt_u64, par_map, read_ndjson};
use serde_json::{json, Value};
use std::collections::BTreeMap;

struct Snap {
    bytes: Vec<u8>,
    term: u64,
}

fn sorted_members(v: &Value) -> Vec<u64> {
    let mut m: Vec<u64> = v.as_array().cloned().unwrap_or_default().iter().filter_map(|x| x.as_u64()).collect();
    m.sort();
    m
}

/// the follower serves everything expected plus items that no longer exist on the leader: returns those items
fn extra_only(exp: &Value, got: &Value) -> Option<Vec<String>> {
    let mut extra = vec![];
    for part in ["cfg", "ns", "usr", "seq"] {
        let e = exp[part].as_object().cloned().unwrap_or_default();
        let g = got[part].as_object().cloned().unwrap_or_default();
        for (k, v) in e.iter() {
            if g.get(k) != Some(v) {
                // a namespace the leader lists under its id (in use, its user entry deleted) while the follower still
                // holds the user entry with its name: the deleted user namespace survived the install
                if part == "ns" && v.as_str() == Some(k.as_str()) && g.contains_key(k) {
                    extra.push(format!("ns:{}(user entry)", k));
                    continue;
                }
                return None;
            }
        }
        for k in g.keys() {
            if !e.contains_key(k) {
                extra.push(format!("{}:{}", part, k));
            }
        }
    }
    if extra.is_empty() { None } else { Some(extra) }
}

/// compare the running follower with the specification's observation
fn check_obs(f: &mut NodeProc, obs: &Value, explicit_members: bool) -> anyhow::Result<Option<(String, Value, Value)>> {
    let exp = norm_model(&obs["sm"]);
    let mut got = project(&get_dump(f)?);
    if got != exp {
        // the apply of a snapshot / entry is asynchronous behind the storage call: give it a moment
        for _ in 0..10 {
            std::thread::sleep(std::time::Duration::from_millis(60));
            got = project(&get_dump(f)?);
            if got == exp {
                break;
            }
        }
    }
    if got != exp {
        if let Some(extra) = extra_only(&exp, &got) {
            return Ok(Some(("STALE".into(), json!(extra), json!(first_diff(&exp, &got)))));
        }
        return Ok(Some(("follower state differs from the leader's prefix".into(), exp.clone(), json!(first_diff(&exp, &got)))));
    }
    if explicit_members {
        let m = f.call(&json!({"op":"membership"}))?;
        if sorted_members(&m["members"]) != sorted_members(&obs["mem"]) {
            return Ok(Some(("follower membership differs".into(), obs["mem"].clone(), m["members"].clone())));
        }
    }
    Ok(None)
}

fn run_one(i: usize, b: &Value) -> anyhow::Result<Value> {
    let steps = b["steps"].as_array().cloned().unwrap_or_default();
    let dir_l = tempfile::tempdir()?;
    let dl = dir_l.path().to_string_lossy().into_owned();
    let dir_f = tempfile::tempdir()?;
    let df = match std::env::var("RNVERIF_KEEP_DIR") {
        // (debugging aid: keep the follower's data directory)
        Ok(d) if !d.is_empty() => {
            std::fs::create_dir_all(&d)?;
            d
        }
        _ => dir_f.path().to_string_lossy().into_owned(),
    };
    let mut leader = NodeProc::start_env(&dl, 300, &[("RNVERIF_NODE_ID", "1".to_string())])?;
    let fenv = [("RNVERIF_NODE_ID", "2".to_string())];
    let mut follower: Option<NodeProc> = None;
    let mut entries: BTreeMap<u64, Value> = BTreeMap::new();
    let mut members_at: BTreeMap<u64, bool> = BTreeMap::new(); // index -> a Members entry
    let mut snaps: BTreeMap<u64, Snap> = BTreeMap::new();
    let mut last_obs: Option<Value> = None;
    let mut installs = 0;
    let explicit = |last: u64, members_at: &BTreeMap<u64, bool>| members_at.range(..=last).next().is_some();
    // F's initial run state is the first observation's `up` flag; start lazily
    let mut f_started_once = false;
    let mut notes: Vec<Value> = vec![];
    let (mut session_open, mut resumed, mut installed_idx) = (false, false, 0u64);
    // an echoed (temporary) value the follower holds: (key, committed content before the echo); it does not survive a restart
    let mut tmp_pending: Option<(String, Value)> = None;
    macro_rules! fail {
        ($k:expr, $what:expr, $e:expr, $a:expr) => {{
            leader.kill();
            if let Some(f) = follower.take() { f.kill(); }
            return Ok(mismatch(i, $k, $what, $e, $a));
        }};
    }
    for (k, s) in steps.iter().enumerate() {
        let op = s["op"].as_str().unwrap_or("");
        match op {
            "lwrite" | "lmembers" => {
                let idx = s["index"].as_u64().unwrap();
                let req = if op == "lwrite" { to_client_request(&s["req"], idx) } else { members_at.insert(idx, true); json!({"Members": sorted_members(&s["members"])}) };
                if let Some(e) = log_and_apply(&mut leader, idx, &req)? {
                    fail!(k, "leader apply failed", json!("ok"), e);
                }
                entries.insert(idx, req);
            }
            "lcompact" => {
                let r = leader.call(&json!({"op":"compact"}))?;
                if r["res"] != "ok" || r["index"] != s["index"] {
                    fail!(k, "leader compaction", s["index"].clone(), r);
                }
                let g = leader.call(&json!({"op":"snap_get"}))?;
                if g["res"] != "ok" || g["index"] != s["index"] {
                    fail!(k, "leader get_current_snapshot", s["index"].clone(), json!({"res": g["res"], "index": g["index"]}));
                }
                snaps.insert(s["index"].as_u64().unwrap(), Snap { bytes: crate::node::unhex(g["hex"].as_str().unwrap_or("")), term: g["term"].as_u64().unwrap_or(1) });
            }
            "replicate" | "chunk" | "fstart" | "fecho" => {
                if follower.is_none() {
                    if op != "fstart" && f_started_once {
                        fail!(k, "driver: follower is down at a follower step", json!("up"), json!("down"));
                    }
                    follower = Some(NodeProc::start_env(&df, 300, &fenv)?);
                    f_started_once = true;
                }
                let f = follower.as_mut().unwrap();
                if op == "replicate" {
                    let idx = s["index"].as_u64().unwrap();
                    if let Some(e) = log_and_apply(f, idx, &entries[&idx])? {
                        fail!(k, "follower append/apply failed", json!("ok"), e);
                    }
                } else if op == "fecho" {
                    // the follower routed a publish to the leader and echoes the value (ConfigCmd::SetTmpValue)
                    let r = f.call(&json!({"op":"cfg_tmp","data_id":s["k"],"group":crate::smreplay::GROUP,"tenant":crate::smreplay::cfg_tenant(s["k"].as_str().unwrap_or("")),"value":crate::smreplay::expand_content(&s["v"])}))?;
                    if r["res"] != "ok" {
                        fail!(k, "follower echo failed", json!("ok"), r);
                    }
                    tmp_pending = Some((s["k"].as_str().unwrap_or("").to_string(), s["prev"].clone()));
                } else if op == "chunk" {
                    let sidx = s["snap"].as_u64().unwrap();
                    if !session_open && s["c"].as_u64().unwrap_or(1) > 1 && !(s["done"] == json!(true) && installed_idx == sidx) {
                        resumed = true; // a chunk with offset > 0 opens a session (the follower lost its session)
                    }
                    if !session_open && s["c"].as_u64().unwrap_or(1) == 1 {
                        resumed = false;
                    }
                    session_open = s["done"] != json!(true);
                    if s["done"] == json!(true) {
                        installed_idx = sidx;
                    }
                    let sn = &snaps[&sidx];
                    let kk = s["k"].as_u64().unwrap() as usize;
                    let c = s["c"].as_u64().unwrap() as usize;
                    let done = s["done"].as_bool().unwrap();
                    let sz = (sn.bytes.len() + kk - 1) / kk;
                    let from = ((c - 1) * sz).min(sn.bytes.len());
                    let to = if done { from } else { (c * sz).min(sn.bytes.len()) };
                    let r = f.call(&json!({"op":"snap_chunk","offset":from,"hex":crate::node::hex_of(&sn.bytes[from..to]),"done":done,
                        "index":sidx,"term":sn.term,"last_log_index":s["last_log"]}))?;
                    if r["res"] != "ok" {
                        fail!(k, "follower install handler failed", json!("ok"), r);
                    }
                    if done {
                        installs += 1;
                        // the storage call has returned; the log pointer is written behind it: wait until the
                        // node reports the snapshot index as its last log index (crash-atomicity of finalize is C04's)
                        let mut seen = json!(null);
                        for _ in 0..40 {
                            let st = f.call(&json!({"op":"initial_state"}))?;
                            seen = st["last_log_index"].clone();
                            if seen.as_u64().unwrap_or(0) >= sidx {
                                break;
                            }
                            std::thread::sleep(std::time::Duration::from_millis(50));
                        }
                        if seen.as_u64().unwrap_or(0) < sidx {
                            fail!(k, "after install: the log never reports the snapshot index as last index", json!(sidx), seen);
                        }
                    }
                }
                let obs = &s["obs"];
                if obs["tmp"].as_array().map(|a| a.is_empty()).unwrap_or(true) {
                    tmp_pending = None; // (the model says: no temporary value left)
                }
                let ex = explicit(obs["last"].as_u64().unwrap_or(0), &members_at);
                if let Some((what, e, a)) = check_obs(f, obs, ex)? {
                    if what == "STALE" && op == "chunk" && s["done"] == json!(true) {
                        // the install left items that the leader deleted before the snapshot: noted (the check decides
                        // whether that is a listed finding); a restart must cure it - restart and go on
                        notes.push(json!({"step": k, "class": "deleted_items_survive_install", "extra": e, "resumed": resumed}));
                        let fo = follower.take().unwrap();
                        fo.stop()?;
                        follower = Some(NodeProc::start_env(&df, 300, &fenv)?);
                        let f2 = follower.as_mut().unwrap();
                        if let Some((what2, e2, a2)) = check_obs(f2, obs, ex)? {
                            let cls = if resumed { " [install resumed after a follower restart]" } else { "" };
                            fail!(k, &format!("after install and restart: {}{}", what2, cls), e2, a2);
                        }
                    } else {
                        let w = if what == "STALE" { "follower serves items that do not exist on the leader".to_string() } else { what };
                        let cls = if resumed { " [install resumed after a follower restart]" } else { "" };
                        fail!(k, &format!("after {}: {}{}", op, w, cls), e, a);
                    }
                }
                last_obs = Some(obs.clone());
            }
            "fcrash" => {
                session_open = false;
                // the process ends (its install session is lost, the snapshot file stays); writes the node has
                // acknowledged are allowed to reach the disk first - losing those is C04's subject, not C08's
                if let Some(f) = follower.take() {
                    f.stop()?;
                }
                f_started_once = true;
            }
            _ => {}
        }
    }
    // every behaviour ends with: (re)start the follower and look again - what it serves must survive
    if let Some(mut obs) = last_obs {
        if let Some(f) = follower.take() {
            f.stop()?;
        }
        if let Some((key, prev)) = tmp_pending.take() {
            // (FStart in the model: the committed prefix; the echoed value is gone)
            obs["sm"]["cfg"][key.as_str()]["content"] = prev;
        }
        let mut f = NodeProc::start_env(&df, 300, &fenv)?;
        let ex = explicit(obs["last"].as_u64().unwrap_or(0), &members_at);
        if let Some((what, e, a)) = check_obs(&mut f, &obs, ex)? {
            leader.kill();
            f.kill();
            let cls = if resumed { " [install resumed after a follower restart]" } else { "" };
            return Ok(mismatch(i, steps.len(), &format!("after the final restart: {}{}", what, cls), e, a));
        }
        // real vs real: a follower that has everything serves exactly what the leader serves
        if obs["last"].as_u64().unwrap_or(0) == entries.len() as u64 {
            let dl = get_dump(&mut leader)?;
            let dfv = get_dump(&mut f)?;
            if dl != dfv {
                leader.kill();
                f.kill();
                return Ok(mismatch(i, steps.len(), "follower and leader dumps differ", json!(first_diff(&dl, &dfv)), json!("full dump")));
            }
        }
        f.kill();
    } else if let Some(f) = follower.take() {
        f.kill();
    }
    leader.kill();
    let mut r = ok(i);
    r["installs"] = json!(installs);
    r["notes"] = json!(notes);
    Ok(r)
}

pub fn replay(args: &[String]) -> anyhow::Result<()> {
    let behaviours = read_ndjson(&args[0])?;
    let jobs = opt_u64(args, "--jobs", 6) as usize;
    let rs = par_map(&behaviours, jobs, |i, b| match run_one(i, b) {
        Ok(v) => v,
        Err(e) => json!({"kind":"result","i":i,"ok":true,"tool_error":e.to_string()}),
    });
    let (mut failed, mut tool_errors, mut installs) = (0, 0, 0);
    for r in rs {
        if r["ok"] == json!(false) {
            failed += 1;
        }
        if r.get("tool_error").is_some() {
            tool_errors += 1;
        }
        installs += r["installs"].as_u64().unwrap_or(0);
        println!("{}", r);
    }
    println!("{}", json!({"kind":"summary","total":behaviours.len(),"failed":failed,"tool_errors":tool_errors,"installs":installs}));
    Ok(())
}
