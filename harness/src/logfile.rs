//! C02/C03 level A: one log file through the public API of `LogInnerManager`
//! (init / write / strip_log_to / read_records), behaviours from RaftLog.tla.
use crate::util::*;
use quick_protobuf::Writer;
use rnacos::raft::filestore::model::LogRecordDto;
use rnacos::raft::filestore::raftlog::{LogInnerManager, LogWriteMark};
use serde_json::{json, Value};

/// payload bytes of entry `id` with exactly `len` bytes (non-zero, id-dependent)
pub fn payload(id: u64, len: usize) -> Vec<u8> {
    let mut v = Vec::with_capacity(len);
    let seed = (id as u8).wrapping_mul(37) | 1;
    for i in 0..len {
        let b = seed.wrapping_add((i as u8).wrapping_mul(11)) | 0x01;
        v.push(b);
    }
    // first 8 bytes carry the id so that it can be recovered
    let idb = id.to_be_bytes();
    for (i, b) in idb.iter().enumerate() {
        if i < len {
            v[i] = *b;
        }
    }
    v
}

pub fn payload_id(v: &[u8]) -> u64 {
    let mut b = [0u8; 8];
    for i in 0..std::cmp::min(8, v.len()) {
        b[i] = v[i];
    }
    u64::from_be_bytes(b)
}

fn encoded_len(rec: &LogRecordDto) -> usize {
    let mut buf = Vec::new();
    let mut w = Writer::new(&mut buf);
    w.write_message(&rec.to_record_do()).unwrap();
    buf.len()
}

/// a record (index, term, id) whose encoded on-disk length (with its length prefix) is `total`
pub fn sized_record(index: u64, term: u64, id: u64, total: usize) -> LogRecordDto {
    let mut vlen = total.saturating_sub(12).max(8);
    for _ in 0..8 {
        let rec = LogRecordDto { index, term, value: payload(id, vlen) };
        let l = encoded_len(&rec);
        if l == total {
            return rec;
        }
        if l > total {
            vlen -= l - total;
        } else {
            vlen += total - l;
        }
    }
    // exact size not reachable (prefix width step): take the closest
    LogRecordDto { index, term, value: payload(id, vlen) }
}

fn set_interval(path: &str, interval: u16) -> anyhow::Result<()> {
    use std::io::{Seek, SeekFrom, Write};
    let mut f = std::fs::OpenOptions::new().write(true).open(path)?;
    f.seek(SeekFrom::Start(24))?;
    f.write_all(&interval.to_be_bytes())?;
    f.sync_all()?;
    Ok(())
}

fn proj(list: &[LogRecordDto]) -> Value {
    Value::Array(
        list.iter()
            .map(|r| json!({"index": r.index, "term": r.term, "id": payload_id(&r.value), "len": r.value.len()}))
            .collect(),
    )
}

fn exp_proj(obs: &Value) -> Vec<(u64, u64, u64)> {
    obs["log"]
        .as_array()
        .map(|a| {
            a.iter()
                .map(|e| (e["index"].as_u64().unwrap(), e["term"].as_u64().unwrap(), e["id"].as_u64().unwrap()))
                .collect()
        })
        .unwrap_or_default()
}

pub fn replay(args: &[String]) -> anyhow::Result<()> {
    let behaviours = read_ndjson(&args[0])?;
    let unit = opt_u64(args, "--unit", 128) as usize;
    let interval = opt_u64(args, "--interval", 4) as u16;
    let rt = tokio::runtime::Builder::new_multi_thread().worker_threads(2).enable_all().build()?;
    let mut failed = 0;
    for (i, b) in behaviours.iter().enumerate() {
        let dir = tempfile::tempdir()?;
        let path = dir.path().join("log_1").to_string_lossy().into_owned();
        let r = rt.block_on(async {
            let h = tokio::spawn(run_one(i, b.clone(), path.clone(), unit, interval));
            match h.await {
                Ok(v) => v,
                Err(e) => mismatch(i, 0, "panic in code under test", json!("no panic"), json!(e.to_string())),
            }
        });
        if r["ok"] == json!(false) {
            failed += 1;
        }
        println!("{}", r);
    }
    println!("{}", json!({"kind":"summary","total":behaviours.len(),"failed":failed,"unit":unit,"interval":interval}));
    Ok(())
}

async fn check_obs(i: usize, k: usize, mgr: &mut LogInnerManager, obs: &Value, first: u64, sizes: &std::collections::HashMap<u64, usize>, check_last: bool) -> Option<Value> {
    let exp = exp_proj(obs);
    let end = obs["end"].as_u64().unwrap();
    let got = match mgr.read_records(first, end + 3).await {
        Ok(v) => v,
        Err(e) => return Some(mismatch(i, k, "read of the whole log failed", json!(exp.len()), json!(e.to_string()))),
    };
    let got_p: Vec<(u64, u64, u64)> = got.iter().map(|r| (r.index, r.term, payload_id(&r.value))).collect();
    if got_p != exp {
        return Some(mismatch(i, k, "log content differs", obs["log"].clone(), proj(&got)));
    }
    for r in &got {
        let id = payload_id(&r.value);
        if let Some(l) = sizes.get(&id) {
            if r.value != payload(id, *l) {
                return Some(mismatch(i, k, "payload bytes differ", json!({"id":id,"len":l}), json!({"len":r.value.len()})));
            }
        }
    }
    if mgr.get_end_index() != end {
        return Some(mismatch(i, k, "end index differs", json!(end), json!(mgr.get_end_index())));
    }
    if let Some(last) = exp.last() {
        let info = mgr.get_last_index_info();
        // the reported last term is only promised after (re)opening and after an append;
        // right after a truncation the in-memory value is not consulted by Raft
        if check_last && (info.index, info.term) != (last.0, last.1) {
            return Some(mismatch(i, k, "last (index, term) differs", json!([last.0, last.1]), json!([info.index, info.term])));
        }
        // a proper sub-range read
        if exp.len() >= 3 {
            let a = exp[1].0;
            let bnd = exp[exp.len() - 1].0;
            match mgr.read_records(a, bnd).await {
                Ok(v) => {
                    let gp: Vec<(u64, u64, u64)> = v.iter().map(|r| (r.index, r.term, payload_id(&r.value))).collect();
                    if gp != exp[1..exp.len() - 1].to_vec() {
                        return Some(mismatch(i, k, "sub-range read differs", json!([a, bnd]), proj(&v)));
                    }
                }
                Err(e) => return Some(mismatch(i, k, "sub-range read failed", json!([a, bnd]), json!(e.to_string()))),
            }
        }
    }
    None
}

async fn run_one(i: usize, b: Value, path: String, unit: usize, interval: u16) -> Value {
    let first = b["first"].as_u64().unwrap();
    // fresh file with the requested index interval in its header (the code reads it from there)
    let mut mgr = match LogInnerManager::init(path.clone(), first, 0, 0).await {
        Ok(m) => m,
        Err(e) => return mismatch(i, 0, "init failed", json!("ok"), json!(e.to_string())),
    };
    if interval != 128 {
        drop(mgr);
        if let Err(e) = set_interval(&path, interval) {
            return json!({"kind":"result","i":i,"ok":true,"skipped":e.to_string()});
        }
        mgr = match LogInnerManager::init(path.clone(), first, 0, 0).await {
            Ok(m) => m,
            Err(e) => return mismatch(i, 0, "init failed", json!("ok"), json!(e.to_string())),
        };
    }
    let mut sizes: std::collections::HashMap<u64, usize> = Default::default();
    let steps = b["steps"].as_array().cloned().unwrap_or_default();
    for (k, s) in steps.iter().enumerate() {
        let op = s["op"].as_str().unwrap();
        match op {
            "append" | "batch" => {
                let entries: Vec<Value> = if op == "append" { vec![s.clone()] } else { s["entries"].as_array().cloned().unwrap() };
                for e in entries {
                    let rec = sized_record(e["index"].as_u64().unwrap(), e["term"].as_u64().unwrap(), e["id"].as_u64().unwrap(), e["sz"].as_u64().unwrap() as usize * unit);
                    sizes.insert(e["id"].as_u64().unwrap(), rec.value.len());
                    let res = match mgr.write(&rec).await {
                        Ok(LogWriteMark::Success) | Ok(LogWriteMark::SuccessToEnd) => "ok",
                        Ok(LogWriteMark::IndexEqualError) => "index_error",
                        Ok(LogWriteMark::Failure) => "full",
                        Ok(LogWriteMark::Error) => "error",
                        Err(_) => "error",
                    };
                    if res == "full" {
                        return json!({"kind":"result","i":i,"ok":true,"skipped":"file full"});
                    }
                    if res != s["res"].as_str().unwrap() {
                        return mismatch(i, k, "append result", s["res"].clone(), json!(res));
                    }
                    if res != "ok" {
                        break; // a refused batch is refused as a whole: nothing of it is written
                    }
                }
            }
            "truncate" => {
                let kidx = s["k"].as_u64().unwrap();
                if let Err(e) = mgr.strip_log_to(kidx).await {
                    return mismatch(i, k, "truncate failed", json!("ok"), json!(e.to_string()));
                }
            }
            "reopen" => {
                drop(mgr);
                mgr = match LogInnerManager::init(path.clone(), first, 0, 0).await {
                    Ok(m) => m,
                    Err(e) => return mismatch(i, k, "reopen failed", json!("ok"), json!(e.to_string())),
                };
            }
            _ => {}
        }
        if std::env::var("RNVERIF_DEBUG").is_ok() {
            eprintln!("step {} {} -> {}", k, op, mgr);
        }
        let check_last = op == "reopen" || ((op == "append" || op == "batch") && s["res"] == "ok");
        if let Some(m) = check_obs(i, k, &mut mgr, &s["obs"], first, &sizes, check_last).await {
            return m;
        }
    }
    ok(i)
}

/// code -> spec: seeded random history on one real log file with NATIVE sizes (boundary-biased)
/// and the native index interval; every result is logged and validated by Trace_RaftLog.tla.
pub fn record(args: &[String]) -> anyhow::Result<()> {
    use rand::prelude::*;
    use std::io::Write;
    let out_path = &args[0];
    let seed = opt_u64(args, "--seed", 1);
    let nops = opt_u64(args, "--ops", 300) as usize;
    let interval = opt_u64(args, "--interval", 128) as u16;
    let mut rng = StdRng::seed_from_u64(seed);
    let mut out = std::io::BufWriter::new(std::fs::File::create(out_path)?);
    let rt = tokio::runtime::Builder::new_multi_thread().worker_threads(2).enable_all().build()?;
    let dir = tempfile::tempdir()?;
    let path = dir.path().join("log_1").to_string_lossy().into_owned();
    let first: u64 = *[0u64, 1, 1, 1, 77].choose(&mut rng).unwrap();
    let sizes: Vec<usize> = vec![24, 25, 64, 127, 128, 129, 200, 255, 256, 300, 511, 512, 513, 1000, 1023, 1024, 1025, 1500, 2047, 2048, 4096, 5000, 16383, 16384, 16385, 70000];
    let events = rt.block_on(async {
        let mut ev: Vec<Value> = vec![];
        let mut mgr = LogInnerManager::init(path.clone(), first, 0, 0).await?;
        if interval != 128 {
            drop(mgr);
            set_interval(&path, interval)?;
            mgr = LogInnerManager::init(path.clone(), first, 0, 0).await?;
        }
        ev.push(json!({"event":"reset","first":first,"interval":interval}));
        let mut end = first;
        let mut term = 1u64;
        let mut id = 0u64;
        for _ in 0..nops {
            let choice = rng.gen_range(0..100);
            if choice < 62 {
                // a run of appends; sometimes fill up to a 1024-aligned end
                let run = if rng.gen_bool(0.3) { rng.gen_range(1..40) } else { rng.gen_range(1..5) };
                for _ in 0..run {
                    id += 1;
                    let bad = rng.gen_bool(0.04);
                    let idx = if bad { end + rng.gen_range(1..3) } else { end };
                    let total = if rng.gen_bool(0.7) { *sizes.choose(&mut rng).unwrap() } else { rng.gen_range(24..3000) };
                    let rec = sized_record(idx, term, id, total);
                    let res = match mgr.write(&rec).await {
                        Ok(LogWriteMark::Success) | Ok(LogWriteMark::SuccessToEnd) => "ok",
                        Ok(LogWriteMark::IndexEqualError) => "index_error",
                        Ok(LogWriteMark::Failure) => "full",
                        _ => "error",
                    };
                    ev.push(json!({"event":"append","index":idx,"term":term,"id":id,"res":res,"len":encoded_len(&rec)}));
                    if res == "ok" && !bad {
                        end += 1;
                    }
                }
            } else if choice < 74 {
                let k = if end > first { rng.gen_range(first..=end + 1) } else { first };
                let r = mgr.strip_log_to(k).await;
                ev.push(json!({"event":"truncate","k":k,"res": if r.is_ok() {"ok"} else {"error"}}));
                if k < end {
                    end = k;
                }
                term += 1;
            } else if choice < 84 {
                drop(mgr);
                mgr = LogInnerManager::init(path.clone(), first, 0, 0).await?;
                let info = mgr.get_last_index_info();
                ev.push(json!({"event":"reopen","end":mgr.get_end_index(),"last_index":info.index,"last_term":info.term}));
            } else {
                let (a, b) = if end > first && rng.gen_bool(0.7) {
                    let a = rng.gen_range(first..end);
                    (a, std::cmp::min(end + 2, a + rng.gen_range(1..60)))
                } else {
                    (first, end + 3)
                };
                match mgr.read_records(a, b).await {
                    Ok(v) => {
                        let good = v.iter().all(|r| r.value == payload(payload_id(&r.value), r.value.len()));
                        ev.push(json!({"event":"read","a":a,"b":b,"res":"ok","bytes_ok":good,
                            "entries": v.iter().map(|r| json!([r.index, r.term, payload_id(&r.value)])).collect::<Vec<_>>()}));
                    }
                    Err(e) => ev.push(json!({"event":"read","a":a,"b":b,"res":"error","err":e.to_string(),"entries":[],"bytes_ok":true})),
                }
            }
        }
        // final full read after a reopen
        drop(mgr);
        let mut mgr = LogInnerManager::init(path.clone(), first, 0, 0).await?;
        let info = mgr.get_last_index_info();
        ev.push(json!({"event":"reopen","end":mgr.get_end_index(),"last_index":info.index,"last_term":info.term}));
        let v = mgr.read_records(first, end + 3).await.unwrap_or_default();
        ev.push(json!({"event":"read","a":first,"b":end + 3,"res":"ok","bytes_ok":v.iter().all(|r| r.value == payload(payload_id(&r.value), r.value.len())),
            "entries": v.iter().map(|r| json!([r.index, r.term, payload_id(&r.value)])).collect::<Vec<_>>()}));
        Ok::<_, anyhow::Error>(ev)
    })?;
    for e in &events {
        writeln!(out, "{}", e)?;
    }
    out.flush()?;
    println!("{}", json!({"kind":"summary","events":events.len()}));
    Ok(())
}
