//! C06, node level: behaviours of ConfigCluster.tla projected on each node and replayed on real mini nodes.
//! A committed entry reaches a node as async-raft delivers it (append + apply through FileStore), the echo of
//! a routed publish as ConfigRoute sends it (ConfigCmd::SetTmpValue), compaction is FileStore::do_log_compaction,
//! crash / restart is a new process on the same directory.  After every step of a node the values it serves are
//! compared with the specification's.
use crate::node::NodeProc;
use crate::util::{mismatch, ok, opt_u64, par_map, read_ndjson};
use serde_json::{json, Value};
use std::collections::BTreeMap;

const GROUP: &str = "g";

fn content(id: u64) -> String {
    format!("c{}", id)
}

fn request_of(e: &Value, idx: u64) -> Value {
    let key = format!("{}\u{2}{}", e["k"].as_str().unwrap(), GROUP);
    if e["del"] == json!(true) {
        json!({"ConfigRemove": {"key": key}})
    } else {
        json!({"ConfigSet": {"key": key, "value": content(e["id"].as_u64().unwrap()), "config_type": null, "desc": null,
            "history_id": idx, "history_table_id": idx, "op_time": 1000 + idx, "op_user": null}})
    }
}

fn check(node: &mut NodeProc, obs: &Value) -> anyhow::Result<Option<(Value, Value)>> {
    let mut exp = serde_json::Map::new();
    let mut got = serde_json::Map::new();
    for (k, v) in obs.as_object().cloned().unwrap_or_default() {
        let id = v.as_u64().unwrap_or(0);
        exp.insert(k.clone(), if id == 0 { Value::Null } else { json!(content(id)) });
        let r = node.call(&json!({"op":"cfg_get","data_id":k,"group":GROUP}))?;
        got.insert(k, r["value"].clone());
    }
    if exp != got {
        return Ok(Some((Value::Object(exp), Value::Object(got))));
    }
    Ok(None)
}

fn run_one(i: usize, b: &Value) -> anyhow::Result<Value> {
    let steps = b["steps"].as_array().cloned().unwrap_or_default();
    let mut dirs = BTreeMap::new();
    let mut nodes: BTreeMap<u64, Option<NodeProc>> = BTreeMap::new();
    let mut entries: BTreeMap<u64, Value> = BTreeMap::new();
    let mut applied: BTreeMap<u64, u64> = BTreeMap::new();
    let mut compacted_at: BTreeMap<u64, u64> = BTreeMap::new();
    for n in 1..=3u64 {
        let d = tempfile::tempdir()?;
        let p = d.path().to_string_lossy().into_owned();
        nodes.insert(n, Some(NodeProc::start_env(&p, 200, &[("RNVERIF_NODE_ID", n.to_string())])?));
        dirs.insert(n, (d, p));
    }
    let mut fail: Option<Value> = None;
    let mut echoes = 0;
    for (k, s) in steps.iter().enumerate() {
        let op = s["op"].as_str().unwrap_or("");
        let n = s["n"].as_u64().unwrap_or(0);
        match op {
            "commit" => {
                let idx = s["idx"].as_u64().unwrap();
                entries.insert(idx, request_of(s, idx));
            }
            "apply" => {
                let idx = s["idx"].as_u64().unwrap();
                let node = nodes.get_mut(&n).unwrap().as_mut().unwrap();
                let req = &entries[&idx];
                let a = node.call(&json!({"op":"append_req","index":idx,"term":1,"req":req}))?;
                let r = if a["res"] == "ok" { node.call(&json!({"op":"apply","index":idx,"req":req}))? } else { a };
                if r["res"] != "ok" {
                    fail = Some(mismatch(i, k, "append / apply failed", json!("ok"), r));
                    break;
                }
                applied.insert(n, idx);
            }
            "echo" => {
                echoes += 1;
                let node = nodes.get_mut(&n).unwrap().as_mut().unwrap();
                node.call(&json!({"op":"cfg_tmp","data_id":s["k"],"group":GROUP,"value":content(s["id"].as_u64().unwrap())}))?;
            }
            "compact" => {
                let node = nodes.get_mut(&n).unwrap().as_mut().unwrap();
                let r = node.call(&json!({"op":"compact"}))?;
                if r["res"] != "ok" || r["index"] != s["idx"] {
                    fail = Some(mismatch(i, k, "compaction", s["idx"].clone(), r));
                    break;
                }
                compacted_at.insert(n, s["idx"].as_u64().unwrap());
            }
            "crash" => {
                if let Some(p) = nodes.get_mut(&n).unwrap().take() {
                    p.stop()?;
                }
            }
            "restart" => {
                let p = NodeProc::start_env(&dirs[&n].1, 200, &[("RNVERIF_NODE_ID", n.to_string())])?;
                *nodes.get_mut(&n).unwrap() = Some(p);
            }
            _ => {}
        }
        if !s["obs"].is_null() {
            let node = nodes.get_mut(&n).unwrap().as_mut().unwrap();
            let mut bad = check(node, &s["obs"])?;
            if bad.is_some() {
                std::thread::sleep(std::time::Duration::from_millis(150));
                bad = check(node, &s["obs"])?;
            }
            if let Some((e, g)) = bad {
                fail = Some(mismatch(i, k, &format!("node {} after {}: served values differ from the specification", n, op), e, g));
                break;
            }
        }
    }
    for (_, p) in nodes.iter_mut() {
        if let Some(p) = p.take() {
            p.kill();
        }
    }
    if let Some(f) = fail {
        return Ok(f);
    }
    let mut r = ok(i);
    r["echoes"] = json!(echoes);
    Ok(r)
}

pub fn replay(args: &[String]) -> anyhow::Result<()> {
    let behaviours = read_ndjson(&args[0])?;
    let jobs = opt_u64(args, "--jobs", 4) as usize;
    let rs = par_map(&behaviours, jobs, |i, b| match run_one(i, b) {
        Ok(v) => v,
        Err(e) => json!({"kind":"result","i":i,"ok":true,"tool_error":e.to_string()}),
    });
    let (mut failed, mut tool_errors, mut echoes) = (0, 0, 0);
    for r in rs {
        if r["ok"] == json!(false) {
            failed += 1;
        }
        if r.get("tool_error").is_some() {
            tool_errors += 1;
        }
        echoes += r["echoes"].as_u64().unwrap_or(0);
        println!("{}", r);
    }
    println!("{}", json!({"kind":"summary","total":behaviours.len(),"failed":failed,"tool_errors":tool_errors,"echoes":echoes}));
    Ok(())
}
