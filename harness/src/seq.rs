//! C19: issued ids.
//!  record seqgroup : the real `SeqGroup` double buffer driven through the SequenceManager protocol
//!                    (get / grant / deliver) by a seeded driver; validated by Trace_SeqGroup.tla, which
//!                    re-computes every id with the spec's transcription.
//!  record seqnode  : a real single-member Raft node (mini node, leader mode): concurrent GetNextId on
//!                    several keys, config publishes (history ids), compactions, restarts; validated by
//!                    Trace_SeqIssued.tla (never twice, never backwards).
use crate::node::NodeProc;
use crate::util::*;
use rand::prelude::*;
use rnacos::sequence::model::SeqGroup;
use serde_json::{json, Value};
use std::collections::HashMap;
use std::io::Write;

pub fn record_seqgroup(args: &[String]) -> anyhow::Result<()> {
    let out_path = &args[0];
    let seed = opt_u64(args, "--seed", 1);
    let nops = opt_u64(args, "--ops", 300) as usize;
    let step = opt_u64(args, "--step", 3);
    let reorder = opt_u64(args, "--reorder", 0) == 1;
    let mut rng = StdRng::seed_from_u64(seed);
    let mut out = std::io::BufWriter::new(std::fs::File::create(out_path)?);
    let nodes = ["n1", "n2"];
    let keys = ["k1", "k2"];
    let mut next: HashMap<&str, u64> = keys.iter().map(|k| (*k, 1u64)).collect();
    let mut grp: HashMap<(&str, &str), SeqGroup> = HashMap::new();
    // in-flight requests per node: (kind, key, granted, start)
    let mut infl: HashMap<&str, Vec<(String, &str, bool, u64)>> = nodes.iter().map(|n| (*n, vec![])).collect();
    writeln!(out, "{}", json!({"event":"reset","step":step}))?;
    for _ in 0..nops {
        let n = *nodes.choose(&mut rng).unwrap();
        match rng.gen_range(0..10) {
            0..=4 => {
                if infl[n].len() >= 3 {
                    continue;
                }
                let k = *keys.choose(&mut rng).unwrap();
                let mut id = 0u64;
                let mut req = "none";
                if !grp.contains_key(&(n, k)) {
                    grp.insert((n, k), SeqGroup::new(step));
                    infl.get_mut(n).unwrap().push(("use".into(), k, false, 0));
                    req = "use";
                } else {
                    let g = grp.get_mut(&(n, k)).unwrap();
                    match g.next_id() {
                        Some(v) => {
                            id = v;
                            if g.need_apply() {
                                g.mark_apply();
                                infl.get_mut(n).unwrap().push(("fill".into(), k, false, 0));
                                req = "fill";
                            }
                        }
                        None => {
                            infl.get_mut(n).unwrap().push(("use".into(), k, false, 0));
                            req = "use";
                        }
                    }
                }
                writeln!(out, "{}", json!({"event":"get","n":n,"k":k,"id":id,"req":req}))?;
            }
            5..=6 => {
                let q = infl.get_mut(n).unwrap();
                if let Some(i) = q.iter().position(|x| !x.2) {
                    let k = q[i].1;
                    q[i].2 = true;
                    q[i].3 = next[k];
                    *next.get_mut(k).unwrap() += step;
                    writeln!(out, "{}", json!({"event":"grant","n":n,"start":q[i].3}))?;
                }
            }
            _ => {
                let q = infl.get_mut(n).unwrap();
                let granted: Vec<usize> = (0..q.len()).filter(|i| q[*i].2).collect();
                if granted.is_empty() {
                    continue;
                }
                let i = if reorder { *granted.choose(&mut rng).unwrap() } else if q[0].2 { 0 } else { continue };
                let (kind, k, _, start) = q.remove(i);
                let g = grp.get_mut(&(n, k)).unwrap();
                g.apply_range(start, step);
                let mut id = 0;
                if kind == "use" {
                    id = g.next_id().unwrap_or(0);
                } else {
                    g.clear_apply_mark();
                }
                writeln!(out, "{}", json!({"event":"deliver","n":n,"i":i + 1,"kind":kind,"id":id}))?;
            }
        }
    }
    out.flush()?;
    println!("{}", json!({"kind":"summary","ops":nops}));
    Ok(())
}

fn hist_ids(dump: &Value) -> Vec<(String, u64)> {
    let mut v = vec![];
    if let Some(cfg) = dump["cfg"].as_object() {
        for (k, e) in cfg {
            for h in e["hist"].as_array().cloned().unwrap_or_default() {
                v.push((k.clone(), h["id"].as_u64().unwrap_or(0)));
            }
        }
    }
    v.sort();
    v
}

pub fn record_seqnode(args: &[String]) -> anyhow::Result<()> {
    let out_path = &args[0];
    let seed = opt_u64(args, "--seed", 1);
    let nops = opt_u64(args, "--ops", 40) as usize;
    let restarts = opt_u64(args, "--restarts", 2) as usize;
    let mut rng = StdRng::seed_from_u64(seed);
    let mut out = std::io::BufWriter::new(std::fs::File::create(out_path)?);
    std::env::set_var("RNVERIF_LEADER", "1");
    let dir = tempfile::tempdir()?;
    let d = dir.path().to_string_lossy().into_owned();
    let mut node = NodeProc::start(&d, 700)?;
    let w = node.call(&json!({"op":"wait_leader","ms":20000}))?;
    if w["res"] != "ok" {
        return Err(anyhow::anyhow!("node did not become leader"));
    }
    writeln!(out, "{}", json!({"event":"reset"}))?;
    let keys = ["sa", "sb"];
    let cks = ["d1", "d2", "d3"];
    let vals = ["v1", "v2", "v3"];
    let mut done_restarts = 0;
    let mut published = 0u64;
    for step in 0..nops {
        let c = rng.gen_range(0..100);
        if c < 40 {
            let k = *keys.choose(&mut rng).unwrap();
            let n = *[1u64, 1, 2, 5, 12].choose(&mut rng).unwrap();
            let r = node.call(&json!({"op":"seq_next","key":k,"n":n}))?;
            writeln!(out, "{}", json!({"event":"ids","k":k,"ids":r["ids"],"errors":r["errors"]}))?;
        } else if c < 85 {
            // bursts of publishes so that the 100-id batch boundary is crossed; same-value publishes included
            let burst = if rng.gen_bool(0.3) { rng.gen_range(20..70) } else { rng.gen_range(1..4) };
            for _ in 0..burst {
                let r = node.call(&json!({"op":"cfg_publish","data_id":cks.choose(&mut rng).unwrap(),"value":vals.choose(&mut rng).unwrap()}))?;
                if r["res"] == "ok" {
                    published += 1;
                }
            }
            let dump = node.call(&json!({"op":"dump"}))?;
            let h = hist_ids(&dump["dump"]);
            writeln!(out, "{}", json!({"event":"hist","ids":h.iter().map(|x| json!([x.0, x.1])).collect::<Vec<_>>(),"published":published}))?;
        } else if c < 92 {
            let r = node.call(&json!({"op":"compact"}))?;
            writeln!(out, "{}", json!({"event":"compact","res":r["res"]}))?;
        } else if done_restarts < restarts && step > 3 {
            done_restarts += 1;
            node.stop()?;
            node = NodeProc::start(&d, 700)?;
            let w = node.call(&json!({"op":"wait_leader","ms":30000}))?;
            writeln!(out, "{}", json!({"event":"restart","leader":w["res"]}))?;
            if w["res"] != "ok" {
                break;
            }
        }
    }
    // ---- epilogue: a data import in the middle of a leader's id batch, ordinary writes after it, then a restart that
    // rebuilds the state by log replay (no compaction in between) and more writes - the imported history entries are
    // stamped from a reserved SECTION of ids (ConfigCmd::GetSequenceSection), the ordinary ones from the batch
    let mut imported = false;
    let alive = node.call(&json!({"op":"wait_leader","ms":20000})).map(|w| w["res"] == "ok").unwrap_or(false);
    if alive {
        let hist_event = |node: &mut NodeProc, out: &mut std::io::BufWriter<std::fs::File>, published: u64| -> anyhow::Result<()> {
            let dump = node.call(&json!({"op":"dump"}))?;
            let h = hist_ids(&dump["dump"]);
            writeln!(out, "{}", json!({"event":"hist","ids":h.iter().map(|x| json!([x.0, x.1])).collect::<Vec<_>>(),"published":published}))?;
            Ok(())
        };
        for i in 0..2 {
            if node.call(&json!({"op":"cfg_publish","data_id":cks[i % 3],"value":format!("pre-import-{}-{}", seed, i)}))?["res"] == "ok" { published += 1; }
        }
        hist_event(&mut node, &mut out, published)?;
        let ex = node.call(&json!({"op":"transfer_export"}))?;
        if ex["res"] == "ok" {
            let im = node.call(&json!({"op":"transfer_import","hex":ex["hex"],"ms":30000,"publish_during":5,"tag":format!("{}", seed)}))?;
            writeln!(out, "{}", json!({"event":"import","res":im["res"],"published_during":im["published_during"]}))?;
            if im["res"] == "ok" {
                imported = true;
                published += im["published_during"].as_u64().unwrap_or(0);
                hist_event(&mut node, &mut out, published)?;
                for i in 0..3 {
                    if node.call(&json!({"op":"cfg_publish","data_id":cks[i % 3],"value":format!("post-import-{}-{}", seed, i)}))?["res"] == "ok" { published += 1; }
                }
                hist_event(&mut node, &mut out, published)?;
                node.stop()?;
                node = NodeProc::start(&d, 700)?;
                let w = node.call(&json!({"op":"wait_leader","ms":30000}))?;
                writeln!(out, "{}", json!({"event":"restart","leader":w["res"]}))?;
                if w["res"] == "ok" {
                    for i in 0..3 {
                        if node.call(&json!({"op":"cfg_publish","data_id":cks[i % 3],"value":format!("post-restart-{}-{}", seed, i)}))?["res"] == "ok" { published += 1; }
                    }
                    hist_event(&mut node, &mut out, published)?;
                }
            }
        }
    }
    node.kill();
    out.flush()?;
    println!("{}", json!({"kind":"summary","published":published,"restarts":done_restarts,"imported":imported}));
    Ok(())
}
