//! state-machine level operations of the mini node (filled in by the C01/C07 work)
use rnacos::common::appdata::AppShareData;
use serde_json::Value;
use std::sync::Arc;

pub async fn exec(_app: &Arc<AppShareData>, name: &str, _op: &Value) -> anyhow::Result<Value> {
    Err(anyhow::anyhow!("unknown op {}", name))
}
