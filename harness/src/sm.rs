//! state-machine level operations of the mini node: canonical dump of the served state
//! through the public query messages of the component actors (C01, C07, C08, C19).
use actix::prelude::*;
use rnacos::common::appdata::AppShareData;
use rnacos::config::config_index::ConfigQueryParam;
use rnacos::config::core::{ConfigCmd, ConfigKey, ConfigResult};
use rnacos::config::dal::ConfigHistoryParam;
use rnacos::namespace::model::{NamespaceQueryReq, NamespaceQueryResult};
use rnacos::raft::db::table::{TableManagerQueryReq, TableManagerResult};
use rnacos::sequence::core::SequenceDbManager;
use serde_json::{json, Map, Value};
use std::sync::Arc;

fn hexs(b: &[u8]) -> String {
    match std::str::from_utf8(b) {
        Ok(s) if s.chars().all(|c| !c.is_control()) => s.to_string(),
        _ => b.iter().map(|x| format!("{:02x}", x)).collect::<Vec<_>>().join(""),
    }
}

/// Everything a node serves for configs, namespaces, tables (users), sequences.
pub async fn dump(app: &Arc<AppShareData>) -> anyhow::Result<Value> {
    // ---- configs: complete listing, then GET + history of every listed key
    let param = ConfigQueryParam {
        tenant: None,
        group: None,
        data_id: None,
        like_group: None,
        like_data_id: None,
        namespace_privilege: Default::default(),
        query_context: true,
        offset: 0,
        limit: 1_000_000,
    };
    let mut cfg = Map::new();
    let mut listing_total = 0usize;
    if let ConfigResult::ConfigInfoPage(total, list) = app.config_addr.send(ConfigCmd::QueryPageInfo(Box::new(param))).await?? {
        listing_total = total;
        for it in list {
            let key = ConfigKey::new(it.data_id.as_str(), it.group.as_str(), it.tenant.as_str());
            let mut entry = Map::new();
            entry.insert("listed_md5".into(), json!(it.md5.as_ref().map(|s| s.as_str().to_string())));
            match app.config_addr.send(ConfigCmd::GET(key.clone())).await?? {
                ConfigResult::Data { value, md5, config_type, desc, .. } => {
                    entry.insert("content".into(), json!(value.as_str()));
                    entry.insert("md5".into(), json!(md5.as_str()));
                    entry.insert("md5_ok".into(), json!(rnacos::utils::get_md5(value.as_str()) == *md5.as_str()));
                    entry.insert("type".into(), json!(config_type.map(|s| s.as_str().to_string())));
                    entry.insert("desc".into(), json!(desc.map(|s| s.as_str().to_string())));
                }
                _ => {
                    entry.insert("content".into(), Value::Null);
                }
            }
            let hp = ConfigHistoryParam {
                id: None,
                data_id: Some(it.data_id.as_str().to_string()),
                group: Some(it.group.as_str().to_string()),
                tenant: Some(it.tenant.as_str().to_string()),
                order_by: None,
                order_by_desc: None,
                limit: Some(100000),
                offset: Some(0),
            };
            if let ConfigResult::ConfigHistoryInfoPage(n, hl) = app.config_addr.send(ConfigCmd::QueryHistoryPageInfo(Box::new(hp))).await?? {
                let mut h: Vec<Value> = hl.iter().map(|d| json!({"id": d.id, "content": d.content})).collect();
                h.reverse(); // oldest first
                entry.insert("hist".into(), Value::Array(h));
                entry.insert("hist_total".into(), json!(n));
            }
            cfg.insert(format!("{}|{}|{}", it.tenant, it.group, it.data_id), Value::Object(entry));
        }
    }
    // ---- persistent service instances (registry dump hook; only what a query serves: address, weight, enabled,
    //      health, metadata - no timestamps, no connection ids)
    let mut nam = Map::new();
    let nd: Value = serde_json::from_str(&app.naming_addr.send(rnacos::verif_hooks::DumpNaming).await?)?;
    for svc in nd["services"].as_array().cloned().unwrap_or_default() {
        for i in svc["instances"].as_array().cloned().unwrap_or_default() {
            if i["ephemeral"] == json!(false) {
                let key = format!("{}|{}|{}|{}:{}", svc["namespace"].as_str().unwrap_or(""), svc["group"].as_str().unwrap_or(""),
                    svc["service"].as_str().unwrap_or(""), i["ip"].as_str().unwrap_or(""), i["port"]);
                nam.insert(key, json!({"weight": i["weight"], "enabled": i["enabled"], "healthy": i["healthy"], "metadata": i["metadata"],
                    "listed_perpetual": svc["perpetual"].as_array().map(|p| p.contains(&json!(format!("{}:{}", i["ip"].as_str().unwrap_or(""), i["port"]))))}));
            }
        }
    }
    // (the registry is asked BEFORE the namespace actor: a service created by an applied request announces its namespace to
    //  the namespace actor with a message of its own - once the registry has answered, that notice is in the namespace
    //  actor's mailbox ahead of the listing query below.  The configs above are asked first for the same reason.)
    // ---- namespaces
    let mut ns = Map::new();
    if let NamespaceQueryResult::List(list) = app.namespace_addr.send(NamespaceQueryReq::List).await?? {
        for n in list {
            ns.insert(n.namespace_id.as_str().to_string(), json!({"name": n.namespace_name, "flag": n.flag}));
        }
    }
    // ---- tables
    let mut tables = Map::new();
    if let TableManagerResult::TableNames(names) = app.raft_table_manage.send(TableManagerQueryReq::QueryTableNames).await?? {
        let mut names: Vec<Arc<String>> = names;
        names.sort();
        for name in names {
            let mut t = Map::new();
            if let TableManagerResult::PageListResult(_, list) = app
                .raft_table_manage
                .send(TableManagerQueryReq::QueryPageList { table_name: name.clone(), like_key: None, offset: None, limit: None, is_rev: false })
                .await??
            {
                for (k, v) in list {
                    t.insert(hexs(&k), json!(hexs(&v)));
                }
            }
            if !t.is_empty() {
                // (an empty table is not observable through any served query)
                tables.insert(name.as_str().to_string(), Value::Object(t));
            }
        }
    }
    // ---- sequences (hook: SequenceDbManager has no query message)
    let mut seq = Map::new();
    let sdb: Addr<SequenceDbManager> = app.sequence_db_manager.clone();
    for (k, v) in sdb.send(rnacos::verif_hooks::DumpSequences).await? {
        seq.insert(k, json!(v));
    }
    // ---- replicated cache: the candidate keys of the drivers (the manager has no listing query)
    let mut cch = Map::new();
    for k in CACHE_KEYS {
        let key = rnacos::cache::model::CacheKey::new(rnacos::cache::model::CacheType::String, Arc::new(k.to_string()));
        use rnacos::cache::actor_model::{CacheManagerLocalReq, CacheManagerRaftResult};
        if let CacheManagerRaftResult::Value(v) = app.direct_cache_manager.send(CacheManagerLocalReq::Get(key.clone())).await?? {
            let ttl = match app.direct_cache_manager.send(CacheManagerLocalReq::Ttl(key)).await?? {
                CacheManagerRaftResult::Ttl(t) => json!(t),
                _ => Value::Null,
            };
            cch.insert(k.to_string(), json!({"value": serde_json::to_value(&v)?, "no_expiry": ttl.as_i64().map(|t| t < 0)}));
        }
    }
    // ---- MCP: tool specs (listing + every version) and servers (listing + full value with history)
    use rnacos::mcp::model::actor_model::{McpManagerReq, McpManagerResult, McpToolSpecQueryParam};
    use rnacos::mcp::model::mcp::McpQueryParam;
    let mut tools = Map::new();
    let mut tool_total = 0usize;
    if let McpManagerResult::ToolSpecPageInfo(n, list) = app.mcp_manager.send(McpManagerReq::QueryToolSpec(McpToolSpecQueryParam { offset: 0, limit: 1_000_000, ..Default::default() })).await?? {
        tool_total = n;
        for d in list {
            let key = rnacos::mcp::model::tools::ToolKey::new(d.namespace.clone(), d.group.clone(), d.tool_name.clone());
            let mut e = Map::new();
            e.insert("listed_version".into(), json!(d.version));
            e.insert("listed_def".into(), json!(d.function.description.as_str()));
            if let McpManagerResult::ToolSpecInfo(Some(t)) = app.mcp_manager.send(McpManagerReq::GetToolSpec(key)).await?? {
                e.insert("cur".into(), json!(t.current_version));
                let mut vers = Map::new();
                for (v, sv) in &t.versions {
                    vers.insert(v.to_string(), json!(sv.function.description.as_str()));
                }
                e.insert("vers".into(), Value::Object(vers));
            }
            tools.insert(format!("{}|{}|{}", d.namespace, d.group, d.tool_name), Value::Object(e));
        }
    }
    fn value_json(v: &rnacos::mcp::model::mcp::McpServerValue) -> Value {
        let mut ts: Vec<Value> = v.tools.iter().map(|t| json!({"k": t.tool_key.tool_name.as_str(), "ver": t.tool_version, "c": t.spec.description.as_str()})).collect();
        ts.sort_by_key(|t| t["k"].as_str().unwrap_or("").to_string());
        json!({"vid": v.id, "tools": ts})
    }
    let mut srv = Map::new();
    let mut srv_total = 0usize;
    if let McpManagerResult::ServerPageInfo(n, list) = app.mcp_manager.send(McpManagerReq::QueryServer(McpQueryParam { offset: 0, limit: 1_000_000, namespace_id: None, name_filter: None })).await?? {
        srv_total = n;
        for d in list {
            let mut e = Map::new();
            e.insert("name".into(), json!(d.name.as_str()));
            e.insert("namespace".into(), json!(d.namespace.as_str()));
            e.insert("auth_keys".into(), json!(d.auth_keys.iter().map(|k| k.as_str().to_string()).collect::<Vec<_>>()));
            if let McpManagerResult::ServerInfo(Some(s)) = app.mcp_manager.send(McpManagerReq::GetServer(d.id)).await?? {
                e.insert("cur".into(), value_json(&s.current_value));
                e.insert("rel".into(), value_json(&s.release_value));
                e.insert("hist".into(), Value::Array(s.histories.iter().map(|h| value_json(h)).collect()));
                e.insert("unique_key".into(), json!(s.unique_key.as_str()));
            }
            srv.insert(d.id.to_string(), Value::Object(e));
        }
    }
    Ok(json!({"cfg": cfg, "listing_total": listing_total, "ns": ns, "tables": tables, "seq": seq,
        "nam": nam, "cch": cch, "tool": tools, "tool_total": tool_total, "srv": srv, "srv_total": srv_total}))
}

/// the cache keys the drivers use (DirectCacheManager offers no listing)
pub const CACHE_KEYS: [&str; 4] = ["c1", "c2", "c3", "c4"];

pub async fn exec(app: &Arc<AppShareData>, name: &str, _op: &Value) -> anyhow::Result<Value> {
    match name {
        "dump" => {
            let d = dump(app).await?;
            Ok(json!({"res":"ok","dump":d}))
        }
        _ => Err(anyhow::anyhow!("unknown op {}", name)),
    }
}
