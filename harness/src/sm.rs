//! state-machine level operations of the mini node: canonical dump of the served state
//! through the public query messages of the component actors (C01, C07, C08, C19).
use actix::prelude::*;
use rnacos::common::appdata::AppShareData;
use rnacos::config::config_index::ConfigQueryParam;
use rnacos::config::core::{ConfigCmd, ConfigKey, ConfigResult};
use rnacos::config::dal::ConfigHistoryParam;
use rnacos::namespace::model::{NamespaceQueryReq, NamespaceQueryResult};
use rnacos::raft::db::table::{TableManagerQueryReq, TableManagerResult};
use rnacos::sequence::core::SequenceDbManager;
use serde_json::{json, Map, Value};
use std::sync::Arc;

fn hexs(b: &[u8]) -> String {
    match std::str::from_utf8(b) {
        Ok(s) if s.chars().all(|c| !c.is_control()) => s.to_string(),
        _ => b.iter().map(|x| format!("{:02x}", x)).collect::<Vec<_>>().join(""),
    }
}

/// Everything a node serves for configs, namespaces, tables (users), sequences.
pub async fn dump(app: &Arc<AppShareData>) -> anyhow::Result<Value> {
    // ---- configs: complete listing, then GET + history of every listed key
    let param = ConfigQueryParam {
        tenant: None,
        group: None,
        data_id: None,
        like_group: None,
        like_data_id: None,
        namespace_privilege: Default::default(),
        query_context: true,
        offset: 0,
        limit: 1_000_000,
    };
    let mut cfg = Map::new();
    let mut listing_total = 0usize;
    if let ConfigResult::ConfigInfoPage(total, list) = app.config_addr.send(ConfigCmd::QueryPageInfo(Box::new(param))).await?? {
        listing_total = total;
        for it in list {
            let key = ConfigKey::new(it.data_id.as_str(), it.group.as_str(), it.tenant.as_str());
            let mut entry = Map::new();
            entry.insert("listed_md5".into(), json!(it.md5.as_ref().map(|s| s.as_str().to_string())));
            match app.config_addr.send(ConfigCmd::GET(key.clone())).await?? {
                ConfigResult::Data { value, md5, config_type, desc, .. } => {
                    entry.insert("content".into(), json!(value.as_str()));
                    entry.insert("md5".into(), json!(md5.as_str()));
                    entry.insert("md5_ok".into(), json!(rnacos::utils::get_md5(value.as_str()) == *md5.as_str()));
                    entry.insert("type".into(), json!(config_type.map(|s| s.as_str().to_string())));
                    entry.insert("desc".into(), json!(desc.map(|s| s.as_str().to_string())));
                }
                _ => {
                    entry.insert("content".into(), Value::Null);
                }
            }
            let hp = ConfigHistoryParam {
                id: None,
                data_id: Some(it.data_id.as_str().to_string()),
                group: Some(it.group.as_str().to_string()),
                tenant: Some(it.tenant.as_str().to_string()),
                order_by: None,
                order_by_desc: None,
                limit: Some(100000),
                offset: Some(0),
            };
            if let ConfigResult::ConfigHistoryInfoPage(n, hl) = app.config_addr.send(ConfigCmd::QueryHistoryPageInfo(Box::new(hp))).await?? {
                let mut h: Vec<Value> = hl.iter().map(|d| json!({"id": d.id, "content": d.content})).collect();
                h.reverse(); // oldest first
                entry.insert("hist".into(), Value::Array(h));
                entry.insert("hist_total".into(), json!(n));
            }
            cfg.insert(format!("{}|{}|{}", it.tenant, it.group, it.data_id), Value::Object(entry));
        }
    }
    // ---- namespaces
    let mut ns = Map::new();
    if let NamespaceQueryResult::List(list) = app.namespace_addr.send(NamespaceQueryReq::List).await?? {
        for n in list {
            ns.insert(n.namespace_id.as_str().to_string(), json!({"name": n.namespace_name, "flag": n.flag}));
        }
    }
    // ---- tables
    let mut tables = Map::new();
    if let TableManagerResult::TableNames(names) = app.raft_table_manage.send(TableManagerQueryReq::QueryTableNames).await?? {
        let mut names: Vec<Arc<String>> = names;
        names.sort();
        for name in names {
            let mut t = Map::new();
            if let TableManagerResult::PageListResult(_, list) = app
                .raft_table_manage
                .send(TableManagerQueryReq::QueryPageList { table_name: name.clone(), like_key: None, offset: None, limit: None, is_rev: false })
                .await??
            {
                for (k, v) in list {
                    t.insert(hexs(&k), json!(hexs(&v)));
                }
            }
            if !t.is_empty() {
                // (an empty table is not observable through any served query)
                tables.insert(name.as_str().to_string(), Value::Object(t));
            }
        }
    }
    // ---- sequences (hook: SequenceDbManager has no query message)
    let mut seq = Map::new();
    let sdb: Addr<SequenceDbManager> = app.sequence_db_manager.clone();
    for (k, v) in sdb.send(rnacos::verif_hooks::DumpSequences).await? {
        seq.insert(k, json!(v));
    }
    Ok(json!({"cfg": cfg, "listing_total": listing_total, "ns": ns, "tables": tables, "seq": seq}))
}

pub async fn exec(app: &Arc<AppShareData>, name: &str, _op: &Value) -> anyhow::Result<Value> {
    match name {
        "dump" => {
            let d = dump(app).await?;
            Ok(json!({"res":"ok","dump":d}))
        }
        _ => Err(anyhow::anyhow!("unknown op {}", name)),
    }
}
