//! C16 / C17 / C18: access-control decisions of the REAL actix apps (in-process test services on a
//! booted mini node): route inventory from the apps' ResourceMap, and execution of the request
//! cross-products enumerated by TLC from Authz.tla.
use crate::util::*;
use actix_web::dev::{Service, ServiceResponse};
use actix_web::{test, web, App, HttpRequest};
use rnacos::cache::actor_model::{CacheManagerRaftReq, CacheSetParam};
use rnacos::cache::model::{CacheKey, CacheType, CacheValue};
use rnacos::common::appdata::AppShareData;
use rnacos::common::model::privilege::PrivilegeGroup;
use rnacos::common::model::{TokenSession, UserSession};
use rnacos::console::middle::login_middle::CheckLogin;
use rnacos::web_config::{app_config, console_config};
use serde_json::{json, Value};
use std::collections::BTreeSet;
use std::ops::Deref;
use std::sync::Arc;

async fn resource_map_probe(req: HttpRequest) -> String {
    format!("{:?}", req.resource_map())
}

/// patterns out of the Debug form of actix's ResourceMap
fn patterns_of(debug: &str) -> Vec<String> {
    // ResourceDef { ... pat_type: ..., name: .., patterns: Single("/x") | List(["/a", "/b"]) ... }
    // nested scopes print their prefix in the parent and the children relative to it: rebuild full paths
    // by walking the text: we rely on `root.pattern()` style output "pattern: Some(\"...\")" when present.
    let mut out = BTreeSet::new();
    let mut rest = debug;
    while let Some(i) = rest.find("pattern: Some(\"") {
        let s = &rest[i + 15..];
        if let Some(j) = s.find("\")") {
            out.insert(s[..j].to_string());
            rest = &s[j..];
        } else {
            break;
        }
    }
    out.into_iter().collect()
}

pub(crate) async fn put_cache(app: &Arc<AppShareData>, ty: CacheType, token: &str, value: CacheValue, expired: bool) -> anyhow::Result<()> {
    let mut p = CacheSetParam::new(CacheKey::new(ty, Arc::new(token.to_string())), value);
    let now = rnacos::now_second_i32();
    if expired {
        p.now = now - 1000;
        p.ttl = 10;
    } else {
        p.now = now;
        p.ttl = 36000;
    }
    app.direct_cache_manager.send(CacheManagerRaftReq::Set(p)).await??;
    Ok(())
}

/// the same through the form in which a session reaches every node but the one that took the login, and that node too
/// after a restart: the request as the Raft log entry carries it (serde JSON of the real types), decoded again, and the
/// value once more through the snapshot encoding of the cache (CacheValue::to_bytes / from_bytes)
pub(crate) async fn put_cache_replicated(app: &Arc<AppShareData>, ty: CacheType, token: &str, value: CacheValue) -> anyhow::Result<()> {
    let bytes = value.to_bytes();
    let value = CacheValue::from_bytes(&bytes, ty.clone())?;
    let mut p = CacheSetParam::new(CacheKey::new(ty, Arc::new(token.to_string())), value);
    p.now = rnacos::now_second_i32();
    p.ttl = 36000;
    let wire = serde_json::to_string(&CacheManagerRaftReq::Set(p))?;
    let req: CacheManagerRaftReq = serde_json::from_str(&wire)?;
    app.direct_cache_manager.send(req).await??;
    Ok(())
}

fn decision(resp: &ServiceResponse<impl actix_web::body::MessageBody>) -> Value {
    let st = resp.status().as_u16();
    let no_login = resp.headers().contains_key("No-Login");
    let no_perm = resp.headers().contains_key("No-Permission");
    let redirect = resp.headers().get("Location").map(|v| v.to_str().unwrap_or("").to_string()).unwrap_or_default();
    let login_redirect = st == 302 && redirect.contains("/p/login");
    let noperm_redirect = st == 302 && redirect.contains("/nopermission");
    let d = if no_login || login_redirect {
        "no_login"
    } else if no_perm || noperm_redirect {
        "no_permission"
    } else if st == 403 {
        "forbidden"
    } else if st == 404 || st == 405 {
        "no_route"
    } else {
        "handled"
    };
    let pattern = resp.request().match_pattern().unwrap_or_default();
    json!({"decision": d, "status": st, "pattern": pattern})
}

pub fn main_authz(args: &[String]) -> anyhow::Result<()> {
    let mode = args[0].clone();
    let file = args.get(1).cloned().unwrap_or_default();
    let dir = tempfile::tempdir()?;
    let d = std::env::var("RNVERIF_DATA_DIR").unwrap_or(dir.path().to_string_lossy().into_owned());
    std::env::set_var("RNACOS_ENABLE_OPEN_API_AUTH", "true");
    std::env::set_var("RNACOS_CONSOLE_ENABLE_CAPTCHA", "false");
    std::env::set_var("RNACOS_CLUSTER_TOKEN", "verif-cluster-token");
    if args[0] == "c16-restore-prepare" || args[0] == "c16-restore-check" || args[0] == "c16-lifecycle" {
        // a real login (3 s token life time) on a single-member node; the token survives in snapshot + log
        std::env::set_var("RNVERIF_LEADER", "1");
        std::env::set_var("RNACOS_API_LOGIN_TIMEOUT", "3");
        std::env::set_var("RNACOS_INIT_ADMIN_USERNAME", "admin");
        std::env::set_var("RNACOS_INIT_ADMIN_PASSWORD", "admin-pw-16");
    }
    if args[0] == "grpc" || args[0] == "grpc-inventory" {
        std::env::set_var("RNVERIF_LEADER", "1");
    }
    if args[0] == "c18" {
        std::env::set_var("RNVERIF_LEADER", "1");
        std::env::set_var("RNACOS_ENABLE_OPEN_API_AUTH", "false");
    }
    let sys = actix_rt::System::new();
    let r: anyhow::Result<()> = sys.block_on(async move {
        let app = crate::node::boot(&d).await?;
        match mode.as_str() {
            "grpc" | "grpc-inventory" => {
                crate::grpcauth::run(app.clone(), mode.as_str(), &file).await?;
            }
            "c16-restore-prepare" | "c16-restore-check" | "c16-lifecycle" => {
                let w = crate::node::exec(&app, &json!({"op":"wait_leader","ms":20000})).await;
                if w["res"] != "ok" {
                    return Err(anyhow::anyhow!("node did not become leader"));
                }
                let conf = app.sys_config.deref().clone();
                let svc = test::init_service(App::new().app_data(web::Data::new(app.clone())).app_data(web::Data::new(app.config_addr.clone())).app_data(web::Data::new(app.naming_addr.clone())).app_data(web::Data::new(app.bi_stream_manage.clone())).wrap(rnacos::openapi::middle::auth_middle::ApiCheckAuth::new(app.clone())).configure(app_config(conf))).await;
                let probe = |tok: String| {
                    test::TestRequest::get().uri(&format!("/nacos/v1/cs/configs?dataId=restore16&group=g&accessToken={}", tok)).to_request()
                };
                if mode == "c16-restore-prepare" || mode == "c16-lifecycle" {
                    // the admin user is created asynchronously after the node became leader
                    let mut token = String::new();
                    for _ in 0..40 {
                        let req = test::TestRequest::post().uri("/nacos/v1/auth/login").insert_header(("Content-Type", "application/x-www-form-urlencoded")).set_payload("username=admin&password=admin-pw-16").to_request();
                        let resp = test::call_service(&svc, req).await;
                        let body = test::read_body(resp).await;
                        let v: Value = serde_json::from_slice(&body).unwrap_or(Value::Null);
                        if let Some(t) = v["accessToken"].as_str() {
                            token = t.to_string();
                            break;
                        }
                        tokio::time::sleep(std::time::Duration::from_millis(250)).await;
                    }
                    if token.is_empty() {
                        return Err(anyhow::anyhow!("login did not return a token"));
                    }
                    if mode == "c16-lifecycle" {
                        // the life of one real token on the real middleware: the same token every 400 ms from the login
                        // until well after its life time (3 s); one event per request (TokenLife.tla / Trace_TokenLife.tla)
                        let t0 = std::time::Instant::now();
                        println!("{}", json!({"event":"login","ttl_ms":3000}));
                        while t0.elapsed() < std::time::Duration::from_millis(9500) {
                            let t = t0.elapsed().as_millis() as u64;
                            let resp = svc.call(probe(token.clone())).await;
                            let served = match resp { Ok(r) => decision(&r)["decision"] != "forbidden", Err(e) => e.as_response_error().status_code().as_u16() != 403 };
                            println!("{}", json!({"event":"use","t_ms":t,"decision": if served {"served"} else {"refused"}}));
                            tokio::time::sleep(std::time::Duration::from_millis(400)).await;
                        }
                        return Ok(());
                    }
                    let resp = svc.call(probe(token.clone())).await;
                    let works = match resp { Ok(r) => decision(&r)["decision"] != "forbidden", Err(e) => e.as_response_error().status_code().as_u16() != 403 };
                    // the state (with the live token) goes into a snapshot, as the snapshot policy would do it
                    let c = crate::node::exec(&app, &json!({"op":"compact"})).await;
                    println!("{}", json!({"kind":"token","token":token,"works":works,"compact":c["res"]}));
                    tokio::time::sleep(std::time::Duration::from_millis(700)).await;
                } else {
                    let token = file.clone();
                    // well past the token's life time
                    tokio::time::sleep(std::time::Duration::from_millis(4500)).await;
                    let resp = svc.call(probe(token)).await;
                    let d = match resp { Ok(r) => decision(&r), Err(e) => { let st = e.as_response_error().status_code().as_u16(); json!({"decision": if st == 403 {"forbidden"} else {"handled"}, "status": st}) } };
                    println!("{}", json!({"kind":"restored","d":d}));
                }
            }
            "inventory" => {
                let console = test::init_service(App::new().app_data(web::Data::new(app.clone())).app_data(web::Data::new(app.config_addr.clone())).app_data(web::Data::new(app.naming_addr.clone())).app_data(web::Data::new(app.bi_stream_manage.clone())).configure(console_config).route("/__verif_routes", web::get().to(resource_map_probe))).await;
                let resp = test::call_service(&console, test::TestRequest::get().uri("/__verif_routes").to_request()).await;
                let body = test::read_body(resp).await;
                let ctext = String::from_utf8_lossy(&body).to_string();
                let conf = app.sys_config.deref().clone();
                let main = test::init_service(App::new().app_data(web::Data::new(app.clone())).app_data(web::Data::new(app.config_addr.clone())).app_data(web::Data::new(app.naming_addr.clone())).app_data(web::Data::new(app.bi_stream_manage.clone())).configure(app_config(conf)).route("/__verif_routes", web::get().to(resource_map_probe))).await;
                let resp = test::call_service(&main, test::TestRequest::get().uri("/__verif_routes").to_request()).await;
                let body = test::read_body(resp).await;
                let mtext = String::from_utf8_lossy(&body).to_string();
                if std::env::var("RNVERIF_DEBUG").is_ok() {
                    eprintln!("{}", &ctext[..ctext.len().min(3000)]);
                }
                let _ = patterns_of;
                println!("{}", json!({"console_debug": ctext, "main_debug": mtext}));
            }
            "c17" => {
                // sessions
                for (tok, roles) in [("t-m", vec!["0"]), ("t-d", vec!["1"]), ("t-v", vec!["2"]), ("t-u", vec!["9"]), ("t-vd", vec!["2", "1"]), ("t-vu", vec!["2", "9"]), ("t-dm", vec!["1", "0"]), ("t-none", vec![])] {
                    let s = UserSession { username: Arc::new(format!("user{}", tok)), nickname: None, roles: roles.iter().map(|r| Arc::new(r.to_string())).collect(), namespace_privilege: None, extend_infos: Default::default(), refresh_time: rnacos::now_second_i32() as u32 };
                    put_cache(&app, CacheType::UserSession, tok, CacheValue::UserSession(Arc::new(s)), false).await?;
                }
                // "unknown role strings": besides "9", strings that LOOK like a role value without being one (a lenient
                // comparison or a numeric parse would take them for a role); the credential "unknown" (and "visitor + unknown")
                // of request n uses string n mod len
                const UNKNOWN_ROLES: [&str; 8] = ["9", "00", "+1", "02", " 0", "1 ", "admin", "-0"];
                for (i, u) in UNKNOWN_ROLES.iter().enumerate() {
                    for (prefix, roles) in [("t-u", vec![*u]), ("t-vu", vec!["2", *u])] {
                        let s = UserSession { username: Arc::new(format!("user{}{}", prefix, i)), nickname: None, roles: roles.iter().map(|r| Arc::new(r.to_string())).collect(), namespace_privilege: None, extend_infos: Default::default(), refresh_time: rnacos::now_second_i32() as u32 };
                        put_cache(&app, CacheType::UserSession, &format!("{}-{}", prefix, i), CacheValue::UserSession(Arc::new(s)), false).await?;
                    }
                }
                let s = UserSession { username: Arc::new("expired".to_string()), nickname: None, roles: vec![Arc::new("0".to_string())], namespace_privilege: None, extend_infos: Default::default(), refresh_time: 0 };
                put_cache(&app, CacheType::UserSession, "t-expired", CacheValue::UserSession(Arc::new(s)), true).await?;
                let svc = test::init_service(App::new().app_data(web::Data::new(app.clone())).app_data(web::Data::new(app.config_addr.clone())).app_data(web::Data::new(app.naming_addr.clone())).app_data(web::Data::new(app.bi_stream_manage.clone())).wrap(CheckLogin::new(app.clone())).configure(console_config)).await;
                let reqs = read_ndjson(&file)?;
                let tokmap = |name: &str| -> String {
                    match name {
                        "none" => "".into(),
                        "garbage" => "zzz-not-a-session".into(),
                        "expired" => "t-expired".into(),
                        "manager" => "t-m".into(),
                        "developer" => "t-d".into(),
                        "visitor" => "t-v".into(),
                        "unknown" => "t-u".into(),
                        "visitor_developer" => "t-vd".into(),
                        "visitor_unknown" => "t-vu".into(),
                        "developer_manager" => "t-dm".into(),
                        "noroles" => "t-none".into(),
                        x => x.to_string(),
                    }
                };
                for (rn, r) in reqs.iter().enumerate() {
                    let mut dmap = serde_json::Map::new();
                    for t in r["tokens"].as_array().cloned().unwrap_or_default() {
                        let tname = t.as_str().unwrap();
                        let method = actix_web::http::Method::from_bytes(r["method"].as_str().unwrap().as_bytes())?;
                        let mut tr = test::TestRequest::default().method(method).uri(r["path"].as_str().unwrap());
                        let tok = match tname {
                            "unknown" => format!("t-u-{}", rn % 8),
                            "visitor_unknown" => format!("t-vu-{}", rn % 8),
                            _ => tokmap(tname),
                        };
                        if !tok.is_empty() {
                            tr = tr.insert_header(("Token", tok));
                        }
                        let resp = svc.call(tr.to_request()).await;
                        let d = match resp {
                            Ok(resp) => decision(&resp),
                            Err(e) => { let st = e.as_response_error().status_code().as_u16(); json!({"decision": if st == 404 || st == 405 {"no_route"} else {"handled"}, "status": st}) }
                        };
                        let canon = r["canon"].as_str().unwrap_or("");
                        let pat = d["pattern"].as_str().unwrap_or("");
                        let dec = if d["decision"] == "handled" && !pat.is_empty() && pat != canon { json!("other_route") } else { d["decision"].clone() };
                        dmap.insert(tname.to_string(), dec);
                    }
                    println!("{}", json!({"kind":"obs","path":r["path"],"canon":r["canon"],"segs":r["segs"],"spelling":r["spelling"],"method":r["method"],"d":dmap}));
                }
            }
            "c16" => {
                let ts = TokenSession { username: Arc::new("apiuser".to_string()), roles: vec![Arc::new("0".to_string())], extend_infos: Default::default() };
                put_cache(&app, CacheType::ApiTokenSession, "tok-valid", CacheValue::ApiTokenSession(Arc::new(ts.clone())), false).await?;
                put_cache(&app, CacheType::ApiTokenSession, "tok-expired", CacheValue::ApiTokenSession(Arc::new(ts)), true).await?;
                let conf = app.sys_config.deref().clone();
                if !conf.openapi_enable_auth {
                    return Err(anyhow::anyhow!("open api auth is not enabled in this node"));
                }
                let svc = test::init_service(App::new().app_data(web::Data::new(app.clone())).app_data(web::Data::new(app.config_addr.clone())).app_data(web::Data::new(app.naming_addr.clone())).app_data(web::Data::new(app.bi_stream_manage.clone())).wrap(rnacos::openapi::middle::auth_middle::ApiCheckAuth::new(app.clone())).configure(app_config(conf))).await;
                let reqs = read_ndjson(&file)?;
                let states = [("absent", ""), ("empty", ""), ("garbage", "zzz-not-a-token"), ("expired", "tok-expired"), ("valid", "tok-valid")];
                let carriers = ["authorization", "bearer", "header", "query", "body"];
                for r in reqs.iter() {
                    let mut dmap = serde_json::Map::new();
                    let mut smap = serde_json::Map::new();
                    for (st, tok) in states.iter() {
                        for carrier in carriers.iter() {
                            if *st == "absent" && *carrier != "authorization" {
                                continue;
                            }
                            let method_s = r["method"].as_str().unwrap();
                            if *carrier == "body" && method_s == "GET" {
                                continue;
                            }
                            let name = format!("{}_{}", st, carrier);
                            let method = actix_web::http::Method::from_bytes(method_s.as_bytes())?;
                            let mut uri = r["path"].as_str().unwrap().to_string();
                            let mut tr = test::TestRequest::default().method(method);
                            if *st != "absent" {
                                match *carrier {
                                    "authorization" => tr = tr.insert_header(("Authorization", tok.to_string())),
                                    "bearer" => tr = tr.insert_header(("Authorization", format!("Bearer {}", tok))),
                                    "header" => tr = tr.insert_header(("accessToken", tok.to_string())),
                                    "query" => uri = format!("{}{}accessToken={}", uri, if uri.contains('?') { "&" } else { "?" }, tok),
                                    _ => tr = tr.insert_header(("Content-Type", "application/x-www-form-urlencoded")).set_payload(format!("accessToken={}", tok)),
                                }
                            }
                            tr = tr.uri(&uri);
                            let fut = svc.call(tr.to_request());
                            let d = match tokio::time::timeout(std::time::Duration::from_millis(1500), fut).await {
                                Ok(Ok(resp)) => decision(&resp),
                                Ok(Err(e)) => { let stc = e.as_response_error().status_code().as_u16(); json!({"decision": if stc == 404 || stc == 405 {"no_route"} else if stc == 403 {"forbidden"} else {"handled"}, "status": stc}) }
                                Err(_) => json!({"decision":"handled","status":0}), // a handler that waits (long poll) was reached
                            };
                            // a spelling variant that lands on ANOTHER route (e.g. the UI catch-all) did not reach this endpoint
                            let canon = r["canon"].as_str().unwrap_or("");
                            let pat = d["pattern"].as_str().unwrap_or("");
                            let dec = if d["decision"] == "handled" && !pat.is_empty() && pat != canon { json!("other_route") } else { d["decision"].clone() };
                            dmap.insert(name.clone(), dec);
                            smap.insert(name, json!(st));
                        }
                    }
                    println!("{}", json!({"kind":"obs","path":r["path"],"canon":r["canon"],"segs":r["segs"],"spelling":r["spelling"],"method":r["method"],"d":dmap,"tokstate":smap}));
                }
            }
            "c18" => {
                use actix::prelude::*;
                use rnacos::config::model::ConfigRaftCmd;
                use rnacos::namespace::model::{NamespaceParam, NamespaceRaftReq};
                use rnacos::naming::core::NamingCmd;
                use rnacos::naming::model::Instance;
                let w = crate::node::exec(&app, &json!({"op":"wait_leader","ms":20000})).await;
                if w["res"] != "ok" {
                    return Err(anyhow::anyhow!("node did not become leader"));
                }
                let nss = [("", "pub"), ("nsA", "nsA"), ("nsB", "nsB")];
                let seed = |app: Arc<AppShareData>| async move {
                    for (ns, label) in nss.iter() {
                        let nsname = if ns.is_empty() { "public".to_string() } else { format!("NAME-MARK-{}", label) };
                        app.namespace_addr.send(NamespaceRaftReq::Set(NamespaceParam { namespace_id: Arc::new(ns.to_string()), namespace_name: Some(nsname), r#type: None })).await??;
                        let key = if ns.is_empty() { format!("d1-MARK-{}\u{2}g", label) } else { format!("d1-MARK-{}\u{2}g\u{2}{}", label, ns) };
                        app.config_addr.send(ConfigRaftCmd::ConfigAdd { key, value: Arc::new(format!("CONTENT-MARK-{}", label)), config_type: None, desc: None, history_id: 1, history_table_id: None, op_time: 1, op_user: None }).await??;
                        let newkey = if ns.is_empty() { "new1\u{2}g".to_string() } else { format!("new1\u{2}g\u{2}{}", ns) };
                        app.config_addr.send(ConfigRaftCmd::ConfigRemove { key: newkey }).await??;
                        // (an import writes the uploaded archive - the public namespace's config - into the addressed namespace)
                        for (_, other) in nss.iter().filter(|(_, l)| l != label) {
                            let k = if ns.is_empty() { format!("d1-MARK-{}\u{2}g", other) } else { format!("d1-MARK-{}\u{2}g\u{2}{}", other, ns) };
                            app.config_addr.send(ConfigRaftCmd::ConfigRemove { key: k }).await??;
                        }
                        let mut i = Instance { ip: Arc::new(format!("10.9.9.{}", if ns.is_empty() { 1 } else if *ns == "nsA" { 2 } else { 3 })), port: 8080, weight: 1.0, enabled: true, healthy: true, ephemeral: true, cluster_name: "DEFAULT".into(), service_name: Arc::new(format!("svc-MARK-{}", label)), group_name: Arc::new("DEFAULT_GROUP".into()), namespace_id: Arc::new(if ns.is_empty() { "public".to_string() } else { ns.to_string() }), ..Default::default() };
                        i.generate_key();
                        app.naming_addr.send(NamingCmd::Update(i, None)).await??;
                        // undo what the write endpoints create
                        let nsid = if ns.is_empty() { "public".to_string() } else { ns.to_string() };
                        let mut extra = Instance { ip: Arc::new("10.7.7.7".to_string()), port: 7777, service_name: Arc::new(format!("svc-MARK-{}", label)), group_name: Arc::new("DEFAULT_GROUP".into()), namespace_id: Arc::new(nsid.clone()), ..Default::default() };
                        extra.generate_key();
                        app.naming_addr.send(NamingCmd::Delete(extra)).await??;
                        app.naming_addr.send(NamingCmd::RemoveService(rnacos::naming::model::ServiceKey::new(&nsid, "DEFAULT_GROUP", "svc-new"))).await.ok();
                        // one MCP tool spec per namespace (and nothing else under the group used by the write endpoints)
                        use rnacos::mcp::model::actor_model::McpManagerRaftReq;
                        use rnacos::mcp::model::tools::{ToolKey, ToolSpecParam};
                        let grp = Arc::new(format!("g-MARK-{}", label));
                        app.mcp_manager.send(McpManagerRaftReq::UpdateToolSpec(ToolSpecParam { namespace: Arc::new(nsid.clone()), group: grp.clone(), tool_name: Arc::new("t1".to_string()), parameters: Default::default(), version: 1, update_time: 1, op_user: None })).await??;
                        app.mcp_manager.send(McpManagerRaftReq::RemoveToolSpec(ToolKey::new(Arc::new(nsid.clone()), grp.clone(), Arc::new("tnew".to_string())))).await.ok();
                    }
                    Ok::<(), anyhow::Error>(())
                };
                seed(app.clone()).await?;
                let digest = |app: Arc<AppShareData>| async move {
                    let d = crate::sm::dump(&app).await?;
                    let n: Value = serde_json::from_str(&app.naming_addr.send(rnacos::verif_hooks::DumpNaming).await?)?;
                    let mut cfg = serde_json::Map::new();
                    for (k, v) in d["cfg"].as_object().cloned().unwrap_or_default() {
                        cfg.insert(k, v["content"].clone());
                    }
                    let mut ns = serde_json::Map::new();
                    for (k, v) in d["ns"].as_object().cloned().unwrap_or_default() {
                        ns.insert(k, v["name"].clone());
                    }
                    let inst: Vec<Value> = n["services"].as_array().cloned().unwrap_or_default().iter().map(|s| json!([s["namespace"], s["service"], s["instances"].as_array().map(|a| a.iter().map(|i| json!([i["ip"], i["port"], i["enabled"], i["weight"]])).collect::<Vec<_>>())])).collect();
                    // MCP tool specs of the three namespaces
                    let mut tools = vec![];
                    for nsid in ["public", "nsA", "nsB"] {
                        use rnacos::mcp::model::actor_model::{McpManagerReq, McpManagerResult, McpToolSpecQueryParam};
                        let q = McpToolSpecQueryParam { offset: 0, limit: 1000, namespace_id: Some(nsid.to_string()), group_filter: None, tool_name_filter: None };
                        if let Ok(Ok(McpManagerResult::ToolSpecPageInfo(_, list))) = app.mcp_manager.send(McpManagerReq::QueryToolSpec(q)).await {
                            for t in list {
                                tools.push(json!([t.namespace.as_str(), t.group.as_str(), t.tool_name.as_str()]));
                            }
                        }
                    }
                    Ok::<Value, anyhow::Error>(json!({"cfg": cfg, "ns": ns, "inst": inst, "tools": tools}))
                };
                let base = digest(app.clone()).await?;
                let svc = test::init_service(App::new().app_data(web::Data::new(app.clone())).app_data(web::Data::new(app.config_addr.clone())).app_data(web::Data::new(app.naming_addr.clone())).app_data(web::Data::new(app.bi_stream_manage.clone())).wrap(CheckLogin::new(app.clone())).configure(console_config)).await;
                let reqs = read_ndjson(&file)?;
                let mut archive: Vec<u8> = vec![];
                let mut made: BTreeSet<String> = BTreeSet::new();
                for r in reqs.iter() {
                    // session for this privilege shape
                    let pv = &r["priv"];
                    let tok = format!("t18-{}", pv.to_string().bytes().fold(7u64, |a, b| a.wrapping_mul(131).wrapping_add(b as u64)));
                    if !made.contains(&tok) {
                        let to_set = |v: &Value| -> Option<Arc<std::collections::HashSet<Arc<String>>>> { Some(Arc::new(v.as_array().cloned().unwrap_or_default().iter().map(|x| Arc::new(x.as_str().unwrap().to_string())).collect())) };
                        let pg = PrivilegeGroup { enabled: true, whitelist_is_all: pv["wl_all"].as_bool().unwrap(), whitelist: to_set(&pv["wl"]), blacklist_is_all: pv["bl_all"].as_bool().unwrap(), blacklist: to_set(&pv["bl"]) };
                        let sess = UserSession { username: Arc::new(format!("u{}", tok)), nickname: None, roles: vec![Arc::new("0".to_string())], namespace_privilege: Some(pg), extend_infos: Default::default(), refresh_time: rnacos::now_second_i32() as u32 };
                        // two of three privilege shapes use a session in its replicated / restored form, the third the
                        // in-memory value the login node holds
                        if made.len() % 3 == 2 {
                            put_cache(&app, CacheType::UserSession, &tok, CacheValue::UserSession(Arc::new(sess)), false).await?;
                        } else {
                            put_cache_replicated(&app, CacheType::UserSession, &tok, CacheValue::UserSession(Arc::new(sess))).await?;
                        }
                        made.insert(tok.clone());
                    }
                    let method = actix_web::http::Method::from_bytes(r["method"].as_str().unwrap().as_bytes())?;
                    let mut uri = r["path"].as_str().unwrap().to_string();
                    if let Some(q) = r["query"].as_object() {
                        let qs: Vec<String> = q.iter().map(|(k, v)| format!("{}={}", k, v.as_str().unwrap_or(""))).collect();
                        if !qs.is_empty() {
                            uri = format!("{}?{}", uri, qs.join("&"));
                        }
                    }
                    let mut tr = test::TestRequest::default().method(method).uri(&uri).insert_header(("Token", tok.clone()));
                    if let Some(h) = r["headers"].as_object() {
                        for (k, v) in h {
                            tr = tr.insert_header((k.as_str(), v.as_str().unwrap_or("").to_string()));
                        }
                    }
                    if let Some(mp) = r.get("multipart").filter(|m| m.is_object()) {
                        // an upload: the archive is what the download endpoint itself produces for the public namespace
                        // (fetched with an unrestricted session), plus the text fields of the form
                        if archive.is_empty() {
                            let all = PrivilegeGroup::<Arc<String>>::all();
                            let sess = UserSession { username: Arc::new("uarchive".to_string()), nickname: None, roles: vec![Arc::new("0".to_string())], namespace_privilege: Some(all), extend_infos: Default::default(), refresh_time: rnacos::now_second_i32() as u32 };
                            put_cache(&app, CacheType::UserSession, "t18-archive", CacheValue::UserSession(Arc::new(sess)), false).await?;
                            let resp = test::call_service(&svc, test::TestRequest::get().uri("/rnacos/api/console/v2/config/download?tenant=").insert_header(("Token", "t18-archive")).to_request()).await;
                            archive = test::read_body(resp).await.to_vec();
                            if archive.len() < 30 || &archive[..2] != b"PK" {
                                return Err(anyhow::anyhow!("could not fetch an archive to upload"));
                            }
                        }
                        let bnd = "----verifboundary7f3a";
                        let mut body: Vec<u8> = vec![];
                        for (k, v) in mp.as_object().unwrap() {
                            body.extend_from_slice(format!("--{}\r\nContent-Disposition: form-data; name=\"{}\"\r\n\r\n{}\r\n", bnd, k, v.as_str().unwrap_or("")).as_bytes());
                        }
                        body.extend_from_slice(format!("--{}\r\nContent-Disposition: form-data; name=\"file\"; filename=\"a.zip\"\r\nContent-Type: application/zip\r\n\r\n", bnd).as_bytes());
                        body.extend_from_slice(&archive);
                        body.extend_from_slice(format!("\r\n--{}--\r\n", bnd).as_bytes());
                        tr = tr.insert_header(("Content-Type", format!("multipart/form-data; boundary={}", bnd))).set_payload(body);
                    } else if r.get("json").map(|j| !j.is_null()).unwrap_or(false) {
                        tr = tr.insert_header(("Content-Type", "application/json")).set_payload(r["json"].to_string());
                    } else if let Some(f) = r["form"].as_object() {
                        let fs: Vec<String> = f.iter().map(|(k, v)| format!("{}={}", k, v.as_str().unwrap_or(""))).collect();
                        tr = tr.insert_header(("Content-Type", "application/x-www-form-urlencoded")).set_payload(fs.join("&"));
                    }
                    let fut = svc.call(tr.to_request());
                    let (dec, body, status) = match tokio::time::timeout(std::time::Duration::from_millis(4000), fut).await {
                        Ok(Ok(resp)) => {
                            let d = decision(&resp);
                            let st = resp.status().as_u16();
                            let b = test::read_body(resp).await;
                            (d["decision"].as_str().unwrap().to_string(), String::from_utf8_lossy(&b).to_string(), st)
                        }
                        Ok(Err(e)) => ("error".to_string(), e.to_string(), e.as_response_error().status_code().as_u16()),
                        Err(_) => ("timeout".to_string(), String::new(), 0),
                    };
                    let refused = body.contains("NO_NAMESPACE_PERMISSION") || dec == "no_permission" || dec == "no_login";
                    let ok_flag = body.contains("\"success\":true") || (status == 200 && !body.contains("\"success\":false") && !refused);
                    let d = if dec != "handled" { dec.clone() } else if refused { "refused".to_string() } else if ok_flag { "handled_ok".to_string() } else { "handled_err".to_string() };
                    let seen: Vec<&str> = ["pub", "nsA", "nsB"].iter().filter(|l| body.contains(&format!("MARK-{}", l))).cloned().collect();
                    // did the request change anything? (write endpoints: digest after the write has settled)
                    let mut changed = false;
                    if r["op"] == "write" {
                        let mut now = digest(app.clone()).await?;
                        for _ in 0..6 {
                            tokio::time::sleep(std::time::Duration::from_millis(25)).await;
                            let again = digest(app.clone()).await?;
                            if again == now {
                                break;
                            }
                            now = again;
                        }
                        changed = now != base;
                        if changed {
                            for _ in 0..80 {
                                seed(app.clone()).await?;
                                tokio::time::sleep(std::time::Duration::from_millis(25)).await;
                                if digest(app.clone()).await? == base {
                                    break;
                                }
                            }
                            if digest(app.clone()).await? != base {
                                return Err(anyhow::anyhow!("could not restore the seed state after request {}: {} vs {}", r["id"], digest(app.clone()).await?, base));
                            }
                        }
                    }
                    println!("{}", json!({"kind":"obs","id":r["id"],"endpoint":r["endpoint"],"op":r["op"],"ns":r["ns"],"spelling":r["spelling"],"priv":r["priv"],"d":d,"status":status,"changed":changed,"seen":seen,"body":body.chars().take(160).collect::<String>()}));
                }
            }
            _ => return Err(anyhow::anyhow!("unknown authz mode")),
        }
        let _ = (TokenSession::default(), PrivilegeGroup::<Arc<String>>::all());
        Ok(())
    });
    r?;
    std::process::exit(0);
}
