//! In-process "mini node": the real wiring of `rnacos::starter::config_factory` +
//! `build_share_data` on a data directory, HTTP/gRPC servers never started, Raft dormant.
//! `rnverif node <dir>` reads one JSON op per line on stdin and prints one JSON result per line;
//! one OS process per incarnation (restart = new process on the same directory).
use crate::logfile::{payload, payload_id};
use actix::prelude::*;
use async_raft_ext::raft::{Entry, EntryNormal, EntryPayload};
use async_raft_ext::storage::HardState;
use async_raft_ext::RaftStorage;
use rnacos::common::appdata::AppShareData;
use rnacos::common::AppSysConfig;
use rnacos::raft::filestore::raftapply::{StateApplyManager, StateApplyRequest};
use rnacos::raft::filestore::StoreUtils;
use rnacos::raft::store::ClientRequest;
use serde_json::{json, Value};
use std::io::BufRead;
use std::sync::Arc;

thread_local! {
    /// RaftCore::snapshot_state (Streaming { id, snapshot, offset }) of the transcribed install handler
    static SNAP_SESSION: std::cell::RefCell<Option<(String, Box<tokio::fs::File>, u64)>> = std::cell::RefCell::new(None);
}

pub fn hex_of(b: &[u8]) -> String {
    b.iter().map(|x| format!("{:02x}", x)).collect()
}

pub fn unhex(s: &str) -> Vec<u8> {
    (0..s.len() / 2).map(|i| u8::from_str_radix(&s[2 * i..2 * i + 2], 16).unwrap_or(0)).collect()
}

pub fn set_node_env(dir: &str) {
    std::env::set_var("RNACOS_DATA_DIR", dir);
    if std::env::var("RNVERIF_CLUSTER").is_ok() {
        // a member of a real cluster: node id, address, gRPC port, auto-init / join address and the snapshot
        // threshold come from the driver's environment
        std::env::set_var("RNACOS_HTTP_PORT", "0");
        std::env::set_var("RNACOS_ENABLE_METRICS", "false");
        return;
    }
    // RNVERIF_LEADER=1: a real single-member Raft group (this node elects itself and serves writes)
    let leader = std::env::var("RNVERIF_LEADER").map(|v| v == "1").unwrap_or(false);
    std::env::set_var("RNACOS_RAFT_AUTO_INIT", if leader { "true" } else { "false" });
    let node_id = std::env::var("RNVERIF_NODE_ID").unwrap_or(if leader { "1".into() } else { "9".into() });
    std::env::set_var("RNACOS_RAFT_NODE_ID", &node_id);
    if leader {
        std::env::set_var("RNACOS_RAFT_NODE_ADDR", "127.0.0.1:1");
    }
    std::env::set_var("RNACOS_HTTP_PORT", "0");
    std::env::set_var("RNACOS_ENABLE_METRICS", "false");
    std::env::remove_var("RNACOS_RAFT_JOIN_ADDR");
}

pub async fn boot(dir: &str) -> anyhow::Result<Arc<AppShareData>> {
    set_node_env(dir);
    // files the node writes below std::env::temp_dir() (transfer export) stay inside its own directory
    let tmp = format!("{}/tmp", dir);
    std::fs::create_dir_all(&tmp).ok();
    std::env::set_var("TMPDIR", &tmp);
    let sys_config = Arc::new(AppSysConfig::init_from_env());
    let factory_data = rnacos::starter::config_factory(sys_config).await?;
    let app = rnacos::starter::build_share_data(factory_data)?;
    barrier(&app).await?;
    Ok(app)
}

/// start-up replay is asynchronous; StateApplyManager answers only after its `.wait` futures finished
pub async fn barrier(app: &Arc<AppShareData>) -> anyhow::Result<()> {
    let apply: Addr<StateApplyManager> = app
        .factory_data
        .get_actor()
        .ok_or_else(|| anyhow::anyhow!("no StateApplyManager"))?;
    apply.send(StateApplyRequest::GetLastAppliedLog).await??;
    // component actors process the replayed requests in order; a second round-trip through the
    // config actor makes sure its mailbox has drained
    Ok(())
}

/// log-level payload: a ConfigSet whose JSON makes the on-disk record exactly `total` bytes long
pub fn sized_entry(index: u64, term: u64, id: u64, total: usize) -> Entry<ClientRequest> {
    let mk = |vlen: usize| -> Entry<ClientRequest> {
        let p = payload(id, vlen.max(8));
        let s: String = p.iter().enumerate().map(|(i, b)| if i < 8 { (b'a' + (b % 16)) as char } else { (b'A' + (b % 26)) as char }).collect();
        Entry {
            term,
            index,
            payload: EntryPayload::Normal(EntryNormal {
                data: ClientRequest::ConfigSet {
                    key: format!("vk{:08}", id),
                    value: Arc::new(s),
                    config_type: None,
                    desc: None,
                    history_id: id,
                    history_table_id: Some(id),
                    op_time: 1,
                    op_user: None,
                },
            }),
        }
    };
    let enc = |e: &Entry<ClientRequest>| -> usize {
        let rec = StoreUtils::entry_to_record(e).unwrap();
        let mut buf = Vec::new();
        let mut w = quick_protobuf::Writer::new(&mut buf);
        w.write_message(&rec.to_record_do()).unwrap();
        buf.len()
    };
    let base = enc(&mk(8));
    if total <= base {
        return mk(8);
    }
    let mut vlen = 8 + (total - base);
    for _ in 0..6 {
        let l = enc(&mk(vlen));
        if l == total {
            break;
        }
        if l > total {
            vlen -= l - total;
        } else {
            vlen += total - l;
        }
    }
    mk(vlen)
}

pub fn entry_id(e: &Entry<ClientRequest>) -> (u64, String) {
    match &e.payload {
        EntryPayload::Normal(n) => match &n.data {
            ClientRequest::ConfigSet { history_id, .. } => (*history_id, "normal".into()),
            _ => (0, "normal".into()),
        },
        EntryPayload::Blank => (0, "blank".into()),
        EntryPayload::ConfigChange(_) => (0, "config".into()),
        EntryPayload::SnapshotPointer(_) => (0, "pointer".into()),
    }
}

fn entries_json(list: &[Entry<ClientRequest>]) -> Value {
    Value::Array(
        list.iter()
            .map(|e| {
                let (id, kind) = entry_id(e);
                json!({"index": e.index, "term": e.term, "id": id, "kind": kind})
            })
            .collect(),
    )
}

/// With `"sync": true` an append is acknowledged only after its bytes reached the OS: the store hands a record to
/// tokio's file (which writes it on a blocking thread) and answers; only its flush timer (500 ms) or the next operation
/// on the same handle waits for that write.  C04 speaks of entries "acknowledged AND FLUSHED before the kill" - reading the
/// entry back goes through the same file handle and therefore returns after the pending write.
async fn reach_os(store: &Arc<rnacos::raft::filestore::core::FileStore>, op: &Value, index: u64) {
    if op["sync"].as_bool().unwrap_or(false) {
        let _ = store.get_log_entries(index, index + 1).await;
    }
}

pub async fn exec(app: &Arc<AppShareData>, op: &Value) -> Value {
    let store = app.raft_store.clone();
    let name = op["op"].as_str().unwrap_or("");
    let unit = op["unit"].as_u64().unwrap_or(128) as usize;
    let r: anyhow::Result<Value> = async {
        match name {
            "append" => {
                let e = sized_entry(op["index"].as_u64().unwrap(), op["term"].as_u64().unwrap(), op["id"].as_u64().unwrap(), op["sz"].as_u64().unwrap() as usize * unit);
                match store.append_entry_to_log(&e).await {
                    Ok(_) => { reach_os(&store, op, e.index).await; Ok(json!({"res":"ok"})) }
                    Err(e) => Ok(json!({"res": if e.to_string().contains("index not equal") {"index_error"} else {"error"}, "err": e.to_string()})),
                }
            }
            "batch" => {
                let es: Vec<Entry<ClientRequest>> = op["entries"].as_array().unwrap().iter().map(|e| {
                    sized_entry(e["index"].as_u64().unwrap(), e["term"].as_u64().unwrap(), e["id"].as_u64().unwrap(), e["sz"].as_u64().unwrap() as usize * unit)
                }).collect();
                match store.replicate_to_log(&es).await {
                    Ok(_) => { if let Some(l) = es.last() { reach_os(&store, op, l.index).await; } Ok(json!({"res":"ok"})) }
                    Err(e) => Ok(json!({"res": if e.to_string().contains("index not equal") {"index_error"} else {"error"}, "err": e.to_string()})),
                }
            }
            "truncate" => match store.delete_logs_from(op["k"].as_u64().unwrap(), None).await {
                Ok(_) => Ok(json!({"res":"ok"})),
                Err(e) => Ok(json!({"res":"error","err":e.to_string()})),
            },
            "read" => {
                let v = store.get_log_entries(op["a"].as_u64().unwrap(), op["b"].as_u64().unwrap()).await?;
                Ok(json!({"res":"ok","entries":entries_json(&v)}))
            }
            "initial_state" => {
                let st = store.get_initial_state().await?;
                let mut members: Vec<u64> = st.membership.members.iter().cloned().collect();
                members.sort();
                let mut after: Vec<u64> = st.membership.members_after_consensus.clone().unwrap_or_default().into_iter().collect();
                after.sort();
                Ok(json!({"res":"ok","last_log_index":st.last_log_index,"last_log_term":st.last_log_term,
                    "last_applied":st.last_applied_log,"term":st.hard_state.current_term,
                    "vote":st.hard_state.voted_for.unwrap_or(0),"members":members,"after":after}))
            }
            "save_hs" => {
                let v = op["vote"].as_u64().unwrap();
                store.save_hard_state(&HardState { current_term: op["term"].as_u64().unwrap(), voted_for: if v == 0 { None } else { Some(v) } }).await?;
                Ok(json!({"res":"ok"}))
            }
            "apply_sized" => {
                // apply the same payload that was appended at this index
                let e = sized_entry(op["index"].as_u64().unwrap(), op["term"].as_u64().unwrap(), op["id"].as_u64().unwrap(), op["sz"].as_u64().unwrap() as usize * unit);
                if let EntryPayload::Normal(n) = &e.payload {
                    store.apply_entry_to_state_machine(&e.index, &n.data).await?;
                }
                Ok(json!({"res":"ok"}))
            }
            "compact" => {
                let snap = store.do_log_compaction().await?;
                Ok(json!({"res":"ok","index":snap.index,"term":snap.term}))
            }
            "append_req" => {
                let req: ClientRequest = serde_json::from_value(op["req"].clone())?;
                let e = Entry { term: op["term"].as_u64().unwrap(), index: op["index"].as_u64().unwrap(), payload: EntryPayload::Normal(EntryNormal { data: req }) };
                match store.append_entry_to_log(&e).await {
                    Ok(_) => { reach_os(&store, op, e.index).await; Ok(json!({"res":"ok"})) }
                    Err(e) => Ok(json!({"res":"error","err":e.to_string()})),
                }
            }
            "apply" => {
                let req: ClientRequest = serde_json::from_value(op["req"].clone())?;
                let idx = op["index"].as_u64().unwrap();
                match store.apply_entry_to_state_machine(&idx, &req).await {
                    Ok(resp) => Ok(json!({"res":"ok","resp":serde_json::to_value(&resp).unwrap_or(Value::Null)})),
                    Err(e) => Ok(json!({"res":"error","err":e.to_string()})),
                }
            }
            "apply_batch" => {
                let reqs: Vec<(u64, ClientRequest)> = op["items"].as_array().unwrap().iter().map(|it| (it["index"].as_u64().unwrap(), serde_json::from_value(it["req"].clone()).unwrap())).collect();
                let refs: Vec<(&u64, &ClientRequest)> = reqs.iter().map(|(i, r)| (i, r)).collect();
                match store.replicate_to_state_machine(&refs).await {
                    Ok(_) => Ok(json!({"res":"ok"})),
                    Err(e) => Ok(json!({"res":"error","err":e.to_string()})),
                }
            }
            "snap_get" => {
                // what the leader's replication stream reads: get_current_snapshot + the bytes of the file
                use tokio::io::AsyncReadExt;
                match store.get_current_snapshot().await? {
                    Some(mut cur) => {
                        let mut bytes = vec![];
                        cur.snapshot.read_to_end(&mut bytes).await?;
                        let mut members: Vec<u64> = cur.membership.members.iter().cloned().collect();
                        members.sort();
                        Ok(json!({"res":"ok","index":cur.index,"term":cur.term,"members":members,"len":bytes.len(),"hex":crate::node::hex_of(&bytes)}))
                    }
                    None => Ok(json!({"res":"none"})),
                }
            }
            "snap_chunk" => {
                // TRANSCRIPTION of async-raft 0.6.3 core::install_snapshot (begin / continue / finalize) on the real FileStore
                use tokio::io::{AsyncSeekExt, AsyncWriteExt};
                let data = crate::node::unhex(op["hex"].as_str().unwrap_or(""));
                let req_offset = op["offset"].as_u64().unwrap();
                let done = op["done"].as_bool().unwrap();
                let (index, term, last_log_index) = (op["index"].as_u64().unwrap(), op["term"].as_u64().unwrap(), op["last_log_index"].as_u64().unwrap());
                let state = SNAP_SESSION.with(|s| s.borrow_mut().take());
                let (id, mut snapshot, began) = match state {
                    None => {
                        let (id, mut snapshot) = store.create_snapshot().await?;
                        snapshot.as_mut().write_all(&data).await?;
                        (id, snapshot, true)
                    }
                    Some((id, mut snapshot, offset)) => {
                        if req_offset != offset {
                            snapshot.as_mut().seek(std::io::SeekFrom::Start(req_offset)).await?;
                        }
                        snapshot.as_mut().write_all(&data).await?;
                        (id, snapshot, false)
                    }
                };
                if done {
                    snapshot.as_mut().shutdown().await?;
                    let delete_through = if last_log_index > index { Some(index) } else { None };
                    store.finalize_snapshot_installation(index, term, delete_through, id.clone(), snapshot).await?;
                    let m = store.get_membership_config().await?;
                    let mut members: Vec<u64> = m.members.iter().cloned().collect();
                    members.sort();
                    Ok(json!({"res":"ok","began":began,"finalized":true,"id":id,"members":members}))
                } else {
                    let offset = if began { data.len() as u64 } else { req_offset + data.len() as u64 };
                    SNAP_SESSION.with(|s| *s.borrow_mut() = Some((id.clone(), snapshot, offset)));
                    Ok(json!({"res":"ok","began":began,"finalized":false,"id":id}))
                }
            }
            "transfer_export" => {
                // the console's export: TransferWriterManager writes a file below std::env::temp_dir() (set to <dir>/tmp
                // for this process) and answers with a handle that deletes it when dropped
                use rnacos::transfer::model::{TransferBackupParam, TransferManagerAsyncRequest, TransferManagerResponse};
                let tmp = std::env::temp_dir();
                for e in std::fs::read_dir(&tmp)? {
                    let p = e?.path();
                    if p.extension().map(|x| x == "data").unwrap_or(false) {
                        std::fs::remove_file(p).ok();
                    }
                }
                let keep = app.transfer_writer_manager.send(TransferManagerAsyncRequest::Backup(TransferBackupParam::all())).await??;
                let TransferManagerResponse::BackupFile(_file) = &keep;
                let mut bytes = vec![];
                for e in std::fs::read_dir(&tmp)? {
                    let p = e?.path();
                    if p.extension().map(|x| x == "data").unwrap_or(false) {
                        bytes = std::fs::read(p)?;
                    }
                }
                drop(keep);
                Ok(json!({"res":"ok","len":bytes.len(),"hex":crate::node::hex_of(&bytes)}))
            }
            "transfer_import" => {
                // the console's import (needs a leader: the importer writes through Raft); it runs behind the answer and
                // ends with McpReq::ImportFinished - wait until that entry is the last one and applied
                use rnacos::transfer::model::{TransferImportParam, TransferImportRequest};
                let data = crate::node::unhex(op["hex"].as_str().unwrap_or(""));
                app.transfer_import_manager.send(TransferImportRequest::Import(data, TransferImportParam::all())).await??;
                let deadline = std::time::Instant::now() + std::time::Duration::from_millis(op["ms"].as_u64().unwrap_or(30000));
                // "publish_during": n ordinary publishes (keys of their own) issued WHILE the importer writes - a client does
                // not wait for an operator's import; their log entries land between the importer's
                let during = op["publish_during"].as_u64().unwrap_or(0);
                let mut during_ok = 0u64;
                for i in 0..during {
                    let r = Box::pin(exec(app, &json!({"op":"cfg_publish","data_id":format!("during-import-{}", i),"value":format!("during-import-{}-{}", op["tag"].as_str().unwrap_or(""), i)}))).await;
                    if r["res"] == "ok" { during_ok += 1; }
                }
                loop {
                    let m = app.raft.metrics().borrow().clone();
                    if m.last_log_index > 0 && m.last_applied == m.last_log_index {
                        let v = store.get_log_entries(m.last_log_index.saturating_sub(during + 1).max(1), m.last_log_index + 1).await?;
                        let fin = v.iter().rev().find(|e| !matches!(&e.payload, EntryPayload::Normal(n) if matches!(&n.data, ClientRequest::ConfigSet { .. }))).map(|e| matches!(&e.payload, EntryPayload::Normal(n) if matches!(&n.data, ClientRequest::McpReq { req: rnacos::mcp::model::actor_model::McpManagerRaftReq::ImportFinished }))).unwrap_or(false);
                        if fin {
                            // (component actors take the last entries asynchronously on no path here: the leader path awaits them)
                            break Ok(json!({"res":"ok","last_log_index":m.last_log_index,"published_during":during_ok}));
                        }
                    }
                    if std::time::Instant::now() > deadline {
                        break Ok(json!({"res":"timeout","last_log_index":m.last_log_index,"last_applied":m.last_applied}));
                    }
                    tokio::time::sleep(std::time::Duration::from_millis(40)).await;
                }
            }
            "read_reqs" => {
                // log entries [a, b) with their requests (serde form); entries without a request (blank, membership) have req = null
                let v = store.get_log_entries(op["a"].as_u64().unwrap(), op["b"].as_u64().unwrap()).await?;
                let list: Vec<Value> = v.iter().map(|e| match &e.payload {
                    EntryPayload::Normal(n) => json!({"index": e.index, "term": e.term, "req": serde_json::to_value(&n.data).unwrap_or(Value::Null)}),
                    _ => json!({"index": e.index, "term": e.term, "req": Value::Null}),
                }).collect();
                Ok(json!({"res":"ok","entries":list}))
            }
            "target_addr" => match store.get_target_addr(op["id"].as_u64().unwrap()).await {
                Ok(a) => Ok(json!({"res":"ok","addr":a.as_str()})),
                Err(_) => Ok(json!({"res":"ok","addr":Value::Null})),
            },
            "membership" => {
                let m = store.get_membership_config().await?;
                let mut members: Vec<u64> = m.members.iter().cloned().collect();
                members.sort();
                let mut after: Vec<u64> = m.members_after_consensus.clone().unwrap_or_default().into_iter().collect();
                after.sort();
                Ok(json!({"res":"ok","members":members,"after":after}))
            }
            "seq_next" => {
                // `n` concurrent GetNextId requests on the real SequenceManager (needs a leader node)
                use rnacos::sequence::{SequenceRequest, SequenceResult};
                let key = Arc::new(op["key"].as_str().unwrap().to_string());
                let n = op["n"].as_u64().unwrap_or(1);
                let futs: Vec<_> = (0..n).map(|_| app.sequence_manager.send(SequenceRequest::GetNextId(key.clone()))).collect();
                let rs = futures_util::future::join_all(futs).await;
                let mut ids = vec![];
                let mut errs = 0;
                for r in rs {
                    match r {
                        Ok(Ok(SequenceResult::NextId(v))) => ids.push(v),
                        _ => errs += 1,
                    }
                }
                Ok(json!({"res":"ok","ids":ids,"errors":errs}))
            }
            "cfg_publish" => {
                // a config publish as the HTTP / gRPC handlers do it on the leader: ConfigAsyncCmd::Add
                use rnacos::config::core::{ConfigAsyncCmd, ConfigKey};
                let key = ConfigKey::new(op["data_id"].as_str().unwrap(), op["group"].as_str().unwrap_or("g"), op["tenant"].as_str().unwrap_or(""));
                let r = app.config_addr.send(ConfigAsyncCmd::Add { key, value: Arc::new(op["value"].as_str().unwrap().to_string()), op_user: None, config_type: None, desc: None }).await;
                match r {
                    Ok(Ok(_)) => Ok(json!({"res":"ok"})),
                    Ok(Err(e)) => Ok(json!({"res":"error","err":e.to_string()})),
                    Err(e) => Ok(json!({"res":"error","err":e.to_string()})),
                }
            }
            "cfg_route_set" | "cfg_route_del" => {
                // what the HTTP / gRPC handlers of any node do with a publish / remove: ConfigRoute (local leader or routed)
                use rnacos::config::core::ConfigKey;
                use rnacos::raft::cluster::model::{DelConfigReq, SetConfigReq};
                let key = ConfigKey::new(op["data_id"].as_str().unwrap(), op["group"].as_str().unwrap_or("g"), op["tenant"].as_str().unwrap_or(""));
                let ms = op["timeout_ms"].as_u64().unwrap_or(8000);
                let route = app.config_route.clone();
                let fut = async move {
                    if name == "cfg_route_set" {
                        route.set_config(SetConfigReq::new(key, Arc::new(op["value"].as_str().unwrap().to_string()))).await
                    } else {
                        route.del_config(DelConfigReq::new(key)).await
                    }
                };
                match tokio::time::timeout(std::time::Duration::from_millis(ms), fut).await {
                    Ok(Ok(_)) => Ok(json!({"res":"ok"})),
                    Ok(Err(e)) => Ok(json!({"res":"error","err":e.to_string()})),
                    Err(_) => Ok(json!({"res":"timeout"})),
                }
            }
            "cfg_http_set" | "cfg_http_del" => {
                // the write enters through the REAL HTTP handler of this node (/nacos/v1/cs/configs of the main application,
                // in-process service): parameter parsing, ConfigRoute, the answer the client gets
                use actix_web::{test, web, App};
                let ms = op["timeout_ms"].as_u64().unwrap_or(8000);
                let conf = std::ops::Deref::deref(&app.sys_config).clone();
                let svc = test::init_service(App::new().app_data(web::Data::new(app.clone())).app_data(web::Data::new(app.config_addr.clone())).app_data(web::Data::new(app.naming_addr.clone())).app_data(web::Data::new(app.bi_stream_manage.clone())).configure(rnacos::web_config::app_config(conf))).await;
                let d = op["data_id"].as_str().unwrap_or("");
                let g = op["group"].as_str().unwrap_or("g");
                let req = if name == "cfg_http_set" {
                    test::TestRequest::post().uri("/nacos/v1/cs/configs").insert_header(("Content-Type", "application/x-www-form-urlencoded")).set_payload(format!("dataId={}&group={}&content={}", d, g, op["value"].as_str().unwrap_or("")))
                } else {
                    test::TestRequest::delete().uri(&format!("/nacos/v1/cs/configs?dataId={}&group={}", d, g))
                };
                match tokio::time::timeout(std::time::Duration::from_millis(ms), crate::front::http(&svc, req.to_request())).await {
                    Ok(a) if a.status == 200 && a.body == b"true" => Ok(json!({"res":"ok"})),
                    Ok(a) => Ok(json!({"res":"error","err":format!("{} {}", a.status, String::from_utf8_lossy(&a.body))})),
                    Err(_) => Ok(json!({"res":"timeout"})),
                }
            }
            "cfg_grpc_set" | "cfg_grpc_del" => {
                // the write enters through the REAL gRPC service of this node (a fresh SDK-like connection to its own port)
                let ms = op["timeout_ms"].as_u64().unwrap_or(8000);
                let port = app.sys_config.grpc_port;
                let d = op["data_id"].as_str().unwrap_or("").to_string();
                let g = op["group"].as_str().unwrap_or("g").to_string();
                let v = op["value"].as_str().unwrap_or("").to_string();
                let set = name == "cfg_grpc_set";
                let fut = async move {
                    let mut conn = crate::front::connect(port, "").await?;
                    if set {
                        crate::front::grpc_call(&mut conn, "ConfigPublishRequest", json!({"dataId":d,"group":g,"tenant":"","content":v})).await
                    } else {
                        crate::front::grpc_call(&mut conn, "ConfigRemoveRequest", json!({"dataId":d,"group":g,"tenant":""})).await
                    }
                };
                match tokio::time::timeout(std::time::Duration::from_millis(ms), fut).await {
                    Ok(Ok((rt, body))) if (rt == "ConfigPublishResponse" || rt == "ConfigRemoveResponse") && body["resultCode"].as_u64() == Some(200) => Ok(json!({"res":"ok"})),
                    Ok(Ok((rt, body))) if rt == "timeout" => Ok(json!({"res":"timeout","err":body.to_string()})),
                    Ok(Ok((rt, body))) => Ok(json!({"res":"error","err":format!("{} {}", rt, body)})),
                    Ok(Err(e)) => Ok(json!({"res":"error","err":e.to_string()})),
                    Err(_) => Ok(json!({"res":"timeout"})),
                }
            }
            "ns_http_register" | "ns_http_deregister" | "ns_http_beat" => {
                // the REAL HTTP instance handlers of this node (/nacos/v1/ns/instance, /beat of the main application,
                // in-process service): parameter parsing, the update tag the handler derives, NamingRoute (the owner node
                // of the service applies, the others are synchronised)
                use actix_web::{test, web, App};
                let conf = std::ops::Deref::deref(&app.sys_config).clone();
                let svc = test::init_service(App::new().app_data(web::Data::new(app.clone())).app_data(web::Data::new(app.config_addr.clone())).app_data(web::Data::new(app.naming_addr.clone())).app_data(web::Data::new(app.bi_stream_manage.clone())).configure(rnacos::web_config::app_config(conf))).await;
                let q = format!("serviceName={}&ip={}&port={}", op["service"].as_str().unwrap_or(""), op["ip"].as_str().unwrap_or(""), op["port"].as_u64().unwrap_or(0));
                let req = match name {
                    "ns_http_register" => test::TestRequest::post().uri("/nacos/v1/ns/instance").insert_header(("Content-Type", "application/x-www-form-urlencoded"))
                        .set_payload(format!("{}&weight={}&enabled={}&ephemeral=true", q, op["weight"].as_f64().unwrap_or(1.0), op["enabled"].as_bool().unwrap_or(true))),
                    "ns_http_beat" => test::TestRequest::put().uri(&format!("/nacos/v1/ns/instance/beat?{}", q)),
                    _ => test::TestRequest::delete().uri(&format!("/nacos/v1/ns/instance?{}&ephemeral=true", q)),
                };
                match tokio::time::timeout(std::time::Duration::from_millis(8000), crate::front::http(&svc, req.to_request())).await {
                    Ok(a) if a.status == 200 => Ok(json!({"res":"ok"})),
                    Ok(a) => Ok(json!({"res":"error","err":format!("{} {}", a.status, String::from_utf8_lossy(&a.body))})),
                    Err(_) => Ok(json!({"res":"timeout"})),
                }
            }
            "ns_dump" => {
                let d: Value = serde_json::from_str(&app.naming_addr.send(rnacos::verif_hooks::DumpNaming).await?)?;
                let mut out = vec![];
                for s in d["services"].as_array().cloned().unwrap_or_default() {
                    for i in s["instances"].as_array().cloned().unwrap_or_default() {
                        out.push(json!({"service": s["service"], "ip": i["ip"], "port": i["port"], "healthy": i["healthy"], "enabled": i["enabled"],
                            "weight": i["weight"], "client": i["client_id"], "from_cluster": i["from_cluster"], "from_grpc": i["from_grpc"], "lm": i["last_modified"]}));
                    }
                }
                let queues: Vec<Value> = d["services"].as_array().cloned().unwrap_or_default().iter().map(|s| json!({"service": s["service"], "healthy_q": s["healthy_timeout_items"], "unhealthy_q": s["unhealthy_timeout_items"]})).collect();
                Ok(json!({"res":"ok","instances":out,"clients":d["client_instance_set"],"queues":queues,"range":d["current_range"]}))
            }
            "cfg_tmp" => {
                // the follower's echo of a publish it routed to the leader (ConfigRoute::set_config, Remote branch)
                use rnacos::config::core::{ConfigCmd, ConfigKey};
                let key = ConfigKey::new(op["data_id"].as_str().unwrap(), op["group"].as_str().unwrap_or("g"), op["tenant"].as_str().unwrap_or(""));
                app.config_addr.send(ConfigCmd::SetTmpValue(key, Arc::new(op["value"].as_str().unwrap().to_string()))).await??;
                Ok(json!({"res":"ok"}))
            }
            "cfg_get" => {
                use rnacos::config::core::{ConfigCmd, ConfigKey, ConfigResult};
                let key = ConfigKey::new(op["data_id"].as_str().unwrap(), op["group"].as_str().unwrap_or("g"), op["tenant"].as_str().unwrap_or(""));
                match app.config_addr.send(ConfigCmd::GET(key)).await?? {
                    ConfigResult::Data { value, .. } => Ok(json!({"res":"ok","value":value.as_str()})),
                    _ => Ok(json!({"res":"ok","value":Value::Null})),
                }
            }
            "raft_metrics" => {
                let m = app.raft.metrics().borrow().clone();
                let mut members: Vec<u64> = m.membership_config.members.iter().cloned().collect();
                members.sort();
                Ok(json!({"res":"ok","id":m.id,"state":format!("{:?}", m.state),"term":m.current_term,"last_log_index":m.last_log_index,
                    "last_applied":m.last_applied,"leader":m.current_leader,"members":members}))
            }
            "wait_leader" => {
                let deadline = std::time::Instant::now() + std::time::Duration::from_millis(op["ms"].as_u64().unwrap_or(15000));
                loop {
                    if app.raft.current_leader().await == Some(app.sys_config.raft_node_id) {
                        break Ok(json!({"res":"ok"}));
                    }
                    if std::time::Instant::now() > deadline {
                        break Ok(json!({"res":"timeout"}));
                    }
                    tokio::time::sleep(std::time::Duration::from_millis(50)).await;
                }
            }
            "nodes_update" => {
                use rnacos::naming::cluster::node_manage::NodeManageRequest;
                let nodes: Vec<(u64, Arc<String>)> = op["ids"].as_array().unwrap().iter().map(|i| { let id = i.as_u64().unwrap(); (id, Arc::new(format!("127.0.0.1:{}", 9000 + id))) }).collect();
                app.naming_inner_node_manage.send(NodeManageRequest::UpdateNodes(nodes)).await??;
                Ok(json!({"res":"ok"}))
            }
            "nodes_view" => {
                // everybody listed in `alive` has just been heard of; the others time out (genuine check)
                use rnacos::naming::cluster::node_manage::NodeManageRequest;
                for i in op["alive"].as_array().unwrap() {
                    app.naming_inner_node_manage.send(NodeManageRequest::ActiveNode(i.as_u64().unwrap())).await??;
                }
                let dead: Vec<u64> = op["dead"].as_array().unwrap().iter().map(|i| i.as_u64().unwrap()).collect();
                app.naming_inner_node_manage.send(rnacos::verif_hooks::ExpireNodes(dead)).await?;
                Ok(json!({"res":"ok"}))
            }
            "owner_query" => {
                use rnacos::naming::cluster::model::{NamingRouteAddr, ProcessRange};
                use rnacos::naming::cluster::node_manage::{NodeManageRequest, NodeManageResponse};
                use rnacos::naming::model::ServiceKey;
                let range = match app.naming_inner_node_manage.send(NodeManageRequest::QueryOwnerRange(ProcessRange::new(0, 0))).await?? {
                    NodeManageResponse::OwnerRange(v) => v.first().map(|r| json!({"index": r.index, "len": r.len})).unwrap_or(Value::Null),
                    _ => Value::Null,
                };
                let d: Value = serde_json::from_str(&app.naming_addr.send(rnacos::verif_hooks::DumpNaming).await?)?;
                let mut routes = vec![];
                for k in op["keys"].as_array().unwrap() {
                    let key = ServiceKey::new("public", "DEFAULT_GROUP", k.as_str().unwrap());
                    let h = rnacos::common::hash_utils::get_hash_value(&key);
                    let r = match app.naming_node_manage.route_addr(&key).await {
                        NamingRouteAddr::Local(_) => json!("local"),
                        NamingRouteAddr::Remote(_, addr) => json!(addr.as_str()),
                    };
                    routes.push(json!({"key": k, "hash": h.to_string(), "route": r}));
                }
                Ok(json!({"res":"ok","range":range,"actor_range":d["current_range"],"routes":routes}))
            }
            "sleep" => {
                tokio::time::sleep(std::time::Duration::from_millis(op["ms"].as_u64().unwrap_or(100))).await;
                Ok(json!({"res":"ok"}))
            }
            other => crate::sm::exec(app, other, op).await,
        }
    }
    .await;
    match r {
        Ok(v) => v,
        Err(e) => json!({"res":"error","err":e.to_string()}),
    }
}

/// a member of a real cluster: the gRPC services of main.rs on RNACOS_GRPC_PORT (Raft and routed requests travel over
/// real connections between the node processes), ops read WITHOUT blocking the runtime
async fn cluster_loop(app: Arc<AppShareData>) {
    use rnacos::grpc::nacos_proto::bi_request_stream_server::BiRequestStreamServer;
    use rnacos::grpc::nacos_proto::request_server::RequestServer;
    use rnacos::grpc::server::{BiRequestStreamServerImpl, RequestServerImpl};
    use tokio::io::AsyncBufReadExt;
    let addr: std::net::SocketAddr = app.sys_config.get_grpc_addr().parse().unwrap();
    let request_server = RequestServerImpl::new(app.clone(), crate::grpcauth::invoker(&app));
    let bi_server = BiRequestStreamServerImpl::new(app.clone());
    tokio::spawn(async move {
        tonic::transport::Server::builder().add_service(RequestServer::new(request_server)).add_service(BiRequestStreamServer::new(bi_server)).serve(addr).await.ok();
    });
    println!("{}", json!({"res":"booted"}));
    let mut lines = tokio::io::BufReader::new(tokio::io::stdin()).lines();
    while let Ok(Some(line)) = lines.next_line().await {
        let t = line.trim();
        if t.is_empty() {
            continue;
        }
        let op: Value = match serde_json::from_str(t) {
            Ok(v) => v,
            Err(_) => continue,
        };
        if op["op"] == "exit" {
            break;
        }
        let out = exec(&app, &op).await;
        println!("{}", out);
    }
    std::process::exit(0);
}

/// `rnverif node <dir>`: script on stdin, results on stdout
pub fn main_node(args: &[String]) -> anyhow::Result<()> {
    let dir = args[0].clone();
    let settle = crate::util::opt_u64(args, "--settle", 700);
    if std::env::var("RNVERIF_NODE_LOG").is_ok() {
        let _ = env_logger::try_init();
    }
    let sys = actix_rt::System::new();
    sys.block_on(async move {
        let app = match boot(&dir).await {
            Ok(a) => a,
            Err(e) => {
                println!("{}", json!({"res":"boot_error","err":e.to_string()}));
                return;
            }
        };
        if std::env::var("RNVERIF_CLUSTER").is_ok() {
            cluster_loop(app).await;
            return;
        }
        println!("{}", json!({"res":"booted"}));
        let stdin = std::io::stdin();
        let mut line = String::new();
        loop {
            line.clear();
            let n = stdin.lock().read_line(&mut line).unwrap_or(0);
            if n == 0 {
                break;
            }
            let t = line.trim();
            if t.is_empty() {
                continue;
            }
            let op: Value = match serde_json::from_str(t) {
                Ok(v) => v,
                Err(_) => continue,
            };
            if op["op"] == "exit" {
                break;
            }
            let h = {
                let app = app.clone();
                let op = op.clone();
                actix_rt::spawn(async move { exec(&app, &op).await })
            };
            let out = match h.await {
                Ok(v) => v,
                Err(e) => json!({"res":"panic","err":e.to_string()}),
            };
            println!("{}", out);
        }
        // stop point: let every acknowledged write reach the OS (log flush timer is 500 ms)
        tokio::time::sleep(std::time::Duration::from_millis(settle)).await;
    });
    std::process::exit(0);
}

/// One incarnation of a node as a child process, driven line by line.
pub struct NodeProc {
    child: std::process::Child,
    stdin: std::process::ChildStdin,
    stdout: std::io::BufReader<std::process::ChildStdout>,
}

impl NodeProc {
    pub fn start(dir: &str, settle_ms: u64) -> anyhow::Result<Self> {
        Self::start_env(dir, settle_ms, &[])
    }

    pub fn start_env(dir: &str, settle_ms: u64, envs: &[(&str, String)]) -> anyhow::Result<Self> {
        // the start-up race of a node (a request reaches StateApplyManager before its dependencies are injected: the
        // process answers "Mailbox has closed" and has served nothing) is not an outcome of any step: start the process again
        let mut last = None;
        for _ in 0..6 {
            match Self::start_env_once(dir, settle_ms, envs) {
                Ok(p) => return Ok(p),
                Err(e) if e.to_string().contains("Mailbox has closed") => last = Some(e),
                Err(e) => return Err(e),
            }
        }
        Err(last.unwrap_or_else(|| anyhow::anyhow!("node boot failed")))
    }

    fn start_env_once(dir: &str, settle_ms: u64, envs: &[(&str, String)]) -> anyhow::Result<Self> {
        let exe = std::env::current_exe()?;
        let mut cmd = std::process::Command::new(exe);
        for (k, v) in envs {
            cmd.env(k, v);
        }
        let mut child = cmd
            .args(["node", "run", dir, "--settle", &settle_ms.to_string()])
            .env("RUST_LOG", std::env::var("RNVERIF_NODE_LOG").unwrap_or("off".into()))
            .stdin(std::process::Stdio::piped())
            .stdout(std::process::Stdio::piped())
            .stderr(if std::env::var("RNVERIF_NODE_LOG").is_ok() { std::process::Stdio::inherit() } else { std::process::Stdio::null() })
            .spawn()?;
        let stdin = child.stdin.take().unwrap();
        let stdout = std::io::BufReader::new(child.stdout.take().unwrap());
        let mut p = NodeProc { child, stdin, stdout };
        let first = p.read_line()?;
        if first["res"] != "booted" {
            let _ = p.child.kill();
            let _ = p.child.wait();
            return Err(anyhow::anyhow!("node boot failed: {}", first));
        }
        Ok(p)
    }

    fn read_line(&mut self) -> anyhow::Result<Value> {
        loop {
            let mut line = String::new();
            let n = self.stdout.read_line(&mut line)?;
            if n == 0 {
                return Err(anyhow::anyhow!("node process ended unexpectedly"));
            }
            let t = line.trim();
            if t.starts_with('{') {
                if let Ok(v) = serde_json::from_str::<Value>(t) {
                    return Ok(v);
                }
            }
        }
    }

    pub fn call(&mut self, op: &Value) -> anyhow::Result<Value> {
        use std::io::Write;
        writeln!(self.stdin, "{}", op)?;
        self.stdin.flush()?;
        self.read_line()
    }

    /// clean stop: settle, then exit
    pub fn stop(mut self) -> anyhow::Result<()> {
        use std::io::Write;
        let _ = writeln!(self.stdin, "{}", json!({"op":"exit"}));
        let _ = self.stdin.flush();
        drop(self.stdin);
        let _ = self.child.wait();
        Ok(())
    }

    pub fn kill(mut self) {
        let _ = self.child.kill();
        let _ = self.child.wait();
    }
}

#[allow(dead_code)]
pub fn unused(_: &[u8]) -> u64 {
    payload_id(&[])
}
