#!/bin/bash
# lab_batch.sh <lab-name> <tier> <seeded-name>... : each seeded change against the check of its own property, one after another
LAB=$1; TIER=$2; shift 2
for n in "$@"; do
  id=${n:0:3}
  /verif/tools/lab.sh $LAB $n $TIER $id 2>&1 | sed "s/^/[$n] /"
done
