"""A real r-nacos cluster of mini-node processes (C06 / C15).

Every node is one `rnverif node run` process in cluster mode: the real start-up wiring (config_factory,
build_share_data, Raft auto-init / auto-join) plus the real gRPC services on a loopback port, so Raft RPCs,
routed writes and naming sync travel over real connections.  The driver talks to each node over its stdin /
stdout (JSON lines) and injects faults with signals (SIGKILL, SIGSTOP, SIGCONT) and restarts.
"""
import json
import os
import select
import signal
import socket
import subprocess
import time

import vlib

BIN = os.path.join(vlib.ROOT, ".build", "target", "debug", "rnverif")


def free_ports(n):
    socks, ports = [], []
    for _ in range(n):
        s = socket.socket()
        s.bind(("127.0.0.1", 0))
        socks.append(s)
        ports.append(s.getsockname()[1])
    for s in socks:
        s.close()
    return ports


class Node:
    def __init__(self, cluster, nid, port):
        self.cluster, self.id, self.port = cluster, nid, port
        self.dir = os.path.join(cluster.base, "n%d" % nid)
        self.proc = None
        self.stopped = False
        self.pending = 0        # answers not read yet (ops given up on)

    def env(self):
        e = dict(os.environ, RUST_LOG=os.environ.get("RNVERIF_NODE_LOG", "off"), RNVERIF_CLUSTER="1",
                 RNACOS_RAFT_NODE_ID=str(self.id), RNACOS_RAFT_NODE_ADDR="127.0.0.1:%d" % self.port,
                 RNACOS_GRPC_PORT=str(self.port), RNACOS_RAFT_SNAPSHOT_LOG_SIZE=str(self.cluster.snapshot_logs))
        e.update(self.cluster.extra_env)
        if self.id == 1:
            e["RNACOS_RAFT_AUTO_INIT"] = "true"
        else:
            e["RNACOS_RAFT_AUTO_INIT"] = "false"
            e["RNACOS_RAFT_JOIN_ADDR"] = "127.0.0.1:%d" % self.cluster.nodes[1].port
        return e

    def start(self):
        """start the process; a FRESH node whose start-up loses the race between Raft auto-init and the injection of
        StateApplyManager (panic at raftapply.rs `data_wrap.unwrap()`, answer 'Mailbox has closed') is wiped and started
        again - that start-up race is outside the properties checked with this cluster"""
        fresh = not os.path.exists(os.path.join(self.dir, "index"))
        for attempt in range(4):
            try:
                return self._start()
            except vlib.ToolError as e:
                if fresh and "Mailbox has closed" in str(e) and attempt < 3:
                    self.kill()
                    import shutil
                    shutil.rmtree(self.dir, ignore_errors=True)
                    self.cluster.boot_retries += 1
                    continue
                raise

    def _start(self):
        err = open(os.path.join(self.cluster.base, "n%d.err" % self.id), "a") if os.environ.get("RNVERIF_NODE_LOG") else subprocess.DEVNULL
        self.proc = subprocess.Popen([BIN, "node", "run", self.dir], stdin=subprocess.PIPE, stdout=subprocess.PIPE,
                                     stderr=err, env=self.env(), text=True, bufsize=1)
        self.stopped = False
        self.pending = 0
        ln = self._readline(30)
        if not ln or json.loads(ln).get("res") != "booted":
            raise vlib.ToolError("cluster node %d did not boot: %s" % (self.id, ln))

    def up(self):
        return self.proc is not None and self.proc.poll() is None

    def live(self):
        return self.up() and not self.stopped

    def _readline(self, timeout):
        fd = self.proc.stdout
        r, _, _ = select.select([fd], [], [], timeout)
        if not r:
            return None
        return fd.readline()

    def call(self, op, timeout=12.0):
        """-> answer dict, or {"res": "no_answer"} (node dead / stopped / too slow)"""
        if not self.up():
            return {"res": "down"}
        try:
            self.proc.stdin.write(json.dumps(op) + "\n")
            self.proc.stdin.flush()
        except (BrokenPipeError, OSError):
            return {"res": "down"}
        self.pending += 1
        deadline = time.time() + timeout
        while self.pending > 0:
            ln = self._readline(max(0.0, deadline - time.time()))
            if not ln:
                return {"res": "no_answer"}
            self.pending -= 1
            if self.pending == 0:
                try:
                    return json.loads(ln)
                except ValueError:
                    return {"res": "garbled", "text": ln[:200]}
        return {"res": "no_answer"}

    def kill(self):
        if self.proc is not None:
            try:
                self.proc.send_signal(signal.SIGKILL)
            except OSError:
                pass
            self.proc.wait()
            self.proc = None
        self.stopped = False

    def sigstop(self):
        if self.up():
            self.proc.send_signal(signal.SIGSTOP)
            self.stopped = True

    def sigcont(self):
        if self.up():
            self.proc.send_signal(signal.SIGCONT)
            self.stopped = False


class Cluster:
    def __init__(self, base, n=3, snapshot_logs=10000, extra_env=None):
        self.base = base
        os.makedirs(base, exist_ok=True)
        self.snapshot_logs = snapshot_logs
        self.boot_retries = 0
        self.extra_env = extra_env or {}
        ports = free_ports(n)
        self.nodes = {}
        for i in range(n):
            self.nodes[i + 1] = Node(self, i + 1, ports[i])

    def start(self, timeout=40):
        self.nodes[1].start()
        self.wait(lambda: self.metrics(1).get("leader") == 1, timeout, "node 1 elects itself")
        for i in sorted(self.nodes):
            if i != 1:
                # one join at a time (two concurrent membership changes are refused and a refused join is not retried)
                self.nodes[i].start()
                self.wait(lambda: i in self.metrics(1).get("members", []), timeout, "node %d has joined" % i)
        n = len(self.nodes)
        self.wait(lambda: all(len(self.metrics(i).get("members", [])) == n and self.metrics(i).get("leader") for i in self.nodes), timeout,
                  "all %d nodes are members" % n)

    def metrics(self, i):
        return self.nodes[i].call({"op": "raft_metrics"}, timeout=5)

    def wait(self, cond, timeout, what):
        t0 = time.time()
        while time.time() - t0 < timeout:
            try:
                if cond():
                    return time.time() - t0
            except Exception:
                pass
            time.sleep(0.2)
        raise vlib.ToolError("cluster: timeout waiting until %s" % what)

    def leader(self):
        """the leader as seen by a majority of live nodes (or None)"""
        votes = {}
        for i, nd in self.nodes.items():
            if nd.live():
                l = self.metrics(i).get("leader")
                if l:
                    votes[l] = votes.get(l, 0) + 1
        if not votes:
            return None
        l, c = max(votes.items(), key=lambda kv: kv[1])
        return l if c * 2 > len(self.nodes) else None

    def quiesce(self, timeout=40):
        """wait until the live nodes agree on a live leader and have applied everything it has"""
        def ok():
            live = [i for i, nd in self.nodes.items() if nd.live()]
            ms = {i: self.metrics(i) for i in live}
            if any(m.get("res") != "ok" for m in ms.values()):
                return False
            leaders = {m.get("leader") for m in ms.values()}
            if len(leaders) != 1 or None in leaders:
                return False
            l = leaders.pop()
            if l not in live:
                return False
            top = ms[l]["last_log_index"]
            return all(m["last_log_index"] == top and m["last_applied"] == top for m in ms.values())
        t = self.wait(ok, timeout, "the live nodes have applied the leader's whole log")
        time.sleep(0.3)
        self.wait(ok, timeout, "the live nodes have applied the leader's whole log (stable)")
        return t

    def shutdown(self):
        for nd in self.nodes.values():
            if nd.up():
                try:
                    nd.sigcont()
                except Exception:
                    pass
                nd.kill()
