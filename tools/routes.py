#!/usr/bin/env python3
"""Route inventory of the real actix apps.

`rnverif authz inventory` prints the Debug form of each app's ResourceMap (obtained from a probe route in an
in-process test service built with the REAL `console_config` / `app_config`); this module parses it into full
path patterns.  ResourceMap { pattern: ResourceDef { .. patterns: Single("p") | List(["a","b"]), is_prefix: b, .. },
named: {..}, parent: .., nodes: Some([ ResourceMap {..}, .. ]) | None }
"""
import json
import re
import subprocess
import sys


def _skip_balanced(s, i):
    """s[i] is an opening bracket; return index after its matching close (string literals respected)."""
    pairs = {"{": "}", "[": "]", "(": ")"}
    stack = [pairs[s[i]]]
    i += 1
    n = len(s)
    while i < n and stack:
        c = s[i]
        if c == '"':
            i += 1
            while i < n and s[i] != '"':
                if s[i] == "\\":
                    i += 1
                i += 1
        elif c in pairs:
            stack.append(pairs[c])
        elif c == stack[-1]:
            stack.pop()
        i += 1
    return i


def _parse_map(s, i, prefix, out):
    """s[i:] starts with 'ResourceMap {'; returns index after the map."""
    assert s.startswith("ResourceMap {", i), s[i:i + 40]
    end = _skip_balanced(s, i + len("ResourceMap "))
    body = s[i:end]
    m = re.search(r'patterns: (Single\("((?:[^"\\]|\\.)*)"\)|List\(\[((?:"(?:[^"\\]|\\.)*"(?:, )?)*)\]\))', body)
    pats = []
    if m:
        if m.group(2) is not None:
            pats = [m.group(2)]
        else:
            pats = re.findall(r'"((?:[^"\\]|\\.)*)"', m.group(3))
    is_prefix = "is_prefix: true" in body[: body.find("named:") if "named:" in body else len(body)]
    # children
    k = body.find("nodes: Some([")
    named_at = body.find("named: {")
    # make sure we take the `nodes:` of THIS map: it comes after this map's `named: {...}` block
    if named_at >= 0:
        named_end = _skip_balanced(body, named_at + len("named: "))
        k = body.find("nodes: ", named_end)
        has_children = body.startswith("nodes: Some([", k)
    else:
        has_children = k >= 0
    for p in pats or [""]:
        full = prefix + p
        if has_children:
            j = k + len("nodes: Some([")
            while body.startswith("ResourceMap {", j):
                j = _parse_map(body, j, full, out)
                if body.startswith(", ", j):
                    j += 2
        elif not is_prefix or p:
            out.add(full)
    return end


def parse(debug_text):
    out = set()
    _parse_map(debug_text, 0, "", out)
    return sorted(x for x in out if x and x != "/__verif_routes")


def inventory(harness):
    r = subprocess.run([harness, "authz", "inventory"], stdout=subprocess.PIPE, stderr=subprocess.PIPE, text=True, timeout=120)
    for line in r.stdout.splitlines():
        if line.startswith("{"):
            v = json.loads(line)
            return {"console": parse(v["console_debug"]), "main": parse(v["main_debug"])}
    raise RuntimeError("no inventory output: %s" % r.stderr[-500:])


if __name__ == "__main__":
    inv = inventory(sys.argv[1] if len(sys.argv) > 1 else "/verif/.build/target/debug/rnverif")
    print(json.dumps({k: len(v) for k, v in inv.items()}))
    for k, v in inv.items():
        for p in v:
            print(k, p)
