#!/bin/bash
# run_all.sh <tier> [ID...] : run the registered checks one after another on /repo as it is; summary on stdout.
TIER=${1:-quick}; shift
IDS=${@:-C01 C02 C03 C04 C05 C06 C07 C08 C09 C10 C11 C12 C13 C14 C15 C16 C17 C18 C19 C20}
mkdir -p /verif/.build/runlogs
cd /verif
for id in $IDS; do
  s=$(date +%s)
  tools/vcheck $id --tier $TIER > /verif/.build/runlogs/$id.$TIER.log 2>&1
  rc=$?
  echo "$id $TIER exit=$rc wall=$(( $(date +%s) - s ))s $(grep -cE '^VIOLATION' /verif/.build/runlogs/$id.$TIER.log) violations, $(grep -cE '^KNOWN-FINDING' /verif/.build/runlogs/$id.$TIER.log) known"
done
