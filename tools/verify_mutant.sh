#!/bin/bash
# verify_mutant.sh <worktree> <seeded-name> : confirm an agent-produced change myself, then keep it under /verif/seeded
# usage of result: /verif/seeded/<name>/{patch.diff,demo.diff,meta.json,verify.log}
set -u
WT=$1; NAME=$2
export CARGO_TARGET_DIR=$WT/target CARGO_NET_OFFLINE=true
cd $WT || exit 2
OUT=/verif/seeded/$NAME
mkdir -p $OUT
LOG=$OUT/verify.log
: > $LOG
git checkout -q -- . 2>/dev/null
DEMO=$(python3 -c "import json;print(json.load(open('OUT/meta.json'))['demo_cmd'])")
# strip any leading cd / git apply from the demo command; keep the cargo part
CARGO_PART=$(echo "$DEMO" | sed 's/.*\(cargo .*\)$/\1/' | sed 's/^CARGO_TARGET_DIR=[^ ]* //')
echo "demo cargo cmd: $CARGO_PART" >> $LOG
git apply OUT/demo.diff || { echo "demo.diff does not apply" >> $LOG; exit 2; }
echo "== demo WITHOUT patch" >> $LOG
( eval "$CARGO_PART" ) > $OUT/.d1 2>&1; R1=$?
tail -5 $OUT/.d1 >> $LOG; echo "exit=$R1" >> $LOG
git apply OUT/patch.diff || { echo "patch.diff does not apply" >> $LOG; exit 2; }
echo "== demo WITH patch" >> $LOG
( eval "$CARGO_PART" ) > $OUT/.d2 2>&1; R2=$?
tail -8 $OUT/.d2 >> $LOG; echo "exit=$R2" >> $LOG
git apply -R OUT/demo.diff
echo "== unit tests WITH patch" >> $LOG
cargo test --offline --lib -j 8 > $OUT/.d3 2>&1
grep -E "^test result|^failures:|^    [a-z_:]+$" $OUT/.d3 >> $LOG
git apply -R OUT/patch.diff
git status --short >> $LOG
rm -f $OUT/.d1 $OUT/.d2 $OUT/.d3
cp OUT/patch.diff OUT/demo.diff OUT/meta.json $OUT/
echo "R1(no patch)=$R1 R2(patch)=$R2" | tee -a $LOG
grep "test result" $LOG
