"""C16 - with auth on, no data endpoint (HTTP or gRPC) is served without a valid token."""
import json
import os
import re
import shutil

import vlib
from vlib import Check, ToolError
from checks import authz_common as ac


def run(tier):
    c = Check("C16", tier)
    vlib.build_harness()
    sc = vlib.scratch("c16")
    inv = ac.inventory()
    main = [p for p in inv["main"] if "{" not in p]
    scoped = [p for p in main if p.startswith("/nacos/") or p.startswith("/rnacos/v1/")]
    if len(scoped) < 20:
        raise ToolError("main route inventory too small: %d" % len(scoped))
    rf = os.path.join(sc, "routes.ndjson")
    n_routes = ac.write_routes(rf, main, with_spellings=True)
    out, st = ac.tlc_authz("gen16", {"ROUTES": rf, "OBS": rf}, "c16_gen")
    c.add_mc(dict(st, depth=2, wall_s=0, actions={}))
    groups = vlib.parse_replay_lines(out)
    if len(groups) != n_routes * 4:
        raise ToolError("TLC enumerated %d request groups, expected %d" % (len(groups), n_routes * 4))
    gf = vlib.write_ndjson(os.path.join(sc, "groups.ndjson"), groups)
    res = vlib.harness(["authz", "c16", gf], timeout=3000)
    obs = [r for r in res if r.get("kind") == "obs"]
    if len(obs) != len(groups):
        raise ToolError("harness answered %d of %d request groups" % (len(obs), len(groups)))
    of = vlib.write_ndjson(os.path.join(sc, "obs.ndjson"), obs)
    out, st2 = ac.tlc_authz("chk16", {"ROUTES": rf, "OBS": of}, "c16_chk")
    c.add_mc(dict(st2, depth=2, wall_s=0, actions={}))
    for req, i in ac.failed_requirements(out):
        o = obs[i - 1]
        bad = sorted(t for t, d in o["d"].items() if o["tokstate"][t] != "valid" and d not in ("forbidden", "no_route", "other_route"))
        c.violation("C16:%s@%s:%s:%s" % (req, o["method"], o["canon"], o["spelling"]),
                    "OpenAPI requirement %s fails for %s %s (%s): served for credentials %s" % (req, o["method"], o["path"], o["spelling"], bad),
                    {"observation": o, "requirement": req})
    grpc_leg(c, sc)
    restore_leg(c, sc)
    lifecycle_leg(c, sc)
    n_dec = sum(len(o["d"]) for o in obs)
    reached = [o for o in obs if any(o["tokstate"][t] == "valid" and d == "handled" for t, d in o["d"].items())]
    c.count(n_dec, [{"p": o["path"], "m": o["method"]} for o in reached])
    c.traces(len(obs))
    if len(reached) < 20:
        raise ToolError("a valid token reaches only %d endpoints: tokens are not effective, check is vacuous" % len(reached))
    c.cov["routes"] = len(main)
    c.cov["scoped_routes"] = len(scoped)
    c.cov["request_groups"] = len(groups)
    c.cov["decisions"] = n_dec
    c.cov["groups_reaching_a_handler_with_valid_token"] = len(reached)
    c.sample({"observation": next(o for o in obs if o["canon"] == "/nacos/v1/cs/configs" and o["method"] == "GET" and o["spelling"] == "canonical")})
    c.assumptions += [
        "auth switched on through RNACOS_ENABLE_OPEN_API_AUTH in the booted node; API tokens are placed in the token cache "
        "directly (valid / expired); middleware, routing and handlers are the real ones (in-process actix service)",
        "HTTP leg: every route x 8 spellings x 4 methods x 5 token states x 5 carriers",
        "gRPC leg: the real tonic Request / BiRequestStream services wired as in main.rs, served on a loopback port of a "
        "single-member node (auth on, cluster token configured); every registered request type (+ ServerCheckRequest + one "
        "unregistered name) x {accessToken, Authorization} x 5 token states x 7 cluster-token states (absent, empty, garbage, "
        "proper prefix, extension, other case, exact) over a channel with an established bi-stream; bodies are real effective "
        "requests; 'without touching data' = digest of configs and instances unchanged and no seeded marker in the answer",
        "'no data served' is judged by the decision (403 / no route), not by diffing state",
    ]
    shutil.rmtree(sc, ignore_errors=True)
    return c.finish(
        rule="complete product: every registered route of the main app (from the running app) x 8 spellings x "
             "{GET,POST,PUT,DELETE} x token state {absent, empty, garbage, expired, valid} x carrier {Authorization raw, "
             "Bearer, accessToken header, query, form body} executed on the real app with the real ApiCheckAuth "
             "middleware; TLC evaluates NoDataWithoutToken (scope /nacos/ and /rnacos/v1/, exemptions as in the property) "
             "and ValidTokenPasses on every observation; gRPC: GrpcNoDataWithoutToken, GrpcValidTokenPasses, "
             "ClusterNeedsClusterToken, ClusterTokenPasses on every (type, carrier, token, cluster token); non-trivial = groups that reach a handler with a valid token",
        exhaustive=True,
        checker_cmd="tools/vcheck C16 --tier %s" % tier)


def restore_leg(c, sc):
    """an expired token is no token - also on a node that got the token out of a snapshot: a real login (token life time
    3 s) on a single-member node, compaction while the token is valid, a new process on the same directory, the token
    presented after its life time"""
    d = os.path.join(sc, "restore")
    env = {"RNVERIF_DATA_DIR": d}
    res = vlib.harness(["authz", "c16-restore-prepare"], timeout=300, env=env)
    t = next((r for r in res if r.get("kind") == "token"), None)
    if not t or not t.get("works") or t.get("compact") != "ok":
        raise ToolError("restore leg: login / compaction did not work: %s" % t)
    res = vlib.harness(["authz", "c16-restore-check", t["token"]], timeout=300, env=env)
    r = next((x for x in res if x.get("kind") == "restored"), None)
    if not r:
        raise ToolError("restore leg: the restarted node gave no answer")
    c.count(1, [{"restore": "expired token after snapshot restore"}])
    c.traces(1)
    c.cov["restore_leg_decision"] = r["d"]
    if r["d"].get("decision") != "forbidden":
        c.violation("C16:NoDataWithoutToken@expired_token_after_snapshot_restore",
                    "a token whose life time (3 s) had passed was accepted by a node restarted from a snapshot taken while the "
                    "token was valid: GET /nacos/v1/cs/configs answered %s" % json.dumps(r["d"]),
                    {"decision": r["d"], "token_life_time_s": 3})


def lifecycle_leg(c, sc):
    """the time axis of 'a valid token' (TokenLife.tla): TLC checks that a token is refused after its life time however
    often it was used (negative control: a remembered verification that every use refreshes), and the recorded life of
    one real token on the real middleware - the same token every 400 ms from the login until 6 s after its life time -
    is validated against it"""
    mc = vlib.tlc_mc("TokenLife.tla", "MC_TokenLife.cfg", name="c16_life", workers=2)
    vlib.require_actions(mc, ["Login", "Use", "Tick", "Restart"])
    c.add_mc(mc)
    n = vlib.tlc_mc("TokenLife.tla", "MC_TokenLife_defect.cfg", expect_violation="RefusedAfterExpiry", name="c16_life_neg", workers=2)
    c.add_negative_control("TokenLife where every use refreshes the remembered verification violates RefusedAfterExpiry", n["violated"])
    d = os.path.join(sc, "life")
    res = vlib.harness(["authz", "c16-lifecycle"], timeout=300, env={"RNVERIF_DATA_DIR": d})
    ev = [r for r in res if r.get("event") in ("login", "use")]
    uses = [e for e in ev if e["event"] == "use"]
    if len(uses) < 12 or not any(e["decision"] == "served" for e in uses[:3]):
        raise ToolError("life-cycle leg: the token never worked or too few requests: %s" % uses[:5])
    tr = vlib.write_ndjson(os.path.join(sc, "life.ndjson"), ev)
    tv = vlib.tlc_tv("Trace_TokenLife.tla", "Trace_TokenLife.cfg", tr, name="c16_life_tv")
    c.count(len(uses), [{"life_cycle": "one token used every 400 ms across its expiry"}])
    c.traces(1)
    c.cov["life_cycle"] = [(e["t_ms"], e["decision"]) for e in uses]
    if not tv["accepted"]:
        ln = tv.get("rejected_line") or {}
        c.violation("C16:NoDataWithoutToken@token_used_across_its_expiry",
                    "a token with a life time of 3 s that was presented every 400 ms was still served %s ms after the login "
                    "(the store's clock has whole seconds: 1.6 s of slack are allowed): %s" % (ln.get("t_ms"), json.dumps(ln)),
                    {"events": ev, "rejected": ln})
    # binding control: the same trace with the last request turned into 'served' must be rejected
    bad = [dict(e) for e in ev]
    bad[-1]["decision"] = "served"
    tvb = vlib.tlc_tv("Trace_TokenLife.tla", "Trace_TokenLife.cfg", vlib.write_ndjson(os.path.join(sc, "life_bad.ndjson"), bad), name="c16_life_tvneg")
    c.add_negative_control("recorded token life with the last request (6 s after expiry) turned into 'served' is rejected", not tvb["accepted"])


def grpc_leg(c, sc):
    """every registered gRPC request type x carrier x token state x cluster-token state on the real tonic services"""
    res = vlib.harness(["authz", "grpc-inventory"], timeout=300)
    types = next(r["types"] for r in res if r.get("kind") == "types")
    if len(types) < 12:
        raise ToolError("gRPC handler inventory too small: %s" % types)
    # ServerCheckRequest is answered before the handler table; one unregistered name stands for any future data type
    types = sorted(set(types) | {"ServerCheckRequest", "UnknownFutureQueryRequest"})
    tf = vlib.write_ndjson(os.path.join(sc, "types.ndjson"), [{"type": t, "words": re.findall(r"[A-Z][a-z0-9]*", t)} for t in types])
    out, st = ac.tlc_authz("geng", {"ROUTES": tf, "OBS": tf}, "c16_geng")
    c.add_mc(dict(st, depth=2, wall_s=0, actions={}))
    reqs = vlib.parse_replay_lines(out)
    want = len(types) * (1 + 4 * 2) * 7
    if len(reqs) != want:
        raise ToolError("TLC enumerated %d gRPC requests, expected %d" % (len(reqs), want))
    for i, r in enumerate(reqs):
        r["id"] = i
    qf = vlib.write_ndjson(os.path.join(sc, "greqs.ndjson"), reqs)
    res = vlib.harness(["authz", "grpc", qf], timeout=3000)
    obs = [r for r in res if r.get("kind") == "obs"]
    if len(obs) != len(reqs):
        raise ToolError("gRPC harness answered %d of %d requests" % (len(obs), len(reqs)))
    of = vlib.write_ndjson(os.path.join(sc, "gobs.ndjson"), obs)
    out, st2 = ac.tlc_authz("chkg", {"ROUTES": tf, "OBS": of}, "c16_chkg")
    c.add_mc(dict(st2, depth=2, wall_s=0, actions={}))
    for req, i in ac.failed_requirements(out):
        o = obs[i - 1]
        c.violation("C16:%s@grpc:%s:tok=%s:ctok=%s" % (req, o["type"], o["tok"], o["ctok"]),
                    "gRPC requirement %s fails for %s (token %s in %s, cluster token %s): decision %s, changed=%s, leaked=%s, answer %s"
                    % (req, o["type"], o["tok"], o["carrier"], o["ctok"], o["d"], o["changed"], o["leaked"], o["text"][:100]),
                    {"observation": o, "requirement": req})
    eff_w = [o for o in obs if o["d"] == "handled" and o["changed"]]
    eff_r = [o for o in obs if o["d"] == "handled" and o["leaked"]]
    if len({o["type"] for o in eff_w}) < 6 or len({o["type"] for o in eff_r}) < 4:
        raise ToolError("gRPC leg vacuous: accepted requests change data for %s and return data for %s"
                        % (sorted({o["type"] for o in eff_w}), sorted({o["type"] for o in eff_r})))
    c.cov["grpc_types"] = types
    c.cov["grpc_requests"] = len(obs)
    c.cov["grpc_decisions"] = {d: sum(1 for o in obs if o["d"] == d) for d in sorted({o["d"] for o in obs})}
    c.cov["grpc_types_changing_data_when_accepted"] = sorted({o["type"] for o in eff_w})
    c.cov["grpc_types_returning_data_when_accepted"] = sorted({o["type"] for o in eff_r})
    c.count(len(obs), [{"t": o["type"], "tok": o["tok"], "ctok": o["ctok"], "c": o["carrier"]} for o in obs if o["d"] in ("refused_auth", "refused_cluster")])
    c.traces(len(obs))


def replay(path):
    print(json.dumps(json.load(open(path)), indent=1))
    return 0
