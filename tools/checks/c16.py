"""C16 - with auth on, no data endpoint (HTTP or gRPC) is served without a valid token."""
import json
import os
import shutil

import vlib
from vlib import Check, ToolError
from checks import authz_common as ac


def run(tier):
    c = Check("C16", tier)
    vlib.build_harness()
    sc = vlib.scratch("c16")
    inv = ac.inventory()
    main = [p for p in inv["main"] if "{" not in p]
    scoped = [p for p in main if p.startswith("/nacos/") or p.startswith("/rnacos/v1/")]
    if len(scoped) < 20:
        raise ToolError("main route inventory too small: %d" % len(scoped))
    rf = os.path.join(sc, "routes.ndjson")
    n_routes = ac.write_routes(rf, main, with_spellings=True)
    out, st = ac.tlc_authz("gen16", {"ROUTES": rf, "OBS": rf}, "c16_gen")
    c.add_mc(dict(st, depth=2, wall_s=0, actions={}))
    groups = vlib.parse_replay_lines(out)
    if len(groups) != n_routes * 4:
        raise ToolError("TLC enumerated %d request groups, expected %d" % (len(groups), n_routes * 4))
    gf = vlib.write_ndjson(os.path.join(sc, "groups.ndjson"), groups)
    res = vlib.harness(["authz", "c16", gf], timeout=3000)
    obs = [r for r in res if r.get("kind") == "obs"]
    if len(obs) != len(groups):
        raise ToolError("harness answered %d of %d request groups" % (len(obs), len(groups)))
    of = vlib.write_ndjson(os.path.join(sc, "obs.ndjson"), obs)
    out, st2 = ac.tlc_authz("chk16", {"ROUTES": rf, "OBS": of}, "c16_chk")
    c.add_mc(dict(st2, depth=2, wall_s=0, actions={}))
    for req, i in ac.failed_requirements(out):
        o = obs[i - 1]
        bad = sorted(t for t, d in o["d"].items() if o["tokstate"][t] != "valid" and d not in ("forbidden", "no_route", "other_route"))
        c.violation("C16:%s@%s:%s:%s" % (req, o["method"], o["canon"], o["spelling"]),
                    "OpenAPI requirement %s fails for %s %s (%s): served for credentials %s" % (req, o["method"], o["path"], o["spelling"], bad),
                    {"observation": o, "requirement": req})
    n_dec = sum(len(o["d"]) for o in obs)
    reached = [o for o in obs if any(o["tokstate"][t] == "valid" and d == "handled" for t, d in o["d"].items())]
    c.count(n_dec, [{"p": o["path"], "m": o["method"]} for o in reached])
    c.traces(len(obs))
    if len(reached) < 20:
        raise ToolError("a valid token reaches only %d endpoints: tokens are not effective, check is vacuous" % len(reached))
    c.cov["routes"] = len(main)
    c.cov["scoped_routes"] = len(scoped)
    c.cov["request_groups"] = len(groups)
    c.cov["decisions"] = n_dec
    c.cov["groups_reaching_a_handler_with_valid_token"] = len(reached)
    c.sample({"observation": next(o for o in obs if o["canon"] == "/nacos/v1/cs/configs" and o["method"] == "GET" and o["spelling"] == "canonical")})
    c.assumptions += [
        "auth switched on through RNACOS_ENABLE_OPEN_API_AUTH in the booted node; API tokens are placed in the token cache "
        "directly (valid / expired); middleware, routing and handlers are the real ones (in-process actix service)",
        "gRPC request types and the cluster token are covered by the gRPC leg (InvokerHandler) below when enabled; "
        "HTTP leg: every route x 6 spellings x 4 methods x 5 token states x 5 carriers",
        "'no data served' is judged by the decision (403 / no route), not by diffing state",
    ]
    shutil.rmtree(sc, ignore_errors=True)
    return c.finish(
        rule="complete product: every registered route of the main app (from the running app) x 6 spellings x "
             "{GET,POST,PUT,DELETE} x token state {absent, empty, garbage, expired, valid} x carrier {Authorization raw, "
             "Bearer, accessToken header, query, form body} executed on the real app with the real ApiCheckAuth "
             "middleware; TLC evaluates NoDataWithoutToken (scope /nacos/ and /rnacos/v1/, exemptions as in the property) "
             "and ValidTokenPasses on every observation; non-trivial = groups that reach a handler with a valid token",
        exhaustive=True,
        checker_cmd="tools/vcheck C16 --tier %s" % tier)


def replay(path):
    print(json.dumps(json.load(open(path)), indent=1))
    return 0
