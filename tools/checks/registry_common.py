"""Shared legs of C11 / C12 / C13 (Registry.tla)."""
import json
import os
import random
import shutil

import vlib
from vlib import ToolError

ACTIONS = ["DoUpdate", "Deregister", "Disconnect", "TimeCheck", "ClearEmpty", "Tick", "RefreshRange"]


def mc_legs(c, quick):
    mc = vlib.tlc_mc("Registry.tla", "MC_Registry_quick.cfg" if quick else "MC_Registry_thorough.cfg",
                     name=c.pid + "_mc", timeout=5000)
    vlib.require_actions(mc, ACTIONS)
    c.add_mc(mc)
    neg = vlib.tlc_mc("Registry.tla", "MC_Registry_defect.cfg", expect_violation="ClientSetSound", name=c.pid + "_neg")
    c.add_negative_control("Registry with Defect_ClientSetBeforeOwner (pre-fix bookkeeping order) violates ClientSetSound", neg["violated"])
    if c.pid == "C11":
        # the over-approximated environment (HTTP instances synced WITH a client id, which no real sender produces), without range changes
        mc2 = vlib.tlc_mc("Registry.tla", "MC_Registry_httpcl.cfg", name=c.pid + "_mc2", timeout=1200)
        c.add_mc(mc2)
    if c.pid == "C13":
        for cfg, what in (("MC_Registry_defect_noarm.cfg", "Defect_NoArmOnSync (an own instance that comes back by cluster sync is not armed; code before fix 4a2756a)"),
                          ("MC_Registry_defect_takeover.cfg", "Defect_TakeoverKeepsOrigin (a taken-over instance keeps its from-cluster mark; code before the take-over fix)")):
            neg = vlib.tlc_mc("Registry.tla", cfg, expect_violation="OwnedExpiredAfterSweep", name=c.pid + "_neg2")
            c.add_negative_control("Registry with %s violates OwnedExpiredAfterSweep" % what, neg["violated"])


def gen(c, cfg, num, seed, name, cap):
    beh = vlib.tlc_sim("SimRegistry.tla", cfg, num=num, depth=80, seed=seed, name=name)
    rnd = random.Random(seed)
    rnd.shuffle(beh)
    beh = beh[:cap]
    if len(beh) < min(50, cap):
        raise ToolError("too few Registry behaviours: %d" % len(beh))
    return beh


def keyfn(pid):
    def f(b, r):
        step = r.get("step", 0)
        op = b["steps"][step]["op"] if step < len(b["steps"]) else "?"
        return "%s:%s@%s" % (pid, r.get("what", "").replace(" ", "_"), op)
    return f


def replay(c, beh, sc, mode, label, nontrivial, H=1, T=3, name="beh"):
    bf = vlib.write_ndjson(os.path.join(sc, "%s_%s.ndjson" % (name, mode)), beh)
    res = vlib.harness(["replay", "registry", bf, "--mode", mode, "--H", H, "--T", T, "--jobs", 12], timeout=6000)
    summ = [r for r in res if r.get("kind") == "summary"][0]
    if summ.get("tool_errors", 0) > len(beh) // 10:
        raise ToolError("too many tool errors: %s" % summ)
    inc = sum(1 for r in res if r.get("kind") == "result" and r.get("inconclusive"))
    c.cov["inconclusive_real_clock_behaviours_%s_%s" % (name, mode)] = inc
    if inc * 3 > max(len(beh), 1):
        raise ToolError("%d of %d real-clock behaviours fell behind their schedule (loaded machine): nothing to say" % (inc, len(beh)))
    vlib.replay_results(c, beh, res, keyfn(c.pid), label, nontrivial=nontrivial)
