"""C02 - Raft log: acknowledged entries survive reopen unchanged; none are invented."""
import json

from vlib import Check
from checks import raftlog_common


def run(tier):
    c = Check("C02", tier)
    raftlog_common.run(c, tier, "SIM_RaftLog_file.cfg", "SIM_RaftLog_store.cfg", want_trunc=False)
    c.assumptions += [
        "reopen = clean stop (all acknowledged writes reached the OS); crash points are C04",
        "entries below the compaction floor may or may not be returned, but never invented ones",
        "rollover of the index area (173k+ records) is reached in the thorough tier only",
    ]
    return c.finish(
        rule="behaviours = TLC simulation of the RaftLog contract replayed (a) on LogInnerManager with 128/64-byte "
             "units and index intervals 2,3,4,128 written into the file header, (b) on FileStore on a mini node with "
             "reopen = new process; after EVERY step the whole readable log, sub-ranges, end and last term are compared; "
             "plus native-size random histories validated by TLC (Trace_RaftLog); non-trivial = contains a reopen",
        checker_cmd="tools/vcheck C02 --tier %s" % tier)


def replay(path):
    print(json.dumps(json.load(open(path)), indent=1))
    return 0
