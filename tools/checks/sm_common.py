"""Shared legs of C01 / C07 (StateMachine.tla)."""
import json
import os
import shutil

import vlib
from vlib import ToolError


def mc_legs(c, quick):
    # all components except MCP (configs with type / description, namespaces, users, sequences, persistent
    # instances, cache); MCP (tool specs + servers) in a model of its own so that the logs can be longer
    for cfg in (("MC_StateMachine.cfg", "MC_StateMachine_mcp.cfg") if quick else
                ("MC_StateMachine_thorough.cfg", "MC_StateMachine_mcp_thorough.cfg")):
        mc = vlib.tlc_mc("StateMachine.tla", cfg, name=c.pid + "_mc", timeout=3000)
        vlib.require_actions(mc, ["Apply", "ApplyBatch", "Compact", "InterruptSnap", "Restart"])
        c.add_mc(mc)
    for cfg, what in (("MC_StateMachine_defect_tail.cfg", "stale tail of an interrupted snapshot attempt is loaded"),
                      ("MC_StateMachine_defect_capture.cfg", "snapshot header index captured before the component states")):
        n = vlib.tlc_mc("StateMachine.tla", cfg, expect_violation="SnapshotsExact", name=c.pid + "_neg")
        c.add_negative_control("StateMachine with %s violates SnapshotsExact" % what, n["violated"])
    for cfg, what in (("MC_StateMachine_defect_mcp_sticky.cfg", "MCP tool references kept incrementally and never taken out"),
                      ("MC_StateMachine_defect_mcp_rclost.cfg", "MCP version reference counts missing from the snapshot")):
        n = vlib.tlc_mc("StateMachine.tla", cfg, expect_violation="LiveIsFold", name=c.pid + "_neg")
        c.add_negative_control("StateMachine with %s violates LiveIsFold" % what, n["violated"])


def gen(c, num, seed, name):
    """kind-first simulation of the whole model plus two focused alphabets (MCP only; persistent instances + cache)"""
    beh = []
    for i, (cfg, share) in enumerate((("SIM_StateMachine.cfg", 0.5), ("SIM_StateMachine_mcp.cfg", 0.25),
                                      ("SIM_StateMachine_namcch.cfg", 0.25))):
        part = vlib.tlc_sim("SimStateMachine.tla", cfg, num=max(8, int(num * share)), depth=60, seed=seed + i,
                            name="%s_%d" % (name, i))
        for b in part:
            b["alphabet"] = cfg[len("SIM_StateMachine"):-4].strip("_") or "all"
        beh += part
    if len(beh) < num // 4:
        raise ToolError("too few StateMachine behaviours: %d" % len(beh))
    kinds = set()
    for b in beh:
        for s in b["steps"]:
            for r in ([s["req"]] if s["op"] == "apply" else s.get("reqs", [])):
                kinds.add(r["t"])
    if len(kinds) < 20:
        raise ToolError("generated behaviours are not diverse: request kinds %s" % sorted(kinds))
    c.cov["request_kinds_generated"] = sorted(kinds)
    return beh


def _sig(b):
    out = []
    for s in b["steps"]:
        if s["op"] == "apply":
            out.append(s["req"]["t"] + ("+" if s["req"].get("tools") else ""))
        elif s["op"] == "apply_batch":
            out.append("[" + ",".join(r["t"] + ("+" if r.get("tools") else "") for r in s["reqs"]) + "]")
        else:
            out.append(s["op"])
    return " ".join(out)


def gen_mcp_thin(c, limit, seed):
    """thin cases of the MCP component, exported from the COMPLETE state graph of the small MCP model: a tool that a
    server referred to is changed / removed later, with a compaction somewhere.  Restart is the identity in the model
    (so TLC never reaches a new state through it); restarts are inserted here: one right after every compaction and
    one at the end.  One behaviour per distinct shape (sequence of operation / request kinds), seeded choice."""
    import random
    g = vlib.tlc_mc("StateMachine.tla", "GEN_StateMachine_mcp.cfg", name=c.pid + "_genmcp", collect_replay=True, timeout=1200)
    allb = g.get("replay", [])
    if not allb:
        raise ToolError("no thin MCP behaviour exported")
    by = {}
    for b in allb:
        by.setdefault(_sig(b), []).append(b)
    rnd = random.Random(seed)
    sigs = sorted(by)
    rnd.shuffle(sigs)
    chosen = []
    for sg in sigs[:limit]:
        b = rnd.choice(by[sg])
        steps = []
        for s in b["steps"]:
            steps.append(s)
            if s["op"] == "compact":
                steps.append({"op": "restart", "sm": s["sm"]})
        # ... then a restart, a compaction of the restarted node and another restart (every placement of compactions)
        applied = 0
        for s in steps:
            if s["op"] == "apply":
                applied = s["index"]
            elif s["op"] == "apply_batch":
                applied = s["index"] + len(s["reqs"]) - 1
        last_sm = steps[-1]["sm"]
        steps.append({"op": "restart", "sm": last_sm})
        if steps[-2]["op"] not in ("compact", "restart"):
            steps.append({"op": "compact", "upto": applied, "sm": last_sm})
            steps.append({"op": "restart", "sm": last_sm})
        chosen.append({"steps": steps, "alphabet": "mcp_thin"})
    c.cov["mcp_thin_exported"] = len(allb)
    c.cov["mcp_thin_shapes"] = len(sigs)
    c.cov["mcp_thin_replayed"] = len(chosen)
    return chosen


def transfer_leg(c, sc, beh, mode, keyfn):
    """export of the state a behaviour leads to, import into a fresh single-member node: the request kinds only an
    import sends go through restart / snapshot (mode transfer_c01) or the follower path (transfer_c07)"""
    bf = vlib.write_ndjson(os.path.join(sc, "beh_transfer.ndjson"), beh)
    res = vlib.harness(["replay", "sm", bf, "--mode", mode, "--jobs", 8], timeout=6000)
    summ = [r for r in res if r.get("kind") == "summary"][0]
    if summ.get("tool_errors", 0) > max(2, len(beh) // 8):
        raise ToolError("transfer leg: too many tool errors: %s" % summ)
    kinds = set()
    notes = {}
    for r in res:
        for k in r.get("request_kinds", []):
            kinds.add(k)
        for n in r.get("notes", []):
            notes[n.get("round_trip_differs")] = notes.get(n.get("round_trip_differs"), 0) + 1
    need = {"ConfigFullValue", "McpReq::SetToolSpec", "McpReq::SetServer", "McpReq::ImportFinished", "NamespaceReq::Set",
            "NamingReq::UpdateInstance", "TableManagerReq::Set"}
    if not need <= kinds:
        raise ToolError("transfer leg did not exercise the import request kinds %s" % sorted(need - kinds))
    c.cov["import_request_kinds"] = sorted(kinds)
    c.cov["round_trip_observations"] = notes
    vlib.replay_results(c, beh, res, keyfn, "export / import on real nodes (%s)" % mode, nontrivial=lambda b: True)
    if notes:
        c.note("observation (not one of the listed properties): an export followed by an import into an empty node does not "
               "rebuild %s (%s behaviours) - a namespace arrives as NamespaceRaftReq::Update, which an empty target ignores" %
               (sorted(notes), dict(notes)))


def tv_traces(c, sc, n, ops, c07=False):
    for t in range(n):
        tr = os.path.join(sc, "trace_%d.ndjson" % t)
        args = ["record", "sm", tr, "--seed", c.seed * 100 + t, "--ops", ops]
        if c07:
            args += ["--c07", 1]
        vlib.harness(args, timeout=1800)
        tv = vlib.tlc_tv("Trace_StateMachine.tla", "Trace_StateMachine.cfg", tr, name=c.pid + "_tv", timeout=1200)
        c.cov["states"] += tv["states"]
        c.cov["transitions"] += tv["states"]
        c.traces(1)
        c.count(tv["lines"], [{"trace": t, "seed": c.seed, "c07": c07}])
        if not tv["accepted"]:
            ln = tv["rejected_line"] or {}
            ev = ln.get("event")
            if ev == "error":
                raise ToolError("recorder reported an error: %s" % json.dumps(ln)[:300])
            prev = [x.get("event") for x in tv.get("context", [])]
            after = "restart" if "restart" in prev[-2:] else ("compact" if "compact" in prev[-2:] else "apply")
            key = "%s:trace:%s@%s" % (c.pid, ev, after)
            c.violation(key, "trace of a real node rejected by StateMachine.tla at line %d: %s" %
                        (tv["rejected_at"], json.dumps(ln)[:500]),
                        {"seed": c.seed * 100 + t, "ops": ops, "c07": c07, "line": tv["rejected_at"], "event": ln,
                         "context": tv.get("context", [])})
        elif t == 0:
            with open(tr) as f:
                c.sample({"trace_head": [json.loads(next(f)) for _ in range(4)]})
    # binding negative control: corrupt one recorded state -> must be rejected
    tr = os.path.join(sc, "trace_0.ndjson")
    lines = [json.loads(x) for x in open(tr) if x.strip()]
    done = False
    for ln in lines:
        if ln["event"] == "state" and ln["sm"]["seq"]:
            k = sorted(ln["sm"]["seq"])[0]
            ln["sm"]["seq"][k] += 1
            done = True
            break
    if done:
        bad = vlib.write_ndjson(os.path.join(sc, "trace_bad.ndjson"), lines)
        tvb = vlib.tlc_tv("Trace_StateMachine.tla", "Trace_StateMachine.cfg", bad, name=c.pid + "_tvneg")
        c.add_negative_control("corrupted trace (sequence counter off by one) rejected by Trace_StateMachine", not tvb["accepted"])
