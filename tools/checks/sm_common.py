"""Shared legs of C01 / C07 (StateMachine.tla)."""
import json
import os
import shutil

import vlib
from vlib import ToolError


def mc_legs(c, quick):
    mc = vlib.tlc_mc("StateMachine.tla", "MC_StateMachine.cfg" if quick else "MC_StateMachine_thorough.cfg",
                     name=c.pid + "_mc", timeout=3000)
    vlib.require_actions(mc, ["Apply", "ApplyBatch", "Compact", "InterruptSnap", "Restart"])
    c.add_mc(mc)
    for cfg, what in (("MC_StateMachine_defect_tail.cfg", "stale tail of an interrupted snapshot attempt is loaded"),
                      ("MC_StateMachine_defect_capture.cfg", "snapshot header index captured before the component states")):
        n = vlib.tlc_mc("StateMachine.tla", cfg, expect_violation="SnapshotsExact", name=c.pid + "_neg")
        c.add_negative_control("StateMachine with %s violates SnapshotsExact" % what, n["violated"])


def gen(c, num, seed, name):
    beh = vlib.tlc_sim("SimStateMachine.tla", "SIM_StateMachine.cfg", num=num, depth=60, seed=seed, name=name)
    if len(beh) < num // 4:
        raise ToolError("too few StateMachine behaviours: %d" % len(beh))
    return beh


def tv_traces(c, sc, n, ops, c07=False):
    for t in range(n):
        tr = os.path.join(sc, "trace_%d.ndjson" % t)
        args = ["record", "sm", tr, "--seed", c.seed * 100 + t, "--ops", ops]
        if c07:
            args += ["--c07", 1]
        vlib.harness(args, timeout=1800)
        tv = vlib.tlc_tv("Trace_StateMachine.tla", "Trace_StateMachine.cfg", tr, name=c.pid + "_tv", timeout=1200)
        c.cov["states"] += tv["states"]
        c.cov["transitions"] += tv["states"]
        c.traces(1)
        c.count(tv["lines"], [{"trace": t, "seed": c.seed, "c07": c07}])
        if not tv["accepted"]:
            ln = tv["rejected_line"] or {}
            ev = ln.get("event")
            if ev == "error":
                raise ToolError("recorder reported an error: %s" % json.dumps(ln)[:300])
            prev = [x.get("event") for x in tv.get("context", [])]
            after = "restart" if "restart" in prev[-2:] else ("compact" if "compact" in prev[-2:] else "apply")
            key = "%s:trace:%s@%s" % (c.pid, ev, after)
            c.violation(key, "trace of a real node rejected by StateMachine.tla at line %d: %s" %
                        (tv["rejected_at"], json.dumps(ln)[:500]),
                        {"seed": c.seed * 100 + t, "ops": ops, "c07": c07, "line": tv["rejected_at"], "event": ln,
                         "context": tv.get("context", [])})
        elif t == 0:
            with open(tr) as f:
                c.sample({"trace_head": [json.loads(next(f)) for _ in range(4)]})
    # binding negative control: corrupt one recorded state -> must be rejected
    tr = os.path.join(sc, "trace_0.ndjson")
    lines = [json.loads(x) for x in open(tr) if x.strip()]
    done = False
    for ln in lines:
        if ln["event"] == "state" and ln["sm"]["seq"]:
            k = sorted(ln["sm"]["seq"])[0]
            ln["sm"]["seq"][k] += 1
            done = True
            break
    if done:
        bad = vlib.write_ndjson(os.path.join(sc, "trace_bad.ndjson"), lines)
        tvb = vlib.tlc_tv("Trace_StateMachine.tla", "Trace_StateMachine.cfg", bad, name=c.pid + "_tvneg")
        c.add_negative_control("corrupted trace (sequence counter off by one) rejected by Trace_StateMachine", not tvb["accepted"])
