"""C10 - config change notification is complete: no listener waits on a stale md5."""
import json
import os
import random
import shutil

import vlib
from vlib import Check, ToolError
from checks import front_common


def keyfn(b, r):
    step = r.get("step", 0)
    op = b["steps"][step]["op"] if step < len(b["steps"]) else "?"
    ops = [s["op"] for s in b["steps"][:step + 1]]
    tag = "+after_tick" if "tick" in ops[:-1] else ""
    return "C10:%s@%s%s" % (r.get("what", "").replace(" ", "_"), op, tag)


def run(tier):
    c = Check("C10", tier)
    quick = tier != "thorough"
    vlib.build_harness()
    sc = vlib.scratch("c10")
    mc = vlib.tlc_mc("MC_ConfigCenter.tla", "MC_ConfigCenter_c10_quick.cfg" if quick else "MC_ConfigCenter_c10.cfg",
                     name="c10_mc", timeout=3000)
    vlib.require_actions(mc, ["Publish", "Remove", "Listen", "Tick", "Subscribe", "Unsubscribe", "Disconnect"])
    c.add_mc(mc)
    neg = vlib.tlc_mc("MC_ConfigCenter.tla", "MC_ConfigCenter_c10_bug.cfg", expect_violation="NoStaleWaiter", name="c10_neg")
    c.add_negative_control("ConfigCenter where a publish wakes only the oldest waiter violates NoStaleWaiter", neg["violated"])
    beh = vlib.tlc_sim("SimConfigCenter.tla", "SIM_ConfigCenter_c10.cfg", num=120 if quick else 1500, depth=40, seed=c.seed, name="c10_sim")
    rnd = random.Random(c.seed)
    rnd.shuffle(beh)
    # behaviours with a tick (real 1.2 s sleep) first, then the rest
    beh.sort(key=lambda b: -sum(1 for s in b["steps"] if s["op"] in ("tick",)) - (1 if any(s["op"] == "listen" and not s["answered"] for s in b["steps"]) else 0))
    beh = beh[: (240 if quick else 4000)]
    if len(beh) < 50:
        raise ToolError("too few behaviours %d" % len(beh))
    # thin cases from the COMPLETE graph of a tiny model (1 key, 2 contents, 1 subscriber, 2 long polls, 4 steps): a client
    # registers, its registration ends (remove / un-listen / connection close / answer) and it registers AGAIN; the last step
    # is a change that must be reported.  A few per shape (sequence of operation kinds), seeded.
    g = vlib.tlc_mc("MC_ConfigCenter.tla", "GEN_ConfigCenter_rereg4.cfg", name="c10_gen", collect_replay=True, timeout=1200)
    thin = g.get("replay", [])
    if len(thin) < 500:
        raise ToolError("too few thin re-registration behaviours: %d" % len(thin))
    rnd.shuffle(thin)
    by_shape = {}
    for b in thin:
        by_shape.setdefault(tuple(s["op"] for s in b["steps"]), []).append(b)
    per = 3 if quick else 40
    thin_sel = [b for shape in sorted(by_shape) for b in by_shape[shape][:per]]
    c.cov["thin_rereg_exported"] = len(thin)
    c.cov["thin_rereg_shapes"] = len(by_shape)
    c.cov["thin_rereg_replayed"] = len(thin_sel)
    if ("subscribe", "remove", "subscribe", "publish") not in by_shape:
        raise ToolError("thin generation lost the shape subscribe / remove / subscribe / publish")
    beh = beh + thin_sel
    bf = vlib.write_ndjson(os.path.join(sc, "beh.ndjson"), beh)
    res = vlib.harness(["replay", "cfgcenter", bf, "--shards", 14], timeout=6000)
    inc = sum(1 for r in res if r.get("kind") == "result" and r.get("inconclusive"))
    c.cov["inconclusive_real_clock_behaviours"] = inc
    if inc * 3 > len(beh):
        raise ToolError("%d of %d real-clock behaviours fell behind their schedule (loaded machine): nothing to say" % (inc, len(beh)))
    vlib.replay_results(c, beh, res, keyfn, "ConfigActor notifications",
                        nontrivial=lambda b: any(s["op"] == "listen" and not s["answered"] for s in b["steps"]))
    c.sample({"behaviour": [(s["op"], s.get("key") or s.get("id") or s.get("client")) for s in beh[0]["steps"]]})
    c.assumptions += [
        "time unit 400 ms; a long poll is 'answered by its timeout' if answered within timeout + 800 ms (the actor's own "
        "heart-beat is 500 ms); a late answer within a further 1.5 s is not reported",
        "gRPC pushes are observed at Subscriber::notify (hook event NotifyConfig), not on a real stream",
        "SetTmpValue and full-value import change content without notification by design; outside this property",
    ]
    # ---- front door: the same specification replayed through the real HTTP routes and gRPC services of a node
    front_common.run_front(c, sc, quick, own_c10=True, extra=thin_sel)
    shutil.rmtree(sc, ignore_errors=True)
    return c.finish(
        rule="behaviours = TLC simulation of ConfigCenter.tla with listeners (up to 4 long polls over key subsets with "
             "held md5s and short/long time-outs, 2 subscribers), behaviours with time-outs first; replayed on a real "
             "ConfigActor: after EVERY step each long poll's receiver is checked (answered with exactly the changed keys / "
             "still pending), the emitted NotifyConfig events and the set of pending listeners are compared with the spec; "
             "plus thin cases from the complete graph of a tiny model (a client registers again after its registration ended, then "
             "the key changes), a few per shape; "
             "non-trivial = at least one long poll was registered (not answered at once)",
        checker_cmd="tools/vcheck C10 --tier %s" % tier)


def replay(path):
    print(json.dumps(json.load(open(path)), indent=1))
    return 0
