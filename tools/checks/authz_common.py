"""Shared machinery of C16 / C17 / C18 (Authz.tla): route inventory, spellings, TLC gen + check runs."""
import json
import os
import re
import subprocess

import vlib
from vlib import ToolError

import routes as routes_mod


def inventory():
    return routes_mod.inventory(vlib.HARNESS)


def segs_of(path):
    return [x for x in path.split("/") if x]


def spellings(path):
    """spelling variants of a canonical path that might still reach a handler"""
    out = [("canonical", path)]
    segs = segs_of(path)
    if not segs:
        return out
    out.append(("trailing_slash", path + "/"))
    out.append(("double_slash", "/" + segs[0] + "//" + "/".join(segs[1:]) if len(segs) > 1 else "//" + segs[0]))
    out.append(("upper_case", "/" + "/".join(segs[:-1] + [segs[-1].upper()])))
    last = segs[-1]
    enc = "%%%02X" % ord(last[0]) + last[1:]
    out.append(("pct_encoded", "/" + "/".join(segs[:-1] + [enc])))
    first = segs[0]
    enc0 = first[0] + "%%%02X" % ord(first[1]) + first[2:] if len(first) > 2 else first
    out.append(("pct_encoded_prefix", "/" + "/".join([enc0] + segs[1:])))
    # a query string does not change which handler is reached; one that ends like a static file name must not
    # change the access decision either
    out.append(("query_plain", path + "?_=1"))
    out.append(("query_static_ext", path + "?_=app.js"))
    return out


def write_routes(path, canon_paths, with_spellings):
    n = 0
    with open(path, "w") as f:
        for c in canon_paths:
            for sp, p in (spellings(c) if with_spellings else [("canonical", c)]):
                f.write(json.dumps({"path": p, "canon": c, "segs": segs_of(c), "spelling": sp}) + "\n")
                n += 1
    return n


def tlc_authz(mode, env, name, timeout=900):
    """run Authz.tla in the given mode; returns (stdout, stats)"""
    cfg = os.path.join(vlib.SPEC, "Authz_%s.cfg" % mode)
    with open(cfg, "w") as f:
        f.write("SPECIFICATION Spec\nCONSTANTS Mode = \"%s\"\nINVARIANTS %s\nCHECK_DEADLOCK FALSE\n" %
                (mode, {"gen17": "Gen17", "chk17": "Chk17", "gen16": "Gen16", "chk16": "Chk16", "geng": "GenG", "chkg": "ChkG", "gen18": "Gen18", "chk18": "Chk18"}[mode]))
    meta = os.path.join(vlib.TLCDIR, name)
    e = dict(os.environ, JAVA_TOOL_OPTIONS="-Xss1g")
    e.update(env)
    r = subprocess.run(["timeout", str(timeout), "tlc", "-workers", "1", "-metadir", meta, "-cleanup", "-noGenerateSpecTE",
                        "-config", cfg, "Authz.tla"], cwd=vlib.SPEC, stdout=subprocess.PIPE, stderr=subprocess.STDOUT, text=True, env=e)
    if r.returncode == 124:
        raise ToolError("TLC timeout in Authz %s" % mode)
    if "Model checking completed. No error has been found" not in r.stdout:
        import sys
        sys.stderr.write(r.stdout[-3000:])
        raise ToolError("TLC failed in Authz mode %s" % mode)
    m = re.search(r"(\d+) states generated, (\d+) distinct states found", r.stdout)
    return r.stdout, {"generated": int(m.group(1)) if m else 0, "distinct": int(m.group(2)) if m else 0,
                      "cfg": "Authz_%s.cfg" % mode, "module": "Authz.tla"}


def failed_requirements(stdout):
    out = []
    for m in re.finditer(r'<<"REQ-FAILED", "(\w+)", (\d+)>>', stdout):
        out.append((m.group(1), int(m.group(2))))
    return out
