"""C05 - Raft vote, term, membership and node addresses are durable, never regress."""
import json
import os
import random
import shutil

import vlib
from vlib import Check, ToolError


def keyfn(b, r):
    step = r.get("step", 0)
    ops = [s["op"] for s in b["steps"][:step + 1]]
    thin = any(s["op"] == "reopen" and s.get("flen", 99) <= 24 for s in b["steps"][:step + 1])
    return "C05:%s@%s%s" % (r.get("what", "").replace(" ", "_"), ops[-1] if ops else "?", "+shortfile" if thin else "")


def run(tier):
    c = Check("C05", tier)
    quick = tier != "thorough"
    vlib.build_harness()
    sc = vlib.scratch("c05")

    mc = vlib.tlc_mc("RaftMeta.tla", "MC_RaftMeta.cfg" if quick else "MC_RaftMeta_thorough.cfg", name="c05_mc", timeout=1500)
    vlib.require_actions(mc, ["SaveHardState", "ApplyMembers", "ApplyNodeAddr", "CatalogueLog", "CatalogueSnapshot", "Reopen"])
    c.add_mc(mc)
    neg = vlib.tlc_mc("RaftMeta.tla", "MC_RaftMeta_defect.cfg", expect_violation="Durable", name="c05_neg")
    c.add_negative_control("RaftMeta with InitThreshold=20 (pre-fix start-up rule) violates Durable", neg["violated"])

    # ---- GEN 1: every behaviour of length 3 over a small alphabet (complete), thin cases first
    gen = vlib.tlc_mc("RaftMeta.tla", "GEN_RaftMeta.cfg", workers=4, name="c05_gen", collect_replay=True)
    allb = gen["replay"]
    thin = [b for b in allb if any(s["op"] == "reopen" and s["flen"] <= 24 for s in b["steps"])]
    rest = [b for b in allb if b not in thin]
    # ---- GEN 1b: one write between two restarts, every such sequence of length 4 (complete)
    single = vlib.tlc_mc("RaftMeta.tla", "GEN_RaftMeta_single.cfg", workers=4, name="c05_gen_single", collect_replay=True)["replay"]
    if len(single) < 100:
        raise ToolError("too few single-write-between-restarts behaviours: %d" % len(single))
    c.cov["single_write_between_restarts_behaviours"] = len(single)
    rnd = random.Random(c.seed)
    rnd.shuffle(rest)
    chosen = thin + rest[: (150 if quick else len(rest))]
    # ---- GEN 2: longer random behaviours over a larger alphabet
    sim = vlib.tlc_sim("RaftMeta.tla", "SIM_RaftMeta.cfg", num=120 if quick else 2000, depth=30, seed=c.seed, name="c05_sim")
    # ---- GEN 3: kind-first simulation (SimRaftMeta.tla): compactions and reopens as often as parameter-rich kinds,
    # so that "compaction, membership / address change, compaction" and its variants with reopens are replayed
    simk = vlib.tlc_sim("SimRaftMeta.tla", "SIM_RaftMeta_kind.cfg", num=60 if quick else 1500, depth=40, seed=c.seed, name="c05_simk")
    rnd.shuffle(simk)

    def two_compactions_around_a_change(b):
        ops = [s["op"] for s in b["steps"]]
        for i, o in enumerate(ops):
            if o == "cat_snapshot":
                for j in range(i + 1, len(ops)):
                    if ops[j] in ("members", "node_addr") and "cat_snapshot" in ops[j + 1:]:
                        return True
        return False
    simk.sort(key=lambda b: 0 if two_compactions_around_a_change(b) else 1)
    simk = simk[: (200 if quick else 6000)]
    c.cov["behaviours_with_a_change_between_two_compactions"] = sum(1 for b in simk if two_compactions_around_a_change(b))
    if c.cov["behaviours_with_a_change_between_two_compactions"] < 20:
        raise ToolError("kind-first simulation produced too few compaction / change / compaction behaviours")
    beh = chosen + single + sim + simk
    bf = vlib.write_ndjson(os.path.join(sc, "beh.ndjson"), beh)
    res = vlib.harness(["replay", "meta", bf, "--jobs", 8], timeout=3000)
    summ = [r for r in res if r.get("kind") == "summary"][0]
    if summ.get("tool_errors", 0) > len(beh) // 10:
        raise ToolError("too many mini-node tool errors: %s" % summ)
    vlib.replay_results(c, beh, res, keyfn, "metadata store on mini node",
                        nontrivial=lambda b: any(s["op"] == "reopen" for s in b["steps"]))
    c.cov["thin_cases_replayed"] = len(thin)
    c.cov["complete_short_behaviours"] = len(allb)
    if not thin:
        raise ToolError("no thin (short index file at reopen) behaviour generated")
    c.sample({"thin_behaviour": thin[0]})
    c.sample({"random_behaviour_ops": [s["op"] for s in sim[0]["steps"]]})
    c.assumptions += [
        "reopen = clean stop; the local node id is never a member, so the dormant Raft core never writes hard state",
        "membership/address updates travel as ClientRequest::Members / NodeAddr through append + apply, as in production",
    ]
    shutil.rmtree(sc, ignore_errors=True)
    return c.finish(
        rule="behaviours = all length-3 sequences over {save-hard-state, members, node-addr, catalogue-log, "
             "catalogue-snapshot, reopen} of a small alphabet (behaviours whose reopen meets an index file of <= 24 bytes "
             "first, seeded sample of the rest in quick tier) + ALL length-4 sequences with exactly one write between two restarts + TLC-simulated 9-step sequences over 4 nodes + kind-first simulated 12-step sequences (compactions and reopens as frequent as the parameter-rich kinds; those with a membership / address change between two compactions first); replayed on "
             "FileStore on a mini node (reopen = new process), get_initial_state / get_membership_config / "
             "get_target_addr compared after every step; non-trivial = contains a reopen",
        checker_cmd="tools/vcheck C05 --tier %s" % tier)


def replay(path):
    print(json.dumps(json.load(open(path)), indent=1))
    return 0
