"""C09 - config store: last write wins, md5 matches content, listings match store."""
import json
import os
import random
import shutil

import vlib
from vlib import Check, ToolError
from checks import front_common


def keyfn(b, r):
    what = r.get("what", "").replace(" ", "_")
    extra = ""
    if what.startswith("listing"):
        e = r.get("expected", {})
        # normalised: does the window straddle a group boundary / which filter class
        f = e.get("filter", [None] * 4)
        extra = "@filter=%s" % ("none" if not any(f) else ("exact" if (f[0] or f[1]) else "like"))
    return "C09:%s%s" % (what, extra)


def run(tier):
    c = Check("C09", tier)
    quick = tier != "thorough"
    vlib.build_harness()
    sc = vlib.scratch("c09")
    mc = vlib.tlc_mc("MC_ConfigCenter.tla", "MC_ConfigCenter_c09_quick.cfg" if quick else "MC_ConfigCenter_c09.cfg", name="c09_mc", timeout=3000)
    vlib.require_actions(mc, ["Publish", "Remove", "Import", "Echo"])
    c.add_mc(mc)
    beh = vlib.tlc_sim("SimConfigCenter.tla", "SIM_ConfigCenter_c09.cfg", num=60 if quick else 600, depth=40, seed=c.seed, name="c09_sim")
    rnd = random.Random(c.seed)
    rnd.shuffle(beh)
    beh = beh[: (600 if quick else 8000)]
    if len(beh) < 50:
        raise ToolError("too few behaviours %d" % len(beh))
    bf = vlib.write_ndjson(os.path.join(sc, "beh.ndjson"), beh)
    res = vlib.harness(["replay", "cfgcenter", bf, "--shards", 10], timeout=3000)
    vlib.replay_results(c, beh, res, keyfn, "ConfigActor",
                        nontrivial=lambda b: len({s["key"] for s in b["steps"]}) >= 3)
    c.sample({"behaviour": [(s["op"], s["key"], s.get("v")) for s in beh[0]["steps"]]})
    # history bound: 150 publishes of one key (native bound 100) as one long directed behaviour is part of
    # the recorded leg of C01; here the model bound is checked with HistMax = 2 in MC and 100 in replay
    c.assumptions += [
        "md5 modelled as identity on contents; the replay checks md5(content) on the real values",
        "paging is checked per tenant (every API passes a tenant); every (offset, limit) window over every filter class",
        "the follower's echo of a routed publish (SetTmpValue) is an environment step of the model (Echo): it is not judged "
        "itself - a key that only holds an echoed value is served by a read and not listed, as coded - but publishes, removes "
        "and imports are judged in the states it leads to (C06 covers the echo's own race)",
    ]
    # ---- front door: the same specification replayed through the real HTTP routes and gRPC services of a node
    front_common.run_front(c, sc, quick, own_c10=False)
    shutil.rmtree(sc, ignore_errors=True)
    return c.finish(
        rule="behaviours = TLC simulation of ConfigCenter.tla (publish / remove / import / echo over 6 keys in 2 tenants and 3 "
             "groups), replayed on a real ConfigActor; after EVERY step: GET of every key (content, md5, type), change "
             "history in every window, and for every tenant and filter (none, exact group, exact dataId, substring) every "
             "(offset, limit) page window is compared with the slice of the spec's listing; non-trivial = touches >= 3 keys",
        checker_cmd="tools/vcheck C09 --tier %s" % tier)


def replay(path):
    print(json.dumps(json.load(open(path)), indent=1))
    return 0
