"""C08 - a node caught up by snapshot install serves the same data as the leader."""
import json
import os
import shutil

import vlib
from vlib import Check, ToolError

DEFECTS = [
    ("AppendMode", "InstalledIntact", "chunk writes of a session always land at the end of the file"),
    ("BeginAtZero", "InstalledIntact", "a chunk that opens a session is written at position 0 whatever its offset"),
    ("NoTruncate", "InstalledIntact", "the reused snapshot file keeps bytes behind the new content"),
    ("NoLiveLoad", "FollowerServesPrefix", "finalize does not load the snapshot into the running state machine"),
    ("ReinstallOnDup", "InstalledIntact", "a repeated final chunk installs the empty file of a new session"),
    ("InstallKeepsTmp", "FollowerServesPrefix", "loading the snapshot leaves an echoed (temporary) config value in place"),
]


def keyfn(b, r):
    what = r.get("what", "")
    if "[install resumed after a follower restart]" in what:
        return "C08:resumed_install_after_follower_restart"
    return "C08:%s" % what.replace(" ", "_")[:90]


def n_installs(b):
    return sum(1 for s in b["steps"] if s["op"] == "chunk" and s["done"])


def run(tier):
    c = Check("C08", tier)
    quick = tier != "thorough"
    vlib.build_harness()
    sc = vlib.scratch("c08")

    mc = vlib.tlc_mc("SnapInstall.tla", "MC_SnapInstall.cfg" if quick else "MC_SnapInstall_thorough.cfg", name="c08_mc", timeout=3000)
    vlib.require_actions(mc, ["LWrite", "LMembers", "LCompact", "Replicate", "FEcho", "StartStream", "Chunk", "DupFinal", "FCrash", "FStart"])
    c.add_mc(mc)
    for d, inv, what in DEFECTS:
        n = vlib.tlc_mc("SnapInstall.tla", "MC_SnapInstall_defect_%s.cfg" % d, expect_violation=inv, name="c08_neg")
        c.add_negative_control("SnapInstall where %s violates %s" % (what, inv), n["violated"])

    beh = vlib.tlc_sim("SimSnapInstall.tla", "SIM_SnapInstall.cfg", num=500 if quick else 6000, depth=300, seed=c.seed + 8,
                       name="c08_sim", timeout=1500)
    if len(beh) < 100:
        raise ToolError("too few SnapInstall behaviours: %d" % len(beh))
    beh.sort(key=lambda b: -n_installs(b))
    beh = beh[: (200 if quick else 3000)]
    # thin cases from the COMPLETE state graph of the small model: an install completes while the follower holds an
    # echoed (temporary) value of a key (random schedules rarely get there)
    import random
    g = vlib.tlc_mc("SnapInstall.tla", "GEN_SnapInstall_echo.cfg", name="c08_gen", collect_replay=True, timeout=1200)
    thin = g.get("replay", [])
    if not thin:
        raise ToolError("no thin (install over an echoed value) behaviour exported")
    random.Random(c.seed).shuffle(thin)
    c.cov["thin_echo_exported"] = len(thin)
    thin = thin[: (60 if quick else 400)]
    c.cov["thin_echo_replayed"] = len(thin)
    beh += thin
    bf = vlib.write_ndjson(os.path.join(sc, "beh.ndjson"), beh)
    res = vlib.harness(["replay", "snapinstall", bf, "--jobs", 8], timeout=9000)
    summ = [r for r in res if r.get("kind") == "summary"][0]
    if summ.get("tool_errors", 0) > len(beh) // 10:
        raise ToolError("too many mini-node tool errors: %s" % summ)
    vlib.replay_results(c, beh, res, keyfn, "snapshot install on two mini nodes", nontrivial=lambda b: n_installs(b) > 0)
    # installs that left items the leader had deleted before the snapshot (cured by the restart the harness then does)
    stale = 0
    for r in res:
        for nt in r.get("notes", []) or []:
            stale += 1
            b = beh[r["i"]]
            c.violation("C08:%s" % nt["class"],
                        "snapshot install on two mini nodes: after the install the follower still serves %s, which the "
                        "leader deleted before the snapshot (gone after a restart) at step %s" % (nt["extra"], nt["step"]),
                        {"behaviour": b, "note": nt})
    # ---- sizes: the same behaviours with the content named c as a text of 3.3 MB (every record that holds it is larger
    # than 2 MiB - more than one read of a file returns - and the snapshot travels in chunks of about a megabyte)
    def big_ok(b):
        seen = False
        for s_ in b["steps"]:
            if s_["op"] == "lwrite" and s_.get("req", {}).get("t") == "cfg_set" and s_["req"].get("v") == "c":
                seen = True
            if seen and s_["op"] == "chunk" and s_["done"]:
                return True
        return False
    bigb = [b for b in beh if big_ok(b)][: (10 if quick else 60)]
    if len(bigb) < 5:
        raise ToolError("too few behaviours in which content c is published before a completed install: %d" % len(bigb))
    bbf = vlib.write_ndjson(os.path.join(sc, "beh_big.ndjson"), bigb)
    bres = vlib.harness(["replay", "snapinstall", bbf, "--jobs", 5], timeout=6000, env={"RNVERIF_BIG": "c=3300000"})
    bsumm = [r for r in bres if r.get("kind") == "summary"][0]
    if bsumm.get("tool_errors", 0) > len(bigb) // 4:
        raise ToolError("big-record leg: too many mini-node tool errors: %s" % bsumm)
    for r in bres:
        if r.get("kind") == "result" and not r["ok"]:
            b = bigb[r["i"]]
            k = keyfn(b, r)
            c.violation(k if k == "C08:resumed_install_after_follower_restart" else k + "+3.3MB_content",
                        "snapshot install on two mini nodes, content c = 3.3 MB: %s (expected %s, got %s) at step %s" %
                        (r.get("what"), json.dumps(r.get("expected"))[:600], json.dumps(r.get("actual"))[:600], r.get("step")),
                        {"behaviour": b, "mismatch": {k2: (v if len(json.dumps(v)) < 2000 else "(large)") for k2, v in r.items()}, "env": {"RNVERIF_BIG": "c=3300000"}})
        for nt in (r.get("notes", []) or []) if r.get("kind") == "result" else []:
            c.violation("C08:%s" % nt["class"], "snapshot install on two mini nodes (3.3 MB content): after the install the follower still "
                        "serves %s, which the leader deleted before the snapshot at step %s" % (nt["extra"], nt["step"]), {"behaviour": bigb[r["i"]], "note": nt})
    c.cov["behaviours_replayed_with_3.3MB_records"] = len(bigb)
    c.traces(len(bigb))
    installs = summ.get("installs", 0)
    if installs < len(beh) // 2:
        raise ToolError("only %d installs in %d behaviours: generation is off" % (installs, len(beh)))
    c.cov["installs_finalized_on_real_follower"] = installs
    c.cov["behaviours_with_lost_answers"] = sum(1 for b in beh if any(s["op"] == "chunk" and not s["acked"] for s in b["steps"]))
    c.cov["behaviours_with_crash_inside_a_stream"] = sum(
        1 for b in beh if any(b["steps"][i]["op"] == "fcrash" and i > 0 and b["steps"][i - 1]["op"] == "chunk" and not b["steps"][i - 1]["done"]
                              for i in range(len(b["steps"]))))
    c.cov["installs_with_stale_items"] = stale
    c.sample({"behaviour_ops": [(s["op"], s.get("c")) for s in beh[0]["steps"]]})
    c.assumptions += [
        "log entries and snapshot chunks are hand-carried between two mini nodes (real FileStore, state machine actors and "
        "start-up code; no network): the leader side is FileStore::do_log_compaction / get_current_snapshot, the follower "
        "side runs a TRANSCRIPTION of async-raft 0.6.3 core::install_snapshot (begin / continue / finalize) on the real "
        "FileStore; the chunk size is chosen per snapshot (1..3 chunks + the empty final chunk) instead of 3 MiB",
        "a follower 'crash' ends the process after acknowledged writes reached the disk (the install session is lost, the "
        "partly written snapshot file stays); losing acknowledged writes at a crash is C04's subject",
        "compared: configs with history, namespaces, user table (specification) and the full dumps of leader and follower "
        "when the follower has everything; membership = FileStore::get_membership_config",
    ]
    shutil.rmtree(sc, ignore_errors=True)
    return c.finish(
        rule="behaviours of SnapInstall.tla (leader writes / membership changes / compactions, entry replication, snapshot "
             "streams with lost answers, repeated final chunks, follower crashes inside and outside a stream, stream aborts) "
             "from TLC simulation, replayed on a real leader and a real follower node; after every follower step and after a "
             "final restart the follower's served state and membership are compared with the specification's prefix state; "
             "non-trivial = behaviours in which a snapshot install completes",
        checker_cmd="tools/vcheck C08 --tier %s" % tier)


def replay(path):
    print(json.dumps(json.load(open(path)), indent=1))
    return 0
