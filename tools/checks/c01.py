"""C01 - served state survives restart: snapshot plus log replay reproduces it exactly."""
import json
import os
import shutil

import vlib
from vlib import Check, ToolError
from checks import sm_common


def keyfn(b, r):
    step = r.get("step", 0)
    ops = [s["op"] for s in b["steps"][:step + 1]]
    tags = []
    if "interrupt_snapshot" in ops:
        tags.append("interrupted")
    if "compact" in ops:
        tags.append("compact")
    if "apply_batch" in ops:
        tags.append("batch")
    return "C01:%s@%s%s" % (r.get("what", "").replace(" ", "_"), ops[-1] if ops else "?", "".join("+" + t for t in tags))


def run(tier):
    c = Check("C01", tier)
    quick = tier != "thorough"
    vlib.build_harness()
    sc = vlib.scratch("c01")
    sm_common.mc_legs(c, quick)

    beh = sm_common.gen(c, 300 if quick else 4000, c.seed, "c01_sim")
    # prefer behaviours with the interesting shape: compaction (or interrupted attempt) before a restart
    def score(b):
        ops = [s["op"] for s in b["steps"]]
        return ("compact" in ops) * 2 + ("interrupt_snapshot" in ops) * 2 + ops.count("restart")
    beh.sort(key=score, reverse=True)
    beh = beh[: (70 if quick else 1200)]
    beh += sm_common.gen_mcp_thin(c, 60 if quick else 1500, c.seed)
    bf = vlib.write_ndjson(os.path.join(sc, "beh.ndjson"), beh)
    res = vlib.harness(["replay", "sm", bf, "--mode", "c01", "--jobs", 8], timeout=6000)
    summ = [r for r in res if r.get("kind") == "summary"][0]
    if summ.get("tool_errors", 0) > len(beh) // 10:
        raise ToolError("too many mini-node tool errors: %s" % summ)
    vlib.replay_results(c, beh, res, keyfn, "state machine on mini node",
                        nontrivial=lambda b: any(s["op"] == "compact" for s in b["steps"]))
    c.sample({"behaviour_ops": [s["op"] for s in beh[0]["steps"]], "first_request": beh[0]["steps"][0].get("req")})

    # ---- sizes ("any keys/sizes"): behaviours that publish the content named c and compact afterwards, replayed with c as
    # a text of 3.3 MB - log and snapshot records larger than 2 MiB (more than one read of a file returns)
    def big_ok(b):
        seen = False
        for s_ in b["steps"]:
            rs = [s_["req"]] if s_["op"] == "apply" else s_.get("reqs", []) if s_["op"] == "apply_batch" else []
            if any(r.get("t") == "cfg_set" and r.get("v") == "c" for r in rs):
                seen = True
            if seen and s_["op"] == "compact":
                return True
        return False
    bigb = [b for b in beh if big_ok(b)][: (8 if quick else 60)]
    if len(bigb) < 4:
        raise ToolError("too few behaviours that publish content c before a compaction: %d" % len(bigb))
    bres = vlib.harness(["replay", "sm", vlib.write_ndjson(os.path.join(sc, "beh_big.ndjson"), bigb), "--mode", "c01", "--jobs", 4],
                        timeout=6000, env={"RNVERIF_BIG": "c=3300000"})
    bsumm = [r for r in bres if r.get("kind") == "summary"][0]
    if bsumm.get("tool_errors", 0) > len(bigb) // 4:
        raise ToolError("big-record leg: too many mini-node tool errors: %s" % bsumm)
    for r in bres:
        if r.get("kind") == "result" and not r["ok"]:
            c.violation(keyfn(bigb[r["i"]], r) + "+3.3MB_content",
                        "state machine on mini node, content c = 3.3 MB: %s (expected %s, got %s) at step %s" %
                        (r.get("what"), vlib.json.dumps(r.get("expected"))[:500], vlib.json.dumps(r.get("actual"))[:500], r.get("step")),
                        {"behaviour": bigb[r["i"]], "env": {"RNVERIF_BIG": "c=3300000"},
                         "mismatch": {k: (v if len(vlib.json.dumps(v)) < 2000 else "(large)") for k, v in r.items()}})
    c.cov["behaviours_replayed_with_3.3MB_records"] = len(bigb)
    c.traces(len(bigb))

    sm_common.transfer_leg(c, sc, [b for b in beh if b.get("alphabet") != "mcp_thin"][: (40 if quick else 600)], "transfer_c01",
                           lambda b, r: "C01:import:%s" % r.get("what", "").replace(" ", "_"))
    exact_fit_leg(c, sc)
    sm_common.tv_traces(c, sc, 3 if quick else 40, 70 if quick else 250)
    c.assumptions += [
        "stop point = clean stop (700 ms settle: all acknowledged writes reached the OS); crash points are C04",
        "spec predicts configs (content, type, description, history), namespaces, users, sequences, persistent "
        "instances (weight, enabled), cache entries without expiry, MCP tool specs (current version, versions) and "
        "servers (current / released value, history); compared through the public query messages (+ two read-only "
        "hooks: sequence counters, registry dump); at every restart the FULL dumps before and after are compared",
        "MCP: tool versions and server value ids are fresh numbers (as the console draws them from sequences); "
        "at most ten publishes per server (the history bound of the code is not reached)",
        "compaction is sequential with applies in the harness (the non-atomic capture is shown at model level only)",
    ]
    shutil.rmtree(sc, ignore_errors=True)
    return c.finish(
        rule="behaviours = TLC simulation of StateMachine.tla (kind-first wrapper) ending in a restart, sorted so that "
             "behaviours with compaction / interrupted snapshot attempt before a restart come first; replayed on a mini "
             "node (restart = new OS process); after EVERY step the served state (configs with type / description / history, "
             "namespaces, users, sequences, persistent instances, cache, MCP tool specs and servers) is compared with the spec and at every restart with the dump taken before the stop; plus "
             "seeded random histories with compactions and restarts validated by TLC; plus the thin MCP cases exported "
             "from the complete state graph of the small MCP model (a referenced tool changed / removed later, restarts inserted "
             "after compactions); non-trivial = contains a compaction",
        checker_cmd="tools/vcheck C01 --tier %s" % tier)


def exact_fit_leg(c, sc):
    """thin case of the log file layout: the applied records end EXACTLY at the pre-allocated end of the log file
    (16 x 65 280 bytes fill the 1 MiB file behind its 4 KiB index area), with and without one more record; the state
    served after a restart must be the state served before it (real vs real)"""
    for n_rec in (15, 16, 17):
        d = os.path.join(sc, "fit_%d" % n_rec)
        os.makedirs(d)
        node = vlib.MiniNode(d)
        for i in range(1, n_rec + 1):
            e = {"index": i, "term": 1, "id": 500 + i, "sz": 1, "unit": 65280}
            for op in ("append", "apply_sized"):
                r = node.call(dict(e, op=op))
                if r.get("res") != "ok":
                    node.kill()
                    raise ToolError("exact-fit leg: %s of record %d failed: %s" % (op, i, r))
        before = node.call({"op": "dump"})
        node.stop()
        node = vlib.MiniNode(d)
        after = node.call({"op": "dump"})
        st = node.call({"op": "initial_state"})
        node.kill()
        c.count(1, [{"exact_fit_records": n_rec}])
        c.traces(1)
        if before.get("dump") != after.get("dump") or st.get("last_log_index") != n_rec:
            lost = sorted(set(before["dump"]["cfg"]) - set(after["dump"]["cfg"]))
            c.violation("C01:restart_loses_state@log_file_exact_fit",
                        "after %d records of 65 280 bytes (the log file is %s) and a clean restart the node serves a different "
                        "state: %d of %d configs missing (%s ...), last log index %s" %
                        (n_rec, "exactly full" if n_rec == 16 else "not exactly full", len(lost), len(before["dump"]["cfg"]), lost[:3],
                         st.get("last_log_index")),
                        {"records": n_rec, "unit": 65280, "missing": lost, "initial_state": st})


def replay(path):
    print(json.dumps(json.load(open(path)), indent=1))
    return 0
