"""C20 - length-prefixed record streams decode identically under every chunking."""
import json
import os

import vlib
from vlib import Check, ToolError


def keyfn(b, r):
    # normalised failing input: which observer, and the alignment class
    what = r.get("what", "")
    if what == "is_empty":
        step = b["steps"][r["step"]]
        return "C20:is_empty@%s" % ("drained" if r.get("actual") is True else "other")
    return "C20:%s" % what.replace(" ", "_")


def run(tier):
    c = Check("C20", tier)
    vlib.build_harness()
    sc = vlib.scratch("c20")
    quick = tier != "thorough"

    # ---- MC: refinement of the impl-shaped reader against the abstract contract
    mc = vlib.tlc_mc("Codec.tla", "MC_Codec.cfg" if quick else "MC_Codec_thorough.cfg", name="c20_mc",
                     timeout=900 if quick else 3400, workers=8 if quick else 12)
    vlib.require_actions(mc, ["AddRec", "Feed", "Next"])
    c.add_mc(mc)
    neg = vlib.tlc_mc("Codec.tla", "MC_Codec_defect.cfg", expect_violation="NoEarlyStop", name="c20_neg")
    c.add_negative_control("Codec with Defect_IsEmptyDrained=TRUE violates NoEarlyStop", neg["violated"])
    mv = vlib.tlc_mc("Varint.tla", "MC_Varint.cfg", workers=4, name="c20_varint", collect_replay=True)
    c.add_mc(mv)

    # ---- GEN + REPLAY: varints (complete enumeration of digit patterns)
    vfile = vlib.write_ndjson(os.path.join(sc, "varint.ndjson"), mv["replay"])
    res = vlib.harness(["replay", "varint", vfile])
    summ = [r for r in res if r.get("kind") == "summary"][0]
    for r in res:
        if r.get("kind") == "result" and not r["ok"]:
            c.violation("C20:varint", "varint writer/reader/size disagree: %s" % json.dumps(r), r)
    c.count(summ["total"], [{"varint": i} for i in range(summ["total"])])
    c.traces(summ["total"])
    c.sample({"varint_case": mv["replay"][len(mv["replay"]) // 2]})

    # ---- GEN + REPLAY: reader behaviours from TLC simulation, two cell sizes
    num = 400 if quick else 6000
    beh = vlib.tlc_sim("Codec.tla", "SIM_Codec.cfg", num=num, depth=24, seed=c.seed, name="c20_sim")
    if len(beh) < num // 4:
        raise ToolError("too few behaviours generated: %d" % len(beh))
    bfile = vlib.write_ndjson(os.path.join(sc, "beh.ndjson"), beh)
    nontriv = lambda b: any(s["op"] == "next" and s["rec"] > 0 for s in b["steps"])
    for unit in (1, 128):
        res = vlib.harness(["replay", "codec", bfile, "--unit", unit])
        vlib.replay_results(c, beh, res, keyfn, "MessageBufReader (cell=%dB)" % unit,
                            nontrivial=lambda b, u=unit: nontriv(b) and dict(b, unit=u))
    c.sample({"behaviour": beh[0]})

    # ---- RECORD + TV: native byte lengths, random chunkings, validated by TLC
    ntr = 3 if quick else 30
    for t in range(ntr):
        tr = os.path.join(sc, "trace_%d.ndjson" % t)
        vlib.harness(["record", "codec", tr, "--seed", c.seed * 1000 + t, "--streams", 40 if quick else 120])
        tv = vlib.tlc_tv("Trace_Codec.tla", "Trace_Codec.cfg", tr, name="c20_tv")
        c.cov["states"] += tv["states"]
        c.cov["transitions"] += tv["states"]
        c.traces(1)
        c.count(tv["lines"], [{"trace": t, "seed": c.seed}])
        if not tv["accepted"]:
            ln = tv["rejected_line"] or {}
            ctx = tv.get("context", [])
            key = "C20:trace:%s" % ln.get("event")
            if ln.get("event") in ("feed", "next") and ln.get("empty") is True:
                key = "C20:is_empty@drained"
            c.violation(key, "trace of the real reader rejected by Codec contract at line %d: %s" %
                        (tv["rejected_at"], json.dumps(ln)),
                        {"trace_seed": c.seed * 1000 + t, "line": tv["rejected_at"], "event": ln, "context": ctx})
        elif t == 0:
            with open(tr) as f:
                c.sample({"trace_head": [json.loads(next(f)) for _ in range(6)]})

    # ---- negative control of the binding: corrupt one recorded field -> must be rejected
    tr = os.path.join(sc, "trace_0.ndjson")
    lines = [json.loads(x) for x in open(tr) if x.strip()]
    for i, ln in enumerate(lines):
        if ln["event"] == "next" and ln["rec"] > 1:
            ln["rec"] -= 1
            break
    bad = vlib.write_ndjson(os.path.join(sc, "trace_bad.ndjson"), lines)
    tvb = vlib.tlc_tv("Trace_Codec.tla", "Trace_Codec.cfg", bad, name="c20_tvneg")
    c.add_negative_control("corrupted trace (wrong record number) rejected by Trace_Codec", not tvb["accepted"])

    c.assumptions += [
        "bytes inside one model cell are uniform (all zero / all non-zero); cell sizes 1 and 128 are run",
        "the three consumer loops of the code are exercised through their owners (C02/C01), here the reader API itself",
    ]
    import shutil
    shutil.rmtree(sc, ignore_errors=True)
    return c.finish(
        rule="behaviours = TLC simulation of Codec.tla (stream choice, chunking, calls) replayed on the real "
             "MessageBufReader with 1 and 128 bytes per cell, and each stream also written to a file and read back through the "
             "real FileMessageReader (read_next until the end, read_to_end count) + every base-128 digit pattern of length 1..10 on the "
             "real varint functions + seeded native-length traces validated by TLC against the abstract contract; "
             "non-trivial = at least one record handed out; distinct by content hash",
        checker_cmd="tools/vcheck C20 --tier %s" % tier)


def replay(path):
    obj = json.load(open(path))
    print(json.dumps(obj, indent=1))
    return 0
