"""C04 - the Raft store is crash-consistent at every file-write boundary."""
import json
import os
import re
import shutil
import subprocess
from concurrent.futures import ThreadPoolExecutor

import crashimg
import vlib
from vlib import Check, ToolError

BIN = os.path.join(vlib.ROOT, ".build", "target", "debug", "rnverif")
INIT_OBS = {"first": 1, "end": 1, "floor": 1, "log": []}


def script_of(steps, unit):
    """-> (lines, line_step): node ops for the history and, per op line, the step it belongs to"""
    lines, owner = [], []
    live, applied = [], 0
    for si, s in enumerate(steps):
        op = s["op"]
        if op == "append":
            o = {"op": "append", "index": s["index"], "term": s["term"], "id": s["id"], "sz": s["sz"], "unit": unit, "sync": True}
            lines.append(o); owner.append(si)
            if s["res"] == "ok":
                live.append(dict(s))
        elif op == "batch":
            o = {"op": "batch", "unit": unit, "sync": True, "entries": [{"index": e["index"], "term": e["term"], "id": e["id"], "sz": e["sz"]} for e in s["entries"]]}
            lines.append(o); owner.append(si)
            live.extend(dict(e) for e in s["entries"])
        elif op == "truncate":
            lines.append({"op": "truncate", "k": s["k"]}); owner.append(si)
            live = [e for e in live if e["index"] < s["k"]]
        elif op == "compact":
            for e in live:
                if e["index"] > applied:
                    if e.get("members") is not None:
                        lines.append({"op": "apply", "index": e["index"], "req": {"Members": sorted(e["members"])}})
                    else:
                        lines.append({"op": "apply_sized", "index": e["index"], "term": e["term"], "id": e["id"], "sz": e["sz"], "unit": unit})
                    owner.append(si)
                    applied = e["index"]
            lines.append({"op": "compact"}); owner.append(si)
        elif op == "save_hs":
            lines.append({"op": "save_hs", "term": s["term"], "vote": s["vote"]}); owner.append(si)
        elif op == "members":
            req = {"Members": sorted(s["members"])}
            lines.append({"op": "append_req", "index": s["index"], "term": s["term"], "req": req, "sync": True}); owner.append(si)
            lines.append({"op": "apply", "index": s["index"], "req": req}); owner.append(si)
            live.append(dict(s, sz=1))
            applied = max(applied, s["index"]) if applied == s["index"] - 1 else applied
    return lines, owner


def journal_run(sc, name, lines):
    """run the script on a fresh node under strace; -> (events, data_dir, acks)"""
    d = os.path.join(sc, name)
    os.makedirs(d)
    data = os.path.join(d, "data")
    ops = os.path.join(d, "ops.ndjson")
    with open(ops, "w") as f:
        for o in lines:
            f.write(json.dumps(o) + "\n")
    jf = os.path.join(d, "journal.txt")
    with open(ops) as fin, open(os.path.join(d, "out.txt"), "w") as fout:
        r = subprocess.run(["strace", "-f", "-y", "-xx", "-s", "4000000", "-e",
                            "trace=openat,write,pwrite64,lseek,ftruncate,rename,renameat,renameat2,unlink,unlinkat,close,mkdir,mkdirat",
                            "-o", jf, BIN, "node", "run", data, "--settle", "700"],
                           stdin=fin, stdout=fout, stderr=subprocess.DEVNULL, timeout=600,
                           env=dict(os.environ, RUST_LOG="off"))
    if r.returncode != 0:
        raise ToolError("journalled node run failed (%d)" % r.returncode)
    acks = [json.loads(x) for x in open(os.path.join(d, "out.txt")) if x.strip()]
    if len(acks) != len(lines) + 1 or acks[0].get("res") != "booted":
        raise ToolError("journalled node answered %d of %d ops" % (len(acks) - 1, len(lines)))
    bad = [(i, a) for i, a in enumerate(acks[1:]) if a.get("res") not in ("ok", "index_error")]
    if bad:
        raise ToolError("journalled node: op %s failed: %s" % (lines[bad[0][0]], bad[0][1]))
    ev = crashimg.parse(jf, data)
    os.remove(jf)
    return ev, data


def decode_catalogues(blobs):
    r = subprocess.run([BIN, "decode", "catalogue"], input="".join(b.hex() + "\n" for b in blobs), stdout=subprocess.PIPE,
                       stderr=subprocess.DEVNULL, text=True, timeout=120)
    out = [json.loads(x) for x in r.stdout.splitlines() if x.strip()]
    if len(out) != len(blobs):
        raise ToolError("catalogue decoder answered %d of %d records" % (len(out), len(blobs)))
    return out


def order_leg(c, sc, name, order):
    """trace validation of one journal against CrashOrder.tla; a rejected journal that is accepted once a Defect_* constant
    is switched on shows a write order that TLC proves unsafe"""
    tp = vlib.write_ndjson(os.path.join(sc, "order_%s.ndjson" % name), order)
    tv = vlib.tlc_tv("Trace_CrashOrder.tla", "Trace_CrashOrder.cfg", tp, name="c04_order", timeout=600)
    c.cov["states"] += tv["states"]
    c.cov["journal_mutations_validated"] = c.cov.get("journal_mutations_validated", 0) + tv["lines"]
    if tv["accepted"]:
        return
    ln = tv.get("rejected_line") or {}
    if tv.get("invariant_violated"):
        c.violation("C04:write_order:%s" % tv["invariant_violated"],
                    "journal of history %s reaches a disk state that is not %s (CrashOrder.tla)" % (name, tv["invariant_violated"]),
                    {"history": name, "journal_tail": order[-12:]})
        return
    for d in ("CatTruncateFirst",):
        tvd = vlib.tlc_tv("Trace_CrashOrder.tla", "Trace_CrashOrder_defect_%s.cfg" % d, tp, name="c04_order_d", timeout=600)
        if tvd["accepted"]:
            c.violation("C04:write_order:%s@%s" % (d, ln.get("ev")),
                        "the file mutations of history %s are only explained by CrashOrder.tla with Defect_%s, for which TLC shows "
                        "that a crash leaves an unrecoverable store: journal line %d %s" % (name, d, tv["rejected_at"], json.dumps(ln)),
                        {"history": name, "line": tv["rejected_at"], "event": ln, "context": tv.get("context", [])})
            return
    c.cov["model_drift"].append({"history": name, "line": tv["rejected_at"], "event": ln, "context": tv.get("context", [])[-4:]})
    vlib.log("C04: journal of %s has a mutation the order model does not know (line %d %s): recorded as model drift" %
             (name, tv["rejected_at"], json.dumps(ln)[:200]))


NO_USE = {"ran": False, "accepted": True, "booted2": True, "appended": [], "live": [], "reopened": [], "error": ""}


def _node(imgdir):
    return subprocess.Popen([BIN, "node", "run", imgdir, "--settle", "0"], stdin=subprocess.PIPE, stdout=subprocess.PIPE,
                            stderr=subprocess.DEVNULL, text=True, env=dict(os.environ, RUST_LOG="off"))


def _ask(p, o):
    p.stdin.write(json.dumps(o) + "\n"); p.stdin.flush()
    ln = p.stdout.readline()
    return json.loads(ln) if ln.strip() else {"res": "died"}


def probe(imgdir, unit=1):
    """open a crash image with the real start-up code; -> rec.  A store that came back is then USED the way Raft uses it
    after a restart - three appends behind the last log index it reported, each acknowledged - killed at that quiescent
    point and opened once more: rec["use"] (requirement UsableAfterRecovery of CrashStore.tla)."""
    p = _node(imgdir)
    rec = {"booted": False, "entries": [], "term": 0, "vote": 0, "members": [], "last_applied": 0, "last_log_index": 0,
           "last_log_term": 0, "snapshot_index": 0, "error": "", "use": json.loads(json.dumps(NO_USE))}
    try:
        script = [{"op": "initial_state"}, {"op": "snap_get"}]
        out_first = p.stdout.readline()
        if not out_first.strip():
            rec["error"] = "process died during start-up"
            return rec
        first = json.loads(out_first)
        if first.get("res") != "booted":
            rec["error"] = "start-up failed: %s" % first.get("err", first)
            return rec
        ans = []
        for o in script:
            a = _ask(p, o)
            if a.get("res") == "died":
                rec["error"] = "process died at %s" % o["op"]
                return rec
            ans.append(a)
        st, sn = ans
        if st.get("res") != "ok":
            rec["error"] = "get_initial_state failed: %s" % st.get("err")
            return rec
        rec.update(term=st["term"], vote=st["vote"], members=st["members"], last_applied=st["last_applied"],
                   last_log_index=st["last_log_index"], last_log_term=st["last_log_term"])
        rec["snapshot_index"] = sn.get("index", 0) if sn.get("res") == "ok" else 0
        rd = _ask(p, {"op": "read", "a": 1, "b": st["last_log_index"] + 4})
        if rd.get("res") != "ok":
            rec["error"] = "reading the log failed: %s" % rd.get("err", rd.get("res"))
            return rec
        rec["entries"] = rd["entries"]
        rec["booted"] = True
        # ---- use the recovered store (only when the index it reports is the end of what it returns: LastIndexReadable
        # judges the other case, and an append "behind the end" would then be ill-defined)
        es = rec["entries"]
        end_ok = (es[-1]["index"] == st["last_log_index"]) if es else (st["last_log_index"] <= rec["snapshot_index"])
        if not end_ok:
            return rec
        use = json.loads(json.dumps(NO_USE))
        use["ran"] = True
        rec["use"] = use
        nxt = st["last_log_index"] + 1
        term = max(st["term"], st["last_log_term"], 1)
        for j, sz in enumerate((1, 3, 2)):
            e = {"index": nxt + j, "term": term, "id": 990001 + j}
            a = _ask(p, dict(e, op="append", sz=sz, unit=unit, sync=True))
            if a.get("res") != "ok":
                use["accepted"] = False
                use["error"] = "append at %d after recovery: %s" % (nxt + j, a.get("err", a.get("res")))
                return rec
            use["appended"].append(e)
        rd = _ask(p, {"op": "read", "a": 1, "b": nxt + 7})
        if rd.get("res") != "ok":
            use["accepted"] = False
            use["error"] = "reading after the appends failed: %s" % rd.get("err", rd.get("res"))
            return rec
        use["live"] = rd["entries"]
        p.kill(); p.wait()
        p = _node(imgdir)
        out_first = p.stdout.readline()
        if not out_first.strip() or json.loads(out_first).get("res") != "booted":
            use["booted2"] = False
            use["error"] = "second start-up failed: %s" % out_first.strip()[:200]
            return rec
        rd = _ask(p, {"op": "read", "a": 1, "b": nxt + 7})
        if rd.get("res") != "ok":
            use["booted2"] = False
            use["error"] = "reading after the second start failed: %s" % rd.get("err", rd.get("res"))
            return rec
        use["reopened"] = rd["entries"]
        return rec
    finally:
        try:
            p.kill()
        except Exception:
            pass
        p.wait()


def long_truncate_history():
    """a log longer than two index intervals (128 records each) that is cut back across an index point, then extended:
    the truncation clears index-area entries AND record bytes"""
    steps, log, nid = [], [], 1

    def obs():
        return {"first": 1, "end": 1 + len(log), "floor": 1, "log": [dict(e) for e in log]}
    for b in range(6):
        es = []
        for _ in range(50):
            idx = len(log) + 1
            e = {"index": idx, "term": 1, "id": nid, "sz": 1}
            nid += 1
            es.append(e)
            log.append({"index": idx, "term": 1, "id": e["id"]})
        steps.append({"op": "batch", "entries": es, "res": "ok", "obs": obs()})
    for k, n_more in ((101, 1), (60, 1)):
        del log[k - 1:]
        steps.append({"op": "truncate", "k": k, "res": "ok", "obs": obs()})
        for _ in range(n_more):
            idx = len(log) + 1
            log.append({"index": idx, "term": 2, "id": nid})
            steps.append({"op": "append", "index": idx, "term": 2, "id": nid, "sz": 1, "res": "ok", "obs": obs()})
            nid += 1
    return steps


def observations(sc, name, steps, unit, max_images, tail_only=0):
    lines, owner = script_of(steps, unit)
    ev, data = journal_run(sc, name, lines)
    member_ids = {s["id"] for s in steps if s["op"] == "members"}

    def fix(obs):
        o = dict(obs)
        o["log"] = [dict(e, id=0) if e["id"] in member_ids else e for e in obs["log"]]
        return o
    # the journal itself against the order discipline of CrashOrder.tla
    order = crashimg.order_events(ev, decode_catalogues)
    imgs = []
    for k, files, acks, last_ev in crashimg.images(ev):
        n_ack = max(0, len(acks) - 1)
        imgs.append((k, {p: bytes(b) for p, b in files.items() if crashimg.is_store_file(p)}, n_ack, last_ev))
    total = len(imgs)
    if tail_only:
        imgs = imgs[-tail_only:]        # (the long plain-append prefix of this history is covered by the others)
    if len(imgs) > max_images:
        # keep every image around acknowledgements thin out evenly elsewhere (thorough keeps all)
        step = len(imgs) / float(max_images)
        imgs = [imgs[int(i * step)] for i in range(max_images)]
    out = []

    def one(j):
        k, files, n_ack, last_ev = imgs[j]
        d = os.path.join(sc, name, "img_%d" % j)
        crashimg.materialise(files, d)
        rec = probe(d, unit)
        shutil.rmtree(d, ignore_errors=True)
        # last fully acknowledged step, step possibly in flight
        acked_steps = -1
        for si in range(len(steps)):
            idxs = [i for i, o in enumerate(owner) if o == si]
            if idxs and idxs[-1] < n_ack:
                acked_steps = si
            elif idxs:
                break
        done_steps = [s for s in steps[:acked_steps + 1]]
        rest = [s for s in steps[acked_steps + 1:] if any(o == steps.index(s) for o in owner)]
        nxt = None
        for si in range(acked_steps + 1, len(steps)):
            if any(o == si for o in owner):
                nxt = steps[si]
                break
        before = fix(done_steps[-1]["obs"]) if done_steps else INIT_OBS
        after = fix(nxt["obs"]) if nxt else before
        infl = {"op": nxt["op"], "k": nxt.get("k", 0)} if nxt else {"op": "none", "k": 0}
        upto = done_steps + ([nxt] if nxt else [])
        hs_vals = [{"term": 0, "vote": 0}] + [{"term": s["term"], "vote": s["vote"]} for s in upto if s["op"] == "save_hs"]
        mem_vals = [[], [9]] + [sorted(s["members"]) for s in upto if s["op"] == "members"]
        submitted = []
        for s_ in upto:
            if s_["op"] == "append" and s_["res"] == "ok":
                submitted.append({"index": s_["index"], "term": s_["term"], "id": s_["id"]})
            elif s_["op"] == "batch":
                submitted += [{"index": e["index"], "term": e["term"], "id": e["id"]} for e in s_["entries"]]
            elif s_["op"] == "members":
                submitted.append({"index": s_["index"], "term": s_["term"], "id": 0})
        return {"name": name, "image": j, "submitted": submitted, "journal_prefix": k, "acked_ops": n_ack, "unit": unit,
                "last_mutation": {x: (len(v) if x == "data" else v) for x, v in last_ev.items()},
                "before": before, "after": after, "inflight": infl, "hs_vals": hs_vals, "mem_vals": mem_vals, "rec": rec}
    with ThreadPoolExecutor(max_workers=8) as ex:
        out = list(ex.map(one, range(len(imgs))))
    shutil.rmtree(os.path.join(sc, name), ignore_errors=True)
    return out, total, len(ev), order


def tlc_chk(obs_file, name):
    cfg = os.path.join(vlib.SPEC, "CHK_CrashStore.cfg")
    e = dict(os.environ, JAVA_TOOL_OPTIONS="-Xss1g", OBS=obs_file)
    meta = os.path.join(vlib.TLCDIR, name)
    r = subprocess.run(["timeout", "900", "tlc", "-workers", "1", "-metadir", meta, "-cleanup", "-noGenerateSpecTE",
                        "-config", cfg, "CrashStore.tla"], cwd=vlib.SPEC, stdout=subprocess.PIPE, stderr=subprocess.STDOUT, text=True, env=e)
    if "Model checking completed. No error has been found" not in r.stdout:
        import sys
        sys.stderr.write(r.stdout[-3000:])
        raise ToolError("TLC failed evaluating the crash contract")
    return [(m.group(1), int(m.group(2))) for m in re.finditer(r'<<"REQ-FAILED", "(\w+)", (\d+)>>', r.stdout)]


def run(tier):
    c = Check("C04", tier)
    quick = tier != "thorough"
    vlib.build_harness()
    sc = vlib.scratch("c04")
    mc = vlib.tlc_mc("CrashOrder.tla", "MC_CrashOrder.cfg" if quick else "MC_CrashOrder_thorough.cfg", name="c04_mc", timeout=3000, workers=12)
    vlib.require_actions(mc, ["LogOpen", "LogHeader", "LogSetLen", "LogData", "LogUnlink", "SnapCreate", "SnapWrite", "SnapUnlink"])
    c.add_mc(mc)
    for d, what in (("CatTruncateFirst", "the catalogue is sized before it is written"),
                    ("ListBeforeWritten", "a snapshot is listed before its file exists"),
                    ("UnlinkUncovered", "a log file is unlinked without a covering snapshot")):
        n = vlib.tlc_mc("CrashOrder.tla", "MC_CrashOrder_defect_%s.cfg" % d, expect_violation="Recoverable", name="c04_neg")
        c.add_negative_control("CrashOrder where %s violates Recoverable" % what, n["violated"])
    beh = vlib.tlc_sim("CrashStore.tla", "SIM_CrashStore.cfg", num=60 if quick else 600, depth=40, seed=c.seed + 4, name="c04_sim")
    if len(beh) < 20:
        raise ToolError("too few CrashStore histories: %d" % len(beh))
    n_hist = 10 if quick else 80
    # prefer histories with truncation, compaction and metadata changes
    beh.sort(key=lambda b: -len({s["op"] for s in b["steps"]}))
    beh = beh[:n_hist]
    all_obs, images_total, mutations = [], 0, 0
    for i, b in enumerate(beh):
        steps = [s for s in b["steps"] if s["op"] != "reopen" and s.get("res") != "index_error"]
        unit = 128 if i % 3 else 65280
        obs, total, nev, order = observations(sc, "h%d" % i, steps, unit, 90 if quick else 100000)
        order_leg(c, sc, "h%d" % i, order)
        all_obs.extend(obs)
        images_total += total
        mutations += nev
    obs, total, nev, order = observations(sc, "long_truncate", long_truncate_history(), 128, 100000, tail_only=60)
    order_leg(c, sc, "long_truncate", order)
    all_obs.extend(obs)
    images_total += total
    mutations += nev
    of = vlib.write_ndjson(os.path.join(sc, "obs.ndjson"), all_obs)
    failed = tlc_chk(of, "c04_chk")
    c.add_mc({"generated": 1, "distinct": 1, "depth": 1, "wall_s": 0, "actions": {}, "cfg": "CHK_CrashStore.cfg", "module": "CrashStore.tla"})
    seen = set()
    for req, i in failed:
        o = all_obs[i - 1]
        lm = o["last_mutation"]
        where = "%s:%s" % (lm.get("kind"), re.sub(r"\d+", "N", lm.get("path", "")))
        key = "C04:%s@%s:inflight=%s" % (req, where, o["inflight"]["op"])
        if key in seen:
            continue
        seen.add(key)
        c.violation(key, "crash contract %s fails for the image after journal prefix %d of history %s (last mutation %s, %d ops "
                         "acknowledged, operation in flight: %s): store reports %s" %
                    (req, o["journal_prefix"], o["name"], json.dumps(lm), o["acked_ops"], o["inflight"]["op"],
                     json.dumps({k: o["rec"][k] for k in ("booted", "error", "term", "vote", "members", "last_applied", "last_log_index", "snapshot_index")})),
                    {"observation": o, "requirement": req})
    c.count(len(all_obs), [{"h": o["name"], "k": o["journal_prefix"]} for o in all_obs if o["inflight"]["op"] != "none"])
    c.traces(len(all_obs))
    c.cov["histories"] = len(beh)
    c.cov["file_mutations_journalled"] = mutations
    c.cov["distinct_images"] = images_total
    c.cov["images_opened"] = len(all_obs)
    used = [o for o in all_obs if o["rec"].get("use", {}).get("ran")]
    c.cov["images_used_after_recovery"] = len(used)
    c.cov["images_used_with_empty_log"] = sum(1 for o in used if not o["rec"]["entries"])
    if len(used) * 2 < len(all_obs):
        raise vlib.ToolError("C04: only %d of %d recovered images could be used after the recovery (UsableAfterRecovery would be vacuous)" % (len(used), len(all_obs)))
    c.cov["images_by_inflight_op"] = {k: sum(1 for o in all_obs if o["inflight"]["op"] == k) for k in sorted({o["inflight"]["op"] for o in all_obs})}
    c.sample({"observation": {k: v for k, v in all_obs[len(all_obs) // 2].items() if k not in ("before", "after")}})
    c.assumptions += [
        "crash model of the property: process death, OS survives, every write call atomic and applied in program order; the "
        "journal is an strace log of the node process (openat, write, pwrite64, lseek, ftruncate, rename, unlink), images are "
        "rebuilt from its prefixes; only the store's files (index, log_*, snapshot_*) are imaged",
        "'acknowledged' = the node answered the operation before the crash point (its answer line precedes the mutation in "
        "the journal); the operation after the last acknowledged one is treated as possibly in flight",
        "quick tier opens at most 90 evenly spread images per history; thorough opens every distinct image",
        "MetaWritten is the property's weak form (any value written before the kill, including the initial one)",
        "an append counts as acknowledged AND FLUSHED (the property's words) when the node answered it: the harness reads the "
        "entry back before it answers, which returns only after the pending write of the store's file handle (the store "
        "itself answers an append as soon as the record is handed to the file; its flush timer runs every 500 ms)",
        "UsableAfterRecovery: every image whose store came back (and reports the end of what it returns) is used further - "
        "three appends behind the reported last index, kill at that quiescent point, second start, read",
    ]
    shutil.rmtree(sc, ignore_errors=True)
    return c.finish(
        rule="operation histories (append, batch, truncate, compaction, hard state, membership) from TLC simulation of "
             "CrashStore.tla run on a real node under a journal of its file mutations; for every prefix of the journal the "
             "directory image is rebuilt and opened by the real start-up code, and TLC evaluates the crash contract (Reopens, "
             "Contiguous, KeepsAcked, OnlySubmitted, MetaWritten, AppliedReproducible, LastIndexReadable, UsableAfterRecovery) on every "
             "image; non-trivial = images "
             "with an operation in flight",
        checker_cmd="tools/vcheck C04 --tier %s" % tier)


def replay(path):
    print(json.dumps(json.load(open(path)), indent=1)[:6000])
    return 0
