"""C07 - leader apply, follower replication and restart replay yield the same state."""
import json
import os
import shutil

import vlib
from vlib import Check, ToolError
from checks import sm_common


def keyfn(b, r):
    return "C07:%s" % r.get("what", "").replace(" ", "_")


def run(tier):
    c = Check("C07", tier)
    quick = tier != "thorough"
    vlib.build_harness()
    sc = vlib.scratch("c07")
    sm_common.mc_legs(c, quick)

    beh = sm_common.gen(c, 300 if quick else 4000, c.seed + 3, "c07_sim")
    beh.sort(key=lambda b: -sum(1 for s in b["steps"] if s["op"] in ("apply", "apply_batch")))
    beh = beh[: (110 if quick else 2500)]
    beh += sm_common.gen_mcp_thin(c, 40 if quick else 1000, c.seed + 5)
    bf = vlib.write_ndjson(os.path.join(sc, "beh.ndjson"), beh)
    res = vlib.harness(["replay", "sm", bf, "--mode", "c07", "--jobs", 8], timeout=6000)
    summ = [r for r in res if r.get("kind") == "summary"][0]
    if summ.get("tool_errors", 0) > len(beh) // 10:
        raise ToolError("too many mini-node tool errors: %s" % summ)
    vlib.replay_results(c, beh, res, keyfn, "three apply paths on mini nodes",
                        nontrivial=lambda b: any(s["op"] == "apply_batch" for s in b["steps"]))
    c.sample({"behaviour_ops": [s["op"] for s in beh[0]["steps"]]})
    sm_common.transfer_leg(c, sc, [b for b in beh if b.get("alphabet") != "mcp_thin"][: (40 if quick else 600)], "transfer_c07",
                           lambda b, r: "C07:import:%s" % r.get("what", "").replace(" ", "_"))

    # long native sequences: leader path recorded and validated by TLC; the same sequence through one big
    # follower batch, random batches (1..40 per batch) and start-up replay must give identical dumps
    sm_common.tv_traces(c, sc, 4 if quick else 40, 90 if quick else 300, c07=True)
    c.assumptions += [
        "the three paths are entered through FileStore::apply_entry_to_state_machine, replicate_to_state_machine "
        "and process start-up, exactly as async-raft does",
        "request kinds driven: config set (with type / description) / remove, namespace set/delete, user table set/remove, "
        "sequence next/range/set/remove, persistent instance register/update/remove, cache set (plain, nx, xx) / remove, "
        "MCP tool spec update/remove, MCP server add/update/publish/publish-history/remove",
        "a fourth path S (a node that applied a prefix, compacted, restarted from the snapshot and applied the rest) is "
        "compared with the leader path: a restarted node must answer as one that never restarted",
    ]
    shutil.rmtree(sc, ignore_errors=True)
    return c.finish(
        rule="request sequences and batch splits from TLC simulation of StateMachine.tla, each pushed through leader apply, "
             "follower batches (as generated and as one batch) and start-up replay on fresh mini nodes, all dumps compared "
             "with each other and with the spec; plus seeded 90..300-request sequences (batches up to 40) recorded on the "
             "leader path, validated by TLC, and compared across the paths; non-trivial = contains a multi-entry batch",
        checker_cmd="tools/vcheck C07 --tier %s" % tier)


def replay(path):
    print(json.dumps(json.load(open(path)), indent=1))
    return 0
