"""C13 - ephemeral HTTP instances expire without heartbeats, never while heart-beating."""
import json
import os
import re
import shutil
import subprocess
import time

import cluster
import vlib
from vlib import Check, ToolError
from checks import registry_common as rc

NEVER = 999999999


ENV13 = {"RNACOS_NAMING_HEALTH_TIMEOUT_SECOND": "4", "RNACOS_NAMING_INSTANCE_TIMEOUT_SECOND": "9"}
SVC13 = "svc13"


def _sample(cl, t0, samples, skip=()):
    for n, nd in cl.nodes.items():
        if n in skip:
            continue
        d = nd.call({"op": "ns_dump"})
        st = {}
        for i in d.get("instances", []):
            if i["service"] == SVC13:
                st[i["ip"]] = (i["healthy"], i["from_cluster"], i["lm"])
        samples.append((int((time.time() - t0) * 1000), n, st, str(d.get("range"))))


def _first(samples, n, pred, after=0):
    return next((t for t, m, st, _r in samples if m == n and t >= after and pred(st)), NEVER)


def _observe(samples, t0, name, ip, owner, nodes, regs, kind, not_before=0):
    """one observation per state change (unhealthy / gone) of one instance: when the responsible node reported it, when
    the others did, and the clock the time-out runs on"""
    obs = []
    seen = _first(samples, owner, lambda st: ip in st) if owner else NEVER
    for state, pred, cfg_ms in (("unhealthy", lambda st: ip not in st or not st[ip][0], 4000), ("gone", lambda st: ip not in st, 9000)):
        t_owner = _first(samples, owner, pred, max(seen, not_before)) if owner and seen != NEVER else NEVER
        # the clock the time-out runs on: the instance's last modification on the responsible node, as that node
        # reports it (a registration, a heartbeat, or the refresh that comes with a snapshot pull), in ms since t0 -
        # and not before the node became responsible
        lms = [st[ip][2] - int(t0 * 1000) for t, m, st, _r in samples if (m == owner or not owner) and ip in st and t <= t_owner]
        base = max(lms[-1] if lms else 0, not_before - cfg_ms)
        others = []
        for n in nodes:
            if n != owner and t_owner != NEVER:
                s0 = _first(samples, n, lambda st: ip in st)
                others.append({"n": n, "t": _first(samples, n, pred, max(s0 if s0 != NEVER else 0, not_before))})
        obs.append({"kind": kind, "instance": name, "ip": ip, "state": state, "owner": owner or 0, "t_owner": t_owner, "others": others,
                    "base": base, "cfg": cfg_ms, "end": samples[-1][0], "registered_at_ms": int(regs[name] * 1000)})
    return obs


def expiry_run(sc, out):
    """'... and then everywhere': HTTP instances of one service on a real three-node cluster stop beating (health
    time-out 4 s, instance time-out 9 s); every node is sampled every 0.4 s; each state change seen on the responsible
    node must appear on the others within the budget.  Every node pulls the other nodes' instances 1 s, 15 s and 45 s
    after its start (a pull also refreshes the pulled copies): W is registered before the 15 s pull and expires after it
    (its supervision must survive the pull); X, Y, Z are registered after it, Y exactly (instance time-out - health
    time-out) = 5 s after X, so that X's removal and Y's unhealthy mark fall into the same 2 s check tick, and nothing
    but the expiry sync itself can carry Y's mark to the other nodes before Y is removed."""
    try:
        cl = cluster.Cluster(os.path.join(sc, "cl"), 3, extra_env=ENV13)
        insts = {"W": "10.3.0.4", "X": "10.3.0.1", "Y": "10.3.0.2", "Z": "10.3.0.3"}
        samples = []
        try:
            cl.start()
            t0 = time.time()
            regs = {}
            plan = [("W", 9.0, 2), ("X", 17.0, 1), ("Y", 22.0, 2), ("Z", 24.0, 3)]
            end = t0 + 41.5
            beat_ip, beat_at, last_beat, nbeats = "10.3.0.7", 17.5, 0.0, 0
            while time.time() < end:
                now = time.time() - t0
                # B keeps beating (real PUT /instance/beat, through a different node every time) until the sampling ends
                if "B" not in regs and now >= beat_at:
                    r = cl.nodes[3].call({"op": "ns_http_register", "service": SVC13, "ip": beat_ip, "port": 80})
                    if r.get("res") != "ok":
                        raise ToolError("HTTP register failed: %s" % r)
                    regs["B"] = now
                    last_beat = now
                elif "B" in regs and now - last_beat >= 1.2:
                    r = cl.nodes[1 + nbeats % 3].call({"op": "ns_http_beat", "service": SVC13, "ip": beat_ip, "port": 80})
                    if r.get("res") != "ok":
                        raise ToolError("HTTP heart-beat failed: %s" % r)
                    nbeats += 1
                    last_beat = now
                for name, at, via in plan:
                    if name not in regs and now >= at:
                        r = cl.nodes[via].call({"op": "ns_http_register", "service": SVC13, "ip": insts[name], "port": 80})
                        if r.get("res") != "ok":
                            raise ToolError("HTTP-style register failed: %s" % r)
                        regs[name] = now
                _sample(cl, t0, samples)
                time.sleep(0.35)
        finally:
            cl.shutdown()
        obs = []
        for name, ip in insts.items():
            # the responsible node holds the instance as its own (from_cluster = 0)
            owner = next((n for t, n, st, _r in samples if ip in st and st[ip][1] == 0), None)
            if owner is None:
                raise ToolError("no node holds %s as its own instance" % name)
            obs += _observe(samples, t0, name, ip, owner, list(cl.nodes), regs, "expiry")
        # the beating instance: first seen / first reported unhealthy-or-missing after that, per node
        reg_ms = int(regs["B"] * 1000)
        nodes = []
        for n in cl.nodes:
            seen = _first(samples, n, lambda st: beat_ip in st)
            bad = _first(samples, n, lambda st: beat_ip not in st or not st[beat_ip][0], seen) if seen != NEVER else NEVER
            nodes.append({"n": n, "t_seen": seen, "t_bad": bad})
        obs.append({"kind": "beating", "instance": "B", "ip": beat_ip, "state": "beating", "nodes": nodes, "registered_at_ms": reg_ms,
                    "beats": nbeats, "end": samples[-1][0]})
        if nbeats < 12:
            raise ToolError("the beating instance sent only %d heart-beats" % nbeats)
        out["expiry"] = (obs, len(samples))
    except Exception as e:      # noqa - reported by the caller
        out["expiry_error"] = e


def takeover_run(sc, out):
    """'taken over from a failed node': an HTTP instance is registered after the nodes' 15 s snapshot pull, one second
    later the node responsible for it is killed.  The survivors notice after 15 s of silence and recompute their ranges;
    the node that is responsible now must report the silent instance unhealthy and remove it (both time-outs have run
    out by then), and the other survivor must follow - before the survivors' 45 s pull could re-register anything."""
    try:
        cl = cluster.Cluster(os.path.join(sc, "cl_takeover"), 3, extra_env=ENV13)
        ip = "10.3.0.9"
        samples = []
        killed = None
        try:
            cl.start()
            t0 = time.time()
            regs = {}
            end = t0 + 42.5
            while time.time() < end:
                now = time.time() - t0
                if "V" not in regs and now >= 17.0:
                    r = cl.nodes[1].call({"op": "ns_http_register", "service": SVC13, "ip": ip, "port": 80})
                    if r.get("res") != "ok":
                        raise ToolError("HTTP-style register failed: %s" % r)
                    regs["V"] = now
                if killed is None and now >= 18.2:
                    killed = next((n for t, n, st, _r in samples if ip in st and st[ip][1] == 0), None)
                    if killed is None:
                        raise ToolError("no node holds V as its own instance")
                    cl.nodes[killed].kill()
                _sample(cl, t0, samples, skip=(killed,) if killed else ())
                time.sleep(0.35)
        finally:
            cl.shutdown()
        survivors = [n for n in cl.nodes if n != killed]
        # the survivors' ranges shrink to len 2 when they declare the silent node dead
        t_range = min(next((t for t, n, st, r in samples if n == m and "len: 2" in r), NEVER) for m in survivors)
        if t_range == NEVER:
            raise ToolError("the survivors never declared the killed node dead within the sampling time")
        new_owner = next((n for t, n, st, _r in samples if n in survivors and t >= t_range and ip in st and st[ip][1] == 0), None)
        obs = _observe(samples, t0, "V", ip, new_owner, survivors, regs, "takeover", not_before=t_range)
        for o in obs:
            o["t_range"] = t_range
            o["killed"] = killed
        out["takeover"] = (obs, len(samples))
    except Exception as e:      # noqa
        out["takeover_error"] = e


def cluster_leg(c, sc):
    import threading
    out = {}
    ths = [threading.Thread(target=expiry_run, args=(sc, out)), threading.Thread(target=takeover_run, args=(sc, out))]
    for t in ths:
        t.start()
    for t in ths:
        t.join()
    for k in ("expiry_error", "takeover_error"):
        if k in out:
            raise out[k] if isinstance(out[k], ToolError) else ToolError("%s: %r" % (k, out[k]))
    obs = out["expiry"][0] + out["takeover"][0]
    nsamples = out["expiry"][1] + out["takeover"][1]
    of = vlib.write_ndjson(os.path.join(sc, "expiry_obs.ndjson"), obs)
    e = dict(os.environ, JAVA_TOOL_OPTIONS="-Xss1g", OBS=of)
    meta = os.path.join(vlib.TLCDIR, "c13_chk")
    r = subprocess.run(["timeout", "300", "tlc", "-workers", "1", "-metadir", meta, "-cleanup", "-noGenerateSpecTE", "-config",
                        "CHK_ExpiryCluster.cfg", "ExpiryCluster.tla"], cwd=vlib.SPEC, stdout=subprocess.PIPE, stderr=subprocess.STDOUT, text=True, env=e)
    if "Model checking completed. No error has been found" not in r.stdout:
        import sys
        sys.stderr.write(r.stdout[-2000:])
        raise ToolError("TLC failed evaluating ExpiryCluster")
    c.add_mc({"generated": 2, "distinct": 2, "depth": 2, "wall_s": 0, "actions": {}, "cfg": "CHK_ExpiryCluster.cfg", "module": "ExpiryCluster.tla"})
    for req, i in [(m.group(1), int(m.group(2))) for m in re.finditer(r'<<"REQ-FAILED", "(\w+)", (\d+)>>', r.stdout)]:
        o = obs[i - 1]
        if o["kind"] == "beating":
            c.violation("C13:NeverWhileBeating@cluster",
                        "real 3-node cluster: instance B (registered over HTTP at %d ms, %d heart-beats through PUT /instance/beat, one every 1.2 s, "
                        "health time-out 4 s) was not held healthy by every node until the sampling ended at %d ms: per node first seen / first "
                        "reported unhealthy or missing = %s (%d = never)" % (o["registered_at_ms"], o["beats"], o["end"],
                                                                               [(x["n"], x["t_seen"], x["t_bad"]) for x in o["nodes"]], NEVER),
                        {"observation": o})
            continue
        c.violation("C13:%s@cluster:%s:%s" % (req, o["kind"], o["state"]),
                    "real 3-node cluster (%s): instance %s (time-out clock started at %d ms, no heartbeats) became %s on its responsible node %d at %d ms "
                    "(configured time-out %d ms, sampling ended at %d ms), the other nodes reported it at %s "
                    "(budget 3500 ms; %d = never within the sampling; responsible node 0 = nobody took the instance over)"
                    % (o["kind"], o["instance"], o["base"], o["state"], o["owner"], o["t_owner"],
                       o["cfg"], o["end"], [(x["n"], x["t"]) for x in o["others"]], NEVER),
                    {"observation": o})
    c.count(len(obs), [{"i": o["instance"], "s": o["state"]} for o in obs])
    c.cov["cluster_heart_beats_sent"] = sum(o.get("beats", 0) for o in obs)
    c.traces(2)
    c.cov["cluster_state_changes_observed"] = len(obs)
    c.cov["cluster_samples"] = nsamples


def many_leg(c, sc):
    """'many instances per service': 4 x 3 500 silent HTTP instances (three services already hold more than the actor expires in one sweep) + beating,
    connection-owned and persistent ones on the real NamingActor in real time; requirements: ExpiryMany.tla (TLC)"""
    obs = [r for r in vlib.harness(["record", "registry-many", "--per", 3500], timeout=300) if r.get("kind") == "many"]
    if len(obs) != 8:
        raise ToolError("many-instances leg: %d observations instead of 8" % len(obs))
    if any(o["registering_took_ms"] >= o["health_timeout_ms"] for o in obs):
        raise ToolError("many-instances leg: registering took longer than the health time-out (%s ms): nothing can be said" % obs[0]["registering_took_ms"])
    of = vlib.write_ndjson(os.path.join(sc, "many_obs.ndjson"), obs)
    e = dict(os.environ, JAVA_TOOL_OPTIONS="-Xss1g", OBS=of)
    r = subprocess.run(["timeout", "300", "tlc", "-workers", "1", "-metadir", os.path.join(vlib.TLCDIR, "c13_many"), "-cleanup", "-noGenerateSpecTE",
                        "-config", "CHK_ExpiryMany.cfg", "ExpiryMany.tla"], cwd=vlib.SPEC, stdout=subprocess.PIPE, stderr=subprocess.STDOUT, text=True, env=e)
    if "Model checking completed. No error has been found" not in r.stdout:
        import sys
        sys.stderr.write(r.stdout[-2000:])
        raise ToolError("TLC failed evaluating ExpiryMany")
    c.add_mc({"generated": 2, "distinct": 2, "depth": 2, "wall_s": 0, "actions": {}, "cfg": "CHK_ExpiryMany.cfg", "module": "ExpiryMany.tla"})
    for req, i in [(m.group(1), int(m.group(2))) for m in re.finditer(r'<<"REQ-FAILED", "(\w+)", (\d+)>>', r.stdout)]:
        o = obs[i - 1]
        c.violation("C13:%s@many_instances:%s" % (req, o["phase"]),
                    "real NamingActor with 4 services x %d silent HTTP instances (+ 5 beating, 1 connection-owned, 1 persistent each; health time-out "
                    "%d ms, instance time-out %d ms): %s after %d sweeps at %d ms, service %s counts %s" %
                    (o["registered"], o["health_timeout_ms"], o["instance_timeout_ms"], o["phase"], o["sweeps"], o["at_ms"], o["service"], json.dumps(o["n"])),
                    {"observation": o, "all": obs})
    c.count(len(obs), [{"many": o["service"], "phase": o["phase"]} for o in obs])
    c.traces(1)
    c.cov["many_instances_leg"] = {"instances": sum(o["registered"] for o in obs) // 2, "observations": len(obs)}


def run(tier):
    c = Check("C13", tier)
    quick = tier != "thorough"
    vlib.build_harness()
    sc = vlib.scratch("c13")
    rc.mc_legs(c, quick)
    has_expiry = lambda b: any(s["op"] == "time_check" and (any(s["removed"].values()) or any(s["marked"].values())) for s in b["steps"])
    # virtual clock on Service (exact, no sleeps): many behaviours
    beh = rc.gen(c, "SIM_Registry_c13.cfg", 150 if quick else 2000, c.seed + 2, "c13_sim", 1500 if quick else 20000)
    beh.sort(key=lambda b: -sum(1 for s in b["steps"] if s["op"] == "time_check" and (any(s["removed"].values()) or any(s["marked"].values()))))
    rc.replay(c, beh, sc, "service", "Service (virtual clock)", has_expiry, H=1, T=3)
    # real clock on NamingActor: fewer behaviours (each tick is 300 ms)
    rt = [b for b in beh if has_expiry(b)][: (80 if quick else 800)]
    rc.replay(c, rt, sc, "actor", "NamingActor (real clock)", has_expiry, H=1, T=3, name="rt")
    cluster_leg(c, sc)
    many_leg(c, sc)
    c.cov["behaviours_with_expiry"] = sum(1 for b in beh if has_expiry(b))
    c.sample({"behaviour_ops": [(s["op"], s.get("a"), s.get("now")) for s in beh[0]["steps"]]})
    c.assumptions += [
        "virtual clock: Service::time_check takes the two thresholds as arguments and instances carry their "
        "last-modified time, so H and T are exact; real clock: one tick = 300 ms, thresholds half a tick early",
        "'then everywhere': one real three-node cluster run (time-outs 4 s / 9 s, four instances of one service, one "
        "registered before and three after the nodes' 15 s snapshot pull, two of them exactly 5 s apart, no beats), every node sampled every ~0.4 s; a state change on the responsible node must show "
        "on the others within 3.5 s (requirement evaluated by TLC, ExpiryCluster.tla); a second cluster run kills the node "
        "responsible for a freshly registered instance: the survivor that is responsible afterwards must expire it",
    ]
    shutil.rmtree(sc, ignore_errors=True)
    return c.finish(
        rule="behaviours = kind-first TLC simulation of Registry.tla biased to beats, silences and sweeps (H = 1, T = 3 "
             "ticks), sorted so that behaviours whose sweeps really expire something come first; replayed on a real Service "
             "with a virtual clock and (a subset) on a real NamingActor with the real clock; after every step instances, "
             "health flags and counters are compared with the spec; non-trivial = a sweep marks or removes an instance",
        checker_cmd="tools/vcheck C13 --tier %s" % tier)


def replay(path):
    print(json.dumps(json.load(open(path)), indent=1))
    return 0
