"""C13 - ephemeral HTTP instances expire without heartbeats, never while heart-beating."""
import json
import shutil

import vlib
from vlib import Check
from checks import registry_common as rc


def run(tier):
    c = Check("C13", tier)
    quick = tier != "thorough"
    vlib.build_harness()
    sc = vlib.scratch("c13")
    rc.mc_legs(c, quick)
    has_expiry = lambda b: any(s["op"] == "time_check" and (any(s["removed"].values()) or any(s["marked"].values())) for s in b["steps"])
    # virtual clock on Service (exact, no sleeps): many behaviours
    beh = rc.gen(c, "SIM_Registry_c13.cfg", 150 if quick else 2000, c.seed + 2, "c13_sim", 1500 if quick else 20000)
    beh.sort(key=lambda b: -sum(1 for s in b["steps"] if s["op"] == "time_check" and (any(s["removed"].values()) or any(s["marked"].values()))))
    rc.replay(c, beh, sc, "service", "Service (virtual clock)", has_expiry, H=1, T=3)
    # real clock on NamingActor: fewer behaviours (each tick is 300 ms)
    rt = [b for b in beh if has_expiry(b)][: (80 if quick else 800)]
    rc.replay(c, rt, sc, "actor", "NamingActor (real clock)", has_expiry, H=1, T=3, name="rt")
    c.cov["behaviours_with_expiry"] = sum(1 for b in beh if has_expiry(b))
    c.sample({"behaviour_ops": [(s["op"], s.get("a"), s.get("now")) for s in beh[0]["steps"]]})
    c.assumptions += [
        "virtual clock: Service::time_check takes the two thresholds as arguments and instances carry their "
        "last-modified time, so H and T are exact; real clock: one tick = 300 ms, thresholds half a tick early",
        "'then everywhere' (propagation of the removal to other nodes) belongs to C15",
    ]
    shutil.rmtree(sc, ignore_errors=True)
    return c.finish(
        rule="behaviours = kind-first TLC simulation of Registry.tla biased to beats, silences and sweeps (H = 1, T = 3 "
             "ticks), sorted so that behaviours whose sweeps really expire something come first; replayed on a real Service "
             "with a virtual clock and (a subset) on a real NamingActor with the real clock; after every step instances, "
             "health flags and counters are compared with the spec; non-trivial = a sweep marks or removes an instance",
        checker_cmd="tools/vcheck C13 --tier %s" % tier)


def replay(path):
    print(json.dumps(json.load(open(path)), indent=1))
    return 0
