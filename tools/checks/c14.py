"""C14 - distro ownership: each service has exactly one owner and routing agrees."""
import json
import os
import shutil

import vlib
from vlib import Check, ToolError


def keyfn(b, r):
    exp = r.get("expected", {}) if isinstance(r.get("expected"), dict) else {}
    n = b["n"]
    alive = b["alive"]
    dead = [x for x in range(1, n + 1) if x not in alive]
    low_dead = any(d < max(alive) for d in dead)
    return "C14:%s@%s" % (r.get("what", "").replace(" ", "_"),
                          "lower_id_down" if low_dead else ("higher_id_down" if dead else "all_alive"))


def run(tier):
    c = Check("C14", tier)
    vlib.build_harness()
    sc = vlib.scratch("c14")
    mc = vlib.tlc_mc("Ownership.tla", "MC_Ownership.cfg", workers=4, name="c14_mc", collect_replay=True)
    c.add_mc(mc)
    for cfg, what in (("MC_Ownership_defect_index.cfg", "slot = position among ALL nodes (code before the fix)"),
                      ("MC_Ownership_defect_stale.cfg", "registry actor keeps the range of the previous view (code before the fix)")):
        n = vlib.tlc_mc("Ownership.tla", cfg, workers=4, expect_violation="ExactlyOneOwner", name="c14_neg")
        c.add_negative_control("Ownership with %s violates ExactlyOneOwner" % what, n["violated"])
    views = mc["replay"]
    if len(views) != 57:
        raise ToolError("expected 57 views (sizes 1..5 x non-empty alive subsets), got %d" % len(views))
    vf = vlib.write_ndjson(os.path.join(sc, "views.ndjson"), views)
    res = vlib.harness(["replay", "ownership", vf], timeout=1800)
    summ = [r for r in res if r.get("kind") == "summary"][0]
    if summ.get("tool_errors", 0) > 0:
        raise ToolError("mini-node tool errors: %s" % summ)
    vlib.replay_results(c, views, res, keyfn, "ownership in a real node per local id",
                        nontrivial=lambda v: len(v["alive"]) < v["n"])
    c.cov["views"] = len(views)
    c.cov["view_local_pairs"] = sum(len(v["alive"]) for v in views)
    c.cov["keys_per_view"] = summ.get("keys")
    c.sample({"view": {"n": views[-1]["n"], "alive": views[-1]["alive"], "ranges": views[-1]["ranges"]}})
    c.assumptions += [
        "a view is installed by UpdateNodes + ActiveNode and the silent nodes are expired through the genuine "
        "check_node_status (hook sets their last_active_time to 0 instead of waiting 15 s)",
        "ownership is what the REGISTRY ACTOR decides with (NamingActor.current_range), routing is NodeManage::route_addr; "
        "60 service keys, one per residue of lcm(1..5)",
        "node ids 1..n; every live node of a view is a separate OS process with that local id",
    ]
    shutil.rmtree(sc, ignore_errors=True)
    return c.finish(
        rule="complete enumeration by TLC of the 57 views (cluster size 1..5 x non-empty alive subset) with all 60 hash "
             "residues; every view is installed in a real node for every live local id (129 pairs) and, for 60 service "
             "keys covering every residue, the set of live nodes whose registry actor claims the key must be a singleton "
             "and every live node must route to it; non-trivial = at least one node down",
        exhaustive=True,
        checker_cmd="tools/vcheck C14 --tier %s" % tier)


def replay(path):
    print(json.dumps(json.load(open(path)), indent=1))
    return 0
