"""C14 - distro ownership: each service has exactly one owner and routing agrees."""
import json
import os
import shutil

import time

import cluster
import vlib
from vlib import Check, ToolError


def keyfn(b, r):
    exp = r.get("expected", {}) if isinstance(r.get("expected"), dict) else {}
    n = b["n"]
    alive = b["alive"]
    dead = [x for x in range(1, n + 1) if x not in alive]
    low_dead = any(d < max(alive) for d in dead)
    return "C14:%s@%s" % (r.get("what", "").replace(" ", "_"),
                          "lower_id_down" if low_dead else ("higher_id_down" if dead else "all_alive"))


def _range(v):
    """'Some(ProcessRange { index: 0, len: 2 })' | {'index':..,'len':..} | None -> (index, len) or None"""
    if isinstance(v, dict):
        return (v.get("index"), v.get("len"))
    if isinstance(v, str) and "index:" in v:
        import re
        m = re.search(r"index: (\d+), len: (\d+)", v)
        if m:
            return (int(m.group(1)), int(m.group(2)))
    return None


def _owns(r, h):
    return r is not None and (r[1] < 2 or h % r[1] == r[0])


def cluster_leg(c, sc, views):
    """The same requirement on a REAL cluster, before and after traffic: three node processes, the node with the smallest
    id is killed and expires on the others by the genuine 15 s liveness rule; HTTP registrations for services of both
    residues are then sent to both survivors (so each forwards some of them to the other over gRPC) and the survivors' view is
    judged again - forwarding a write must not change who is considered alive."""
    cl = cluster.Cluster(sc + "/own_cluster", 3)
    keys = ["ownsvc%d" % i for i in range(12)]
    obs = []
    hashes = {}
    beats = []

    def snapshot(label, alive):
        ans = {}
        for n in alive:
            r = cl.nodes[n].call({"op": "owner_query", "keys": keys}, timeout=8)
            if r.get("res") != "ok":
                raise ToolError("owner_query failed on node %d: %s" % (n, r))
            ans[n] = r
        port_of = {cl.nodes[n].port: n for n in cl.nodes}
        view = [v for v in views if v["n"] == 3 and sorted(v["alive"]) == sorted(alive)][0]
        bad = None
        for ki, k in enumerate(keys):
            h = int(ans[alive[0]]["routes"][ki]["hash"])
            hashes[k] = h
            owners = [n for n in alive if _owns(_range(ans[n]["actor_range"]), h)]
            routed = {}
            for n in alive:
                rt = ans[n]["routes"][ki]["route"]
                routed[n] = n if rt == "local" else port_of.get(int(rt.rsplit(":", 1)[1]), 0)
            exp = view["owner"][str(h % 60)] if isinstance(view["owner"], dict) else view["owner"][h % 60]
            if len(owners) != 1:
                bad = ("service key is not owned by exactly one live node", {"key": k, "alive": alive, "owners": "exactly one"},
                       {"owners": owners, "actor_ranges": {n: ans[n]["actor_range"] for n in alive}})
            elif any(routed[n] != owners[0] for n in alive):
                bad = ("a live node routes a write to a node that is not the owner", {"key": k, "owner": owners[0]}, {"routed": routed})
            elif exp != owners[0]:
                bad = ("owner differs from the specification", {"key": k, "owner": exp}, {"owner": owners[0]})
            if bad:
                break
        obs.append({"at": label, "alive": alive, "ranges": {n: ans[n]["actor_range"] for n in alive}, "ok": bad is None})
        return bad

    def settled(alive):
        try:
            return snapshot("poll", alive) is None
        except (ToolError, KeyError, ValueError, IndexError):
            return False
    try:
        cl.start()
        cl.wait(lambda: settled([1, 2, 3]), 60, "three nodes agree on the ownership of the all-alive view")
        obs.clear()
        bad = snapshot("all alive", [1, 2, 3])
        if not bad:
            # move the leadership away from node 1 first (see C06 known finding bootstrap_leader), then kill node 1
            cl.nodes[1].kill()
            cl.wait(lambda: settled([2, 3]), 90, "the survivors consider node 1 dead (15 s liveness) and agree on ownership")
            obs.clear()
            bad = snapshot("node 1 dead, before traffic", [2, 3])
        sent = 0
        if not bad:
            for rnd in range(3):
                for ki, k in enumerate(keys):
                    via = 2 + (ki + rnd) % 2
                    r = cl.nodes[via].call({"op": "ns_http_register", "service": k, "ip": "10.4.0.%d" % (ki + 1), "port": 7000 + rnd, "weight": 1.0}, timeout=10)
                    sent += 1 if r.get("res") == "ok" else 0
                # "an HTTP write is routed to precisely the node that considers itself its owner": a heart-beat sent to the node
                # that is NOT responsible for the service must arrive at the responsible one - its copy's last-modified time moves
                time.sleep(0.6)
                bad = snapshot("node 1 dead, after traffic round %d" % rnd, [2, 3])
                if not bad:
                    rngs = obs[-1]["ranges"]

                    def lm_of(n, k, ip, port):
                        d = cl.nodes[n].call({"op": "ns_dump"}, timeout=8)
                        return next((i["lm"] for i in d.get("instances", []) if i["service"] == k and i["ip"] == ip and i["port"] == port), None)
                    for ki, k in enumerate(keys):
                        ip, port = "10.4.0.%d" % (ki + 1), 7000 + rnd
                        owner = [n for n in (2, 3) if _owns(_range(rngs[n]), hashes[k])]
                        if len(owner) != 1:
                            continue
                        other = 5 - owner[0]
                        before = lm_of(owner[0], k, ip, port)
                        time.sleep(0.02)
                        r = cl.nodes[other].call({"op": "ns_http_beat", "service": k, "ip": ip, "port": port}, timeout=10)
                        after = lm_of(owner[0], k, ip, port)
                        beats.append({"key": k, "via": other, "owner": owner[0], "res": r.get("res"), "lm_before": before, "lm_after": after})
                        if r.get("res") == "ok" and before is not None and (after is None or after <= before):
                            bad = ("a heart-beat sent to a node that is not responsible for the service did not reach the responsible node",
                                   {"key": k, "ip": ip, "sent_to": other, "owner": owner[0], "owner_last_modified": "later than %s" % before}, {"owner_last_modified": after})
                            break
                if bad:
                    break
        c.cov["cluster_leg"] = {"observations": obs, "http_registrations_acknowledged": sent, "beats_through_the_non_owner": len(beats),
                                "beat_sample": beats[:3]}
        c.traces(len(obs))
        c.count(len(obs), [{"cluster_observation": o["at"]} for o in obs])
        if sent < 12 and not bad:
            raise ToolError("cluster leg: only %d HTTP registrations were acknowledged" % sent)
        if bad:
            what, exp, act = bad
            c.violation("C14:cluster:%s@%s" % (what.replace(" ", "_"), obs[-1]["at"].split(",")[-1].strip().replace(" ", "_").rstrip("0123456789").rstrip("_")),
                        "real 3-node cluster, %s: %s (expected %s, got %s)" % (obs[-1]["at"], what, json.dumps(exp), json.dumps(act)),
                        {"observations": obs, "mismatch": {"what": what, "expected": exp, "actual": act}})
    finally:
        cl.shutdown()


def run(tier):
    c = Check("C14", tier)
    vlib.build_harness()
    sc = vlib.scratch("c14")
    mc = vlib.tlc_mc("Ownership.tla", "MC_Ownership.cfg", workers=4, name="c14_mc", collect_replay=True)
    c.add_mc(mc)
    for cfg, what in (("MC_Ownership_defect_index.cfg", "slot = position among ALL nodes (code before the fix)"),
                      ("MC_Ownership_defect_stale.cfg", "registry actor keeps the range of the previous view (code before the fix)")):
        n = vlib.tlc_mc("Ownership.tla", cfg, workers=4, expect_violation="ExactlyOneOwner", name="c14_neg")
        c.add_negative_control("Ownership with %s violates ExactlyOneOwner" % what, n["violated"])
    views = mc["replay"]
    if len(views) != 57:
        raise ToolError("expected 57 views (sizes 1..5 x non-empty alive subsets), got %d" % len(views))
    vf = vlib.write_ndjson(os.path.join(sc, "views.ndjson"), views)
    res = vlib.harness(["replay", "ownership", vf], timeout=1800)
    summ = [r for r in res if r.get("kind") == "summary"][0]
    if summ.get("tool_errors", 0) > 0:
        raise ToolError("mini-node tool errors: %s" % summ)
    vlib.replay_results(c, views, res, keyfn, "ownership in a real node per local id",
                        nontrivial=lambda v: len(v["alive"]) < v["n"])
    cluster_leg(c, sc, views)
    c.cov["views"] = len(views)
    c.cov["view_local_pairs"] = sum(len(v["alive"]) for v in views)
    c.cov["keys_per_view"] = summ.get("keys")
    c.sample({"view": {"n": views[-1]["n"], "alive": views[-1]["alive"], "ranges": views[-1]["ranges"]}})
    c.assumptions += [
        "a view is installed by UpdateNodes + ActiveNode and the silent nodes are expired through the genuine "
        "check_node_status (hook sets their last_active_time to 0 instead of waiting 15 s)",
        "ownership is what the REGISTRY ACTOR decides with (NamingActor.current_range), routing is NodeManage::route_addr; "
        "60 service keys, one per residue of lcm(1..5)",
        "node ids 1..n; every live node of a view is a separate OS process with that local id",
        "cluster leg: one real 3-node cluster (node 1 killed, expiry by the genuine 15 s rule, no hook), 36 HTTP registrations "
        "sent to both survivors; the views all-alive and {2,3} are judged before and after the traffic",
    ]
    shutil.rmtree(sc, ignore_errors=True)
    return c.finish(
        rule="complete enumeration by TLC of the 57 views (cluster size 1..5 x non-empty alive subset) with all 60 hash "
             "residues; every view is installed in a real node for every live local id (129 pairs) and, for 60 service "
             "keys covering every residue, the set of live nodes whose registry actor claims the key must be a singleton "
             "and every live node must route to it; plus one real 3-node cluster whose lowest node is killed: the survivors' ownership "
             "and routing are judged before and after forwarded HTTP registrations; non-trivial = at least one node down",
        exhaustive=True,
        checker_cmd="tools/vcheck C14 --tier %s" % tier)


def replay(path):
    print(json.dumps(json.load(open(path)), indent=1))
    return 0
