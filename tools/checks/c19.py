"""C19 - issued sequence ids are unique and increasing across restarts and nodes."""
import json
import os
import shutil

import vlib
from vlib import Check, ToolError


def run(tier):
    c = Check("C19", tier)
    quick = tier != "thorough"
    vlib.build_harness()
    sc = vlib.scratch("c19")

    # ---- MC: named sequences (2 nodes, in-order responses) and history ids (leader change, replay)
    a = vlib.tlc_mc("Sequence.tla", "MC_SequenceA.cfg", workers=12, name="c19_a", timeout=1500)
    vlib.require_actions(a, ["GetNextId", "Grant", "Deliver"])
    c.add_mc(a)
    au = vlib.tlc_mc("Sequence.tla", "MC_SequenceA_reorder_unique.cfg", name="c19_au")
    c.add_mc(au)
    b = vlib.tlc_mc("Sequence.tla", "MC_SequenceB.cfg", name="c19_b")
    vlib.require_actions(b, ["Publish", "ApplyB", "LeaderChange", "RestartB"])
    c.add_mc(b)
    n1 = vlib.tlc_mc("Sequence.tla", "MC_SequenceB_bug.cfg", expect_violation="UniqueB", name="c19_neg1")
    c.add_negative_control("Sequence with Bug_SkipMarkOnNoChange re-issues history ids after a leader change", n1["violated"])
    n2 = vlib.tlc_mc("Sequence.tla", "MC_SequenceA_reorder.cfg", expect_violation="MonotoneA", name="c19_neg2")
    c.add_negative_control("Sequence with responses handled out of order hands ids out backwards (MonotoneA)", n2["violated"])
    c.note("model-level observation: if the SequenceManager actor handled two range responses in reverse order, ids of one "
           "node would go backwards (uniqueness still holds: MC_SequenceA_reorder_unique); the real actor did not "
           "exhibit that order in any recorded run")

    def tv(module, cfg, tr, what, key):
        res = vlib.tlc_tv(module, cfg, tr, name="c19_tv", timeout=900)
        c.cov["states"] += res["states"]
        c.cov["transitions"] += res["states"]
        c.traces(1)
        c.count(res["lines"], [{"trace": os.path.basename(tr), "seed": c.seed}])
        if not res["accepted"]:
            ln = res["rejected_line"] or {}
            ctx = [x.get("event") for x in res.get("context", [])]
            after = "restart" if "restart" in ctx else ("compact" if "compact" in ctx else "plain")
            c.violation("%s:%s@%s" % (key, ln.get("event"), after),
                        "%s rejected at line %d: %s" % (what, res["rejected_at"], json.dumps(ln)[:400]),
                        {"trace": os.path.basename(tr), "line": res["rejected_at"], "event": ln, "context": res.get("context", [])})
        return res

    # ---- RECORD + TV 1: the real SeqGroup objects under the actor protocol (in order and reordered deliveries)
    for t in range(3 if quick else 30):
        tr = os.path.join(sc, "sg_%d.ndjson" % t)
        vlib.harness(["record", "seqgroup", tr, "--seed", c.seed * 50 + t, "--ops", 600 if quick else 3000, "--reorder", t % 2])
        tv("Trace_SeqGroup.tla", "Trace_SeqGroup.cfg", tr, "SeqGroup trace (spec transcription re-computes every id)", "C19:seqgroup")
    with open(os.path.join(sc, "sg_0.ndjson")) as f:
        c.sample({"seqgroup_trace_head": [json.loads(next(f)) for _ in range(6)]})

    # ---- RECORD + TV 2: a real single-member Raft node: concurrent GetNextId, publishes, compaction, restarts
    for t in range(6 if quick else 40):
        tr = os.path.join(sc, "sn_%d.ndjson" % t)
        vlib.harness(["record", "seqnode", tr, "--seed", c.seed * 70 + t, "--ops", 45 if quick else 120, "--restarts", 3], timeout=900)
        tv("Trace_SeqIssued.tla", "Trace_SeqIssued.cfg", tr, "id streams of a real node", "C19:node")
    with open(os.path.join(sc, "sn_0.ndjson")) as f:
        lines = [json.loads(x) for x in f]
    c.sample({"node_trace_events": [(x["event"], x.get("k"), (x.get("ids") or [])[:6]) for x in lines[:8]]})

    # ---- binding negative control: duplicate one id in a recorded node trace
    done = False
    for x in lines:
        if x["event"] == "ids" and x["ids"]:
            x["ids"] = x["ids"] + [x["ids"][0]]
            done = True
            break
    if done:
        bad = vlib.write_ndjson(os.path.join(sc, "sn_bad.ndjson"), lines)
        r = vlib.tlc_tv("Trace_SeqIssued.tla", "Trace_SeqIssued.cfg", bad, name="c19_tvneg")
        c.add_negative_control("corrupted node trace (an id returned twice) rejected by Trace_SeqIssued", not r["accepted"])
    # ---- snapshot install into a RUNNING node, then that node hands out ids (leader change after a catch-up by snapshot):
    # behaviours of SnapInstall.tla over a sequence-biased request alphabet replayed on a real leader and a real follower
    # node (the machinery of C08); the follower's next-free values after every step must be the specification's - a
    # follower left below an id the leader already issued would issue it a second time as soon as it leads
    beh = vlib.tlc_sim("SimSnapInstall.tla", "SIM_SnapInstall_seq.cfg", num=300 if quick else 3000, depth=300, seed=c.seed + 19,
                       name="c19_snap", timeout=1200)

    def stale_counter_case(b):
        # the follower has applied a sequence request, the leader issues more of that key, and an install completes later
        have, more = set(), set()
        held = []
        for st in b["steps"]:
            if st["op"] == "lwrite" and st["req"]["t"].startswith("seq_"):
                held.append(st["req"]["k"])
                more |= (have & {st["req"]["k"]})
            elif st["op"] == "replicate":
                have |= set(held)
            elif st["op"] == "chunk" and st.get("done") and more:
                return True
        return False
    def crash_inside_stream(b):
        # a follower restart inside a multi-chunk stream is C08's known finding (resumed_install_after_follower_restart:
        # the snapshot file is damaged, everything in it is lost) - not this property's subject
        open_stream = False
        for st in b["steps"]:
            if st["op"] == "chunk":
                open_stream = not st.get("done")
            elif st["op"] == "fcrash" and open_stream:
                return True
        return False
    beh = [b for b in beh if not crash_inside_stream(b)]
    beh.sort(key=lambda b: 0 if stale_counter_case(b) else 1)
    n_case = sum(1 for b in beh if stale_counter_case(b))
    beh = beh[: (120 if quick else 1500)]
    if n_case < 20:
        raise ToolError("too few behaviours in which a follower holding a counter is caught up by snapshot: %d" % n_case)
    bf = vlib.write_ndjson(os.path.join(sc, "snap_seq.ndjson"), beh)
    res = vlib.harness(["replay", "snapinstall", bf, "--jobs", 8], timeout=6000)
    summ = [r for r in res if r.get("kind") == "summary"][0]
    if summ.get("tool_errors", 0) > len(beh) // 10:
        raise ToolError("too many mini-node tool errors: %s" % summ)
    other = 0
    for r in res:
        if r.get("kind") != "result" or r["ok"]:
            continue
        txt = json.dumps(r.get("actual")) + json.dumps(r.get("expected"))
        if json.dumps(r.get("actual")).lstrip('"').startswith("seq:"):
            c.violation("C19:install:follower_counter_differs_after_snapshot_install",
                        "snapshot install on two real nodes: the follower's next-free sequence values differ from the leader's "
                        "prefix state (%s) at step %s - a follower below an issued id hands it out again once it leads" % (json.dumps(r.get("actual"))[:300], r.get("step")),
                        {"behaviour": beh[r["i"]], "mismatch": r})
        else:
            other += 1      # judged by C08
        del txt
    c.count(len(beh), [{"snap_seq": i} for i, b in enumerate(beh) if stale_counter_case(b)])
    c.traces(len(beh))
    c.cov["install_behaviours"] = len(beh)
    c.cov["install_behaviours_follower_holds_counter_then_caught_up_by_snapshot"] = sum(1 for b in beh if stale_counter_case(b))
    c.cov["install_mismatches_judged_by_C08"] = other
    c.assumptions += [
        "single-member Raft group: 'several nodes drawing from one sequence' is checked at model level (2 nodes) and through "
        "the replicated counter semantics (C07); leader change of the history-id stamp is checked at model level and by "
        "restarts of the real node (replay / snapshot of the mark)",
        "the order in which an actor handles two ready responses cannot be forced from outside (see notes)",
    ]
    shutil.rmtree(sc, ignore_errors=True)
    return c.finish(
        rule="TLC: named-sequence protocol with 2 nodes (UniqueA, MonotoneA, BelowCounter) and history-id stamping with "
             "leader change / replay (UniqueB, MonotoneB); conformance: seeded protocol runs on the real SeqGroup objects "
             "validated action by action (Trace_SeqGroup re-computes every id), and recorded id streams of a real "
             "single-member Raft node (concurrent GetNextId bursts on 2 keys, bursts of publishes crossing the 100-id "
             "batch, compactions, restarts) validated against 'never twice, never backwards'; plus SnapInstall.tla behaviours over a "
             "sequence-biased alphabet replayed on a real leader and follower node (a follower that holds a counter is caught up by "
             "a snapshot installed into the RUNNING state machine; its next-free values must equal the specification's); "
             "distinct = per trace / per install behaviour in which the follower held a counter",
        checker_cmd="tools/vcheck C19 --tier %s" % tier)


def replay(path):
    print(json.dumps(json.load(open(path)), indent=1))
    return 0
