"""C15 - registry converges: after quiescence every node returns the same instances."""
import json
import os
import random
import re
import shutil
import subprocess
import time
from concurrent.futures import ThreadPoolExecutor

import cluster
import vlib
from vlib import Check, ToolError

ADDRS = {"a1": ("10.1.0.1", 80), "a2": ("10.1.0.2", 80), "a3": ("10.1.0.3", 80), "a4": ("10.1.0.4", 80)}
HADDRS = {"h1": ("10.2.0.1", 80), "h2": ("10.2.0.2", 80), "h3": ("10.2.0.3", 80)}
# enabled, weight.  Only values that the registration marks as "given" (InstanceUpdateTag: a weight of 1.0 and
# enabled = true count as "not specified" and leave an existing value alone - by design, so that a value set in
# the console survives a re-registration): every registration here overwrites the attributes
ATTRS = {"w2": (True, 2.0), "w3": (True, 3.0), "w4": (True, 4.0)}
SVC = "svc15"
ENV = {"RNACOS_NAMING_HEALTH_TIMEOUT_SECOND": "3600", "RNACOS_NAMING_INSTANCE_TIMEOUT_SECOND": "7200"}
SETTLE_S = 29.0     # two anti-entropy intervals (12 s, checked every 3 s) + batch delay
DEAD_S = 21.0       # a dead node is noticed after 15 s without a ping (checked every 3 s)


class Client:
    def __init__(self, name, node):
        self.name, self.node = name, node
        self.p = subprocess.Popen([cluster.BIN, "nsclient", str(node.port)], stdin=subprocess.PIPE, stdout=subprocess.PIPE,
                                  stderr=subprocess.DEVNULL, text=True, bufsize=1)
        ln = self.p.stdout.readline()
        if "connected" not in ln:
            raise ToolError("gRPC client %s could not connect to node %d" % (name, node.id))
        self.server_id = None

    def call(self, op):
        try:
            self.p.stdin.write(json.dumps(op) + "\n")
            self.p.stdin.flush()
            ln = self.p.stdout.readline()
            return json.loads(ln) if ln.strip() else {"res": "no_answer"}
        except (BrokenPipeError, OSError):
            return {"res": "down"}

    def close(self):
        try:
            self.p.kill()
        except OSError:
            pass
        self.p.wait()


class Scenario:
    def __init__(self, base, seed, kind):
        self.rng = random.Random(seed)
        self.seed, self.kind = seed, kind
        self.c = cluster.Cluster(base, 3, extra_env=ENV)
        self.trace = []
        self.clients = {}
        self.closed = set()
        self.ops = []
        self.reg_by = {}      # address -> connection that holds it (driver's view, to respect the model limit)

    def ev(self, **kw):
        self.trace.append(kw)

    def open_clients(self, homes):
        conns = []
        for i, h in enumerate(homes):
            name = "c%d" % (i + 1)
            self.clients[name] = Client(name, self.c.nodes[h])
            conns.append({"c": name, "home": h})
        self.trace.insert(0, {"ev": "setup", "conns": conns})

    def reg(self, c, a, at="w2"):
        ip, port = ADDRS[a]
        en, w = ATTRS[at]
        r = self.clients[c].call({"op": "register", "service": SVC, "ip": ip, "port": port, "enabled": en, "weight": w})
        self.ops.append({"op": "reg", "c": c, "a": a, "at": at, "res": r.get("res")})
        if r.get("res") != "ok":
            raise ToolError("register over an open connection failed: %s" % r)
        self.reg_by[a] = c
        self.ev(ev="reg", c=c, a=a, at=at)
        if self.clients[c].server_id is None:
            d = self.clients[c].node.call({"op": "ns_dump"})
            for i in d.get("instances", []):
                if i["ip"] == ip and i["service"] == SVC:
                    self.clients[c].server_id = i["client"]

    def dereg(self, c, a):
        ip, port = ADDRS[a]
        r = self.clients[c].call({"op": "deregister", "service": SVC, "ip": ip, "port": port})
        self.ops.append({"op": "dereg", "c": c, "a": a, "res": r.get("res")})
        if r.get("res") != "ok":
            raise ToolError("deregister over an open connection failed: %s" % r)
        if self.reg_by.get(a) == c:
            del self.reg_by[a]
        self.ev(ev="dereg", c=c, a=a)

    def wait_views_agree(self, timeout=45.0):
        """HTTP operations are routed by each node's own view of who is alive: they are sent only while every live node counts
        the same number of live nodes (after a restart the views differ for a while - a write handled by a node that still
        believes it is responsible is acknowledged and not announced; which node is responsible under diverging views is not
        this property's subject, C14 judges the views)"""
        t0 = time.time()
        while time.time() - t0 < timeout:
            live = [n for n, nd in self.c.nodes.items() if nd.live()]
            lens = set()
            for n in live:
                d = self.c.nodes[n].call({"op": "ns_dump"})
                m = re.search(r"len: (\d+)", str(d.get("range")))
                lens.add(int(m.group(1)) if m else -1)
            if lens == {len(live)}:
                return True
            time.sleep(1.0)
        return False

    def hreg(self, via, a, dereg=False, weight=1.0):
        """an instance registered / deregistered over HTTP through node `via` (NamingRoute: applied by the owner node)"""
        if not self.wait_views_agree():
            self.ops.append({"op": "skipped_http_op", "a": a, "why": "the live nodes' views did not agree within 45 s"})
            return
        ip, port = HADDRS[a]
        r = self.c.nodes[via].call({"op": "ns_http_deregister" if dereg else "ns_http_register", "service": SVC + "-" + a, "ip": ip, "port": port, "weight": weight})
        self.ops.append({"op": "hdereg" if dereg else "hreg", "via": via, "a": a, "weight": weight, "res": r.get("res")})
        if r.get("res") != "ok":
            raise ToolError("HTTP-style %s through node %d failed: %s" % ("deregister" if dereg else "register", via, r))
        self.ev(ev="hdereg" if dereg else "hreg", a=a, w=int(round(weight)))

    def hbeat(self, via, a):
        """a heart-beat of an HTTP instance sent to node `via` (PUT /instance/beat, the real handler): routed to the node
        responsible for the service; it changes nothing a query shows"""
        ip, port = HADDRS[a]
        r = self.c.nodes[via].call({"op": "ns_http_beat", "service": SVC + "-" + a, "ip": ip, "port": port})
        self.ops.append({"op": "hbeat", "via": via, "a": a, "res": r.get("res")})
        if r.get("res") != "ok":
            raise ToolError("HTTP heart-beat through node %d failed: %s" % (via, r))
        self.ev(ev="hbeat", a=a)

    def hread(self):
        """what every live node returns for the HTTP instances, right now (no settling: heart-beats are not changes)"""
        for n, (_view, hview) in self.views().items():
            self.ev(ev="hread", n=n, hview=hview)

    def hupd(self, via, a, at):
        """an HTTP update (weight / enabled) of an address a gRPC connection holds, sent to node `via`: it is applied by the
        node responsible for the service and must reach every node"""
        if not self.wait_views_agree():
            self.ops.append({"op": "skipped_http_op", "a": a, "why": "the live nodes' views did not agree within 45 s"})
            return
        ip, port = ADDRS[a]
        en, w = ATTRS[at]
        r = self.c.nodes[via].call({"op": "ns_http_register", "service": SVC, "ip": ip, "port": port, "weight": w, "enabled": en})
        self.ops.append({"op": "hupd", "via": via, "a": a, "at": at, "res": r.get("res")})
        if r.get("res") != "ok":
            raise ToolError("HTTP update through node %d failed: %s" % (via, r))
        self.ev(ev="hupd", a=a, at=at)

    def close(self, c):
        self.clients[c].close()
        self.closed.add(c)
        self.reg_by = {a: x for a, x in self.reg_by.items() if x != c}
        self.ops.append({"op": "close", "c": c})
        self.ev(ev="close", c=c)
        time.sleep(0.4)

    def die(self, n):
        for name, cl in self.clients.items():
            if cl.node.id == n and name not in self.closed:
                cl.close()
                self.closed.add(name)
        self.reg_by = {a: x for a, x in self.reg_by.items() if self.clients[x].node.id != n}
        self.c.nodes[n].kill()
        self.ops.append({"op": "die", "n": n})
        self.ev(ev="die", n=n)

    def start(self, n):
        self.c.nodes[n].start()
        self.ops.append({"op": "start", "n": n})
        self.ev(ev="start", n=n)

    def views(self):
        ids = {cl.server_id: name for name, cl in self.clients.items() if cl.server_id}
        names = {"%s:%d" % v: k for k, v in ADDRS.items()}
        out = {}
        for n, nd in self.c.nodes.items():
            if not nd.live():
                continue
            d = nd.call({"op": "ns_dump"})
            if d.get("res") != "ok":
                raise ToolError("ns_dump failed on node %d: %s" % (n, d))
            view, hview = [], []
            hnames = {"%s:%d" % v: k for k, v in HADDRS.items()}
            for i in d["instances"]:
                if i["service"] == SVC:
                    at = next((k for k, (en, w) in ATTRS.items() if en == i["enabled"] and abs(w - i["weight"]) < 1e-6), "?%s/%s" % (i["enabled"], i["weight"]))
                    if not i["healthy"]:
                        at = "unhealthy:" + at
                    view.append({"a": names.get("%s:%s" % (i["ip"], i["port"]), "?"), "c": ids.get(i["client"], "?" + str(i["client"])), "at": at})
                elif i["service"].startswith(SVC + "-"):
                    hview.append({"a": hnames.get("%s:%s" % (i["ip"], i["port"]), "?"),
                                  "w": int(round(i["weight"])) if i["enabled"] and i["healthy"] and abs(i["weight"] - round(i["weight"])) < 1e-6 else -1})
            out[n] = (sorted(view, key=lambda x: x["a"]), sorted(hview, key=lambda x: x["a"]))
        return out

    def settle_and_read(self, rounds=3):
        """'once registrations stop and the sync interval has passed': wait two anti-entropy intervals, then read every
        live node once per further interval (the instances must stay)"""
        time.sleep(SETTLE_S)
        self.ev(ev="settle")
        for r in range(rounds):
            if r:
                time.sleep(13.0)
            for n, (view, hview) in self.views().items():
                self.ev(ev="read", n=n, view=view, hview=hview)

    def free_addr(self, c):
        """addresses connection c may register: free ones and those held through the same node (model limit)"""
        h = self.clients[c].node.id
        return [a for a in ADDRS if a not in self.reg_by or self.clients[self.reg_by[a]].node.id == h]

    def run(self):
        try:
            t_spawn = time.time()
            self.c.start()
            if self.kind == "takeover":
                # an address registered by one connection is registered again by a second connection of the same node
                # while the first one stays open
                self.open_clients([1, 1, 2])
                self.reg("c1", "a1")
                self.reg("c3", "a2", "w3")
                time.sleep(2.0)
                self.reg("c2", "a1", "w4")
                self.settle_and_read(rounds=4)
            elif self.kind == "update_then_deregister":
                # an instance the other nodes already hold is changed and deregistered within one 500 ms sync batch
                self.open_clients([1, 2, 3])
                self.reg("c1", "a1", "w2")
                self.reg("c2", "a2", "w2")
                self.hreg(3, "h1", weight=2.0)
                self.hreg(1, "h2", weight=2.0)
                time.sleep(2.0)
                self.reg("c1", "a1", "w3")
                self.dereg("c1", "a1")
                for via, h in ((3, "h1"), (1, "h2")):
                    self.hreg(via, h, weight=3.0)
                    self.hreg(via, h, dereg=True)
                self.settle_and_read(rounds=2)
            elif self.kind == "http_update_of_grpc_instance":
                # instances held by connections of all three nodes (one service, so at least two of them are not held by the
                # node responsible for the service) are updated over HTTP through yet another node
                self.open_clients([1, 2, 3])
                self.reg("c1", "a1", "w2")
                self.reg("c2", "a2", "w2")
                self.reg("c3", "a3", "w2")
                time.sleep(2.0)
                # every node pulls a full copy of the others' instances 1 s, 15 s and 45 s after ITS start: an update that is
                # not announced would be repaired by the last of these pulls and the scenario would say nothing about the
                # announcement (a seeded change went unnoticed that way in a regression run of session 6) - wait them out
                time.sleep(max(0.0, 56.0 - (time.time() - t_spawn)))
                self.hupd(2, "a1", "w3")
                self.hupd(3, "a2", "w4")
                self.hupd(1, "a3", "w3")
                self.settle_and_read(rounds=2)
            elif self.kind == "beat_via_non_owner":
                # HTTP instances with a weight of their own keep heart-beating through every node in turn (so at least two
                # of three beats of an instance reach a node that is not responsible for its service and are routed):
                # heart-beats are not changes - whichever node is asked in between returns the registered weight
                self.open_clients([1, 2, 3])     # (connections without registrations: the trace's first record)
                self.hreg(1, "h1", weight=3.0)
                self.hreg(2, "h2", weight=2.0)
                self.hreg(3, "h3", weight=3.0)
                time.sleep(3.0)
                self.hread()
                for rnd_ in range(2):
                    for via in (1, 2, 3):
                        for h in ("h1", "h2", "h3"):
                            self.hbeat(via, h)
                        time.sleep(0.7)
                        self.hread()
                self.settle_and_read(rounds=1)
            elif self.kind == "node_death":
                self.open_clients([1, 2, 2, 3])
                self.reg("c1", "a1")
                self.reg("c2", "a2", "w3")
                self.reg("c3", "a3", "w4")
                self.reg("c4", "a4")
                self.hreg(1, "h1")
                self.hreg(2, "h2")
                self.hreg(3, "h3")
                time.sleep(2.0)
                self.die(2)
                time.sleep(DEAD_S)
                self.settle_and_read(rounds=1)
                self.start(2)
                self.settle_and_read(rounds=2)
            else:
                self.open_clients([self.rng.choice([1, 2, 3]) for _ in range(5)])
                dead, noticed, hregd = None, False, set()
                for _ in range(14):
                    live = [c for c in self.clients if c not in self.closed]
                    x = self.rng.random()
                    if x < 0.4 and live:
                        c = self.rng.choice(live)
                        fa = self.free_addr(c)
                        if fa:
                            self.reg(c, self.rng.choice(fa), self.rng.choice(sorted(ATTRS)))
                    elif x < 0.55 and live:
                        mine = [(a, c) for a, c in self.reg_by.items() if c in live]
                        if mine:
                            a, c = self.rng.choice(mine)
                            self.dereg(c, a)
                    elif x < 0.78 and (dead is None or noticed):
                        # HTTP-style operations only while every node the route may pick is really there
                        h = self.rng.choice(sorted(HADDRS))
                        via = self.rng.choice([n for n in (1, 2, 3) if n != dead])
                        self.hreg(via, h, dereg=(h in hregd and self.rng.random() < 0.5))
                        hregd = (hregd - {h}) if self.ops[-1]["op"] == "hdereg" else (hregd | {h})
                    elif x < 0.85 and len(live) > 2:
                        self.close(self.rng.choice(live))
                    elif x < 0.93 and dead is None:
                        dead = self.rng.choice([1, 2, 3])
                        # the 500 ms sync batch of the node that is about to die has gone out (an HTTP deregistration that
                        # was acknowledged within the last batch interval of a killed owner is lost with it and the instance
                        # comes back with the node's next snapshot pull - every node then agrees on it, which is all the
                        # property asks; the trace specification expects the removal, so the driver does not provoke this)
                        time.sleep(1.3)
                        self.die(dead)
                        noticed = self.rng.random() < 0.5
                        time.sleep(DEAD_S if noticed else 1.0)
                    elif dead is not None:
                        self.start(dead)
                        dead = None
                        # the node is back in everybody's view and has made its first snapshot pull before the next operation
                        # (a deregistration handled by a node that holds the instance only as a pulled copy is not announced)
                        time.sleep(7.0)
                    time.sleep(self.rng.choice([0.0, 0.3, 0.8]))
                if dead is not None and self.rng.random() < 0.5:
                    time.sleep(DEAD_S)
                    self.start(dead)
                    dead = None
                if dead is not None:
                    time.sleep(DEAD_S)
                self.settle_and_read(rounds=2)
        finally:
            for cl in self.clients.values():
                cl.close()
            self.c.shutdown()
        return self


def tlc_trace(trace_path, name):
    """trace validation; the first record (the connections) is consumed by the initial state"""
    meta = os.path.join(vlib.TLCDIR, name)
    shutil.rmtree(meta, ignore_errors=True)
    e = dict(os.environ, JAVA_TOOL_OPTIONS="-Xss1g -Dtlc2.tool.queue.IStateQueue=StateDeque", TRACE=trace_path)
    r = subprocess.run(["timeout", "600", "tlc", "-workers", "1", "-metadir", meta, "-cleanup", "-noGenerateSpecTE",
                        "-config", "Trace_Distro.cfg", "Trace_Distro.tla"], cwd=vlib.SPEC,
                       stdout=subprocess.PIPE, stderr=subprocess.STDOUT, text=True, env=e)
    shutil.rmtree(meta, ignore_errors=True)
    out = r.stdout
    if r.returncode == 124:
        raise ToolError("TLC timeout validating a registry trace")
    m = re.search(r"(\d+) states generated, (\d+) distinct states found", out)
    res = {"states": int(m.group(2)) if m else 0}
    lines = [json.loads(x) for x in open(trace_path) if x.strip()]
    m = re.search(r"TRACE-REJECTED at line\",\s*(\d+)", out)
    if m:
        at = int(m.group(1))
        res.update(accepted=False, rejected_at=at, rejected_line=lines[at - 1] if at <= len(lines) else None)
        return res
    if "Model checking completed. No error has been found" in out:
        res["accepted"] = True
        return res
    import sys
    sys.stderr.write(out[-3000:])
    raise ToolError("registry trace validation gave no verdict")


def run(tier):
    c = Check("C15", tier)
    quick = tier != "thorough"
    vlib.build_harness()
    sc_dir = vlib.scratch("c15")
    mc = vlib.tlc_mc("MC_Distro.tla", "MC_Distro.cfg" if quick else "MC_Distro_thorough.cfg", name="c15_mc", timeout=3000, workers=12)
    vlib.require_actions(mc, ["Register", "Deregister", "Close", "DistroRound", "Die", "Start"])
    c.add_mc(mc)
    pres = vlib.tlc_mc("MC_Distro.tla", "MC_Distro_reorder_presence.cfg", name="c15_mc2", timeout=3000, workers=12)
    c.add_mc(pres)
    ro = vlib.tlc_mc("MC_Distro.tla", "MC_Distro_reorder.cfg", expect_violation="Converges", name="c15_obs")
    c.cov["notes"].append("model-level observation (not reproduced on the cluster: the driver cannot reorder or drop sync messages): with "
                          "AllowReorder = TRUE and two attribute values TLC violates Converges (%s) - an attribute change that is overtaken "
                          "is never repaired because the anti-entropy round compares keys only; with one attribute value (presence only) "
                          "Converges holds under reordering" % ro["violated"])
    n = vlib.tlc_mc("MC_Distro.tla", "MC_Distro_defect.cfg", expect_violation="Converges", name="c15_neg")
    c.add_negative_control("Distro where a sync update leaves the key in the old client's index violates Converges (the "
                           "anti-entropy round keeps deleting and re-fetching a live instance)", n["violated"])

    kinds = ["takeover", "update_then_deregister", "http_update_of_grpc_instance", "beat_via_non_owner", "node_death"] + ["random"] * (5 if quick else 30)
    jobs = [(os.path.join(sc_dir, "s%d" % i), c.seed * 1000 + i, k) for i, k in enumerate(kinds)]

    def one(j):
        base, seed, kind = j
        try:
            return Scenario(base, seed, kind).run()
        except ToolError as e:
            return e
    t0 = time.time()
    with ThreadPoolExecutor(max_workers=8) as ex:
        done = list(ex.map(one, jobs))
    c.cov["scenario_wall_s"] = round(time.time() - t0, 1)
    errs = [d for d in done if isinstance(d, ToolError)]
    if len(errs) > len(done) // 4:
        raise ToolError("cluster scenarios failed to run: %s" % errs[0])
    scs = [d for d in done if not isinstance(d, ToolError)]
    regs = reads = 0
    for i, sc in enumerate(scs):
        tp = vlib.write_ndjson(os.path.join(sc_dir, "trace_%d.ndjson" % i), sc.trace)
        tv = tlc_trace(tp, "c15_tv")
        c.cov["states"] += tv["states"]
        c.traces(1)
        regs += sum(1 for e in sc.trace if e["ev"] == "reg")
        reads += sum(1 for e in sc.trace if e["ev"] == "read")
        c.count(len(sc.trace), [{"seed": sc.seed, "kind": sc.kind}])
        if not tv["accepted"]:
            ln = tv.get("rejected_line") or {}
            ev = ln.get("ev")
            c.violation("C15:%s@%s" % ("nodes_do_not_converge" if ev == "read" else "history_not_explained_" + str(ev), sc.kind),
                        "registry history of a real 3-node cluster (scenario %s, seed %d) is not a behaviour of Distro.tla: "
                        "rejected at line %s %s; operations: %s" % (sc.kind, sc.seed, tv.get("rejected_at"), json.dumps(ln), json.dumps(sc.ops)[:700]),
                        {"seed": sc.seed, "kind": sc.kind, "rejected_at": tv.get("rejected_at"), "line": ln, "ops": sc.ops, "trace": sc.trace})
        if i == 0:
            c.sample({"trace_head": sc.trace[:8]})
    good = next((s for s in scs if any(e["ev"] == "read" and e["view"] for e in s.trace)), None)
    if good is not None:
        bad = [json.loads(json.dumps(e)) for e in good.trace]
        for e in reversed(bad):
            if e["ev"] == "read" and e["view"]:
                e["view"] = e["view"][1:]
                break
        bp = vlib.write_ndjson(os.path.join(sc_dir, "trace_bad.ndjson"), bad)
        tvb = tlc_trace(bp, "c15_tvneg")
        c.add_negative_control("cluster trace with one instance removed from one node's answer is rejected by Trace_Distro", not tvb["accepted"])
    c.cov["scenarios"] = len(scs)
    c.cov["scenarios_failed_to_run"] = len(errs)
    c.cov["registrations"] = regs
    c.cov["node_views_read"] = reads
    if regs < 3 * len(scs):
        raise ToolError("too few registrations (%d): check is vacuous" % regs)
    c.assumptions += [
        "cluster = three mini-node processes in cluster mode (real start-up wiring, real gRPC services, naming sync over real "
        "connections); clients are real gRPC connections (bi-stream set up as the SDK does, InstanceRequest payloads); a "
        "connection closes by killing its client process, a node dies by SIGKILL (its clients die with it)",
        "an HTTP operation is sent only while every live node counts the same number of live nodes (after a restart the views "
        "differ for seconds; a write handled by a node that still believes it is responsible is acknowledged and never announced)",
        "a node is killed at least 1.3 s after the previous operation (its 500 ms sync batch has gone out) and the next operation "
        "after a restart comes 7 s later (the node is back in every view and has pulled the others' instances): an HTTP "
        "deregistration acknowledged by an owner that is killed before its batch leaves, or handled by a just-restarted node that "
        "holds the instance only as a pulled copy, is not announced - the instance comes back and all nodes agree on it, which "
        "is what the property asks, while the trace specification (THDereg) expects the removal",
        "'quiescence' = no operations for 29 s (two anti-entropy intervals + batch delay; a dead node is given 21 s to be "
        "noticed); then every live node is read once per further 13 s interval and must keep returning the same instances",
        "gRPC (connection-owned) ephemeral instances of one service - an address is registered through one node at a time, "
        "take-over between connections of the same node is exercised - and HTTP-registered instances of three more "
        "services (routed to the owner node by NamingRoute; issued only while no unnoticed dead node could be picked as "
        "owner); heartbeat expiry is C13's subject (the time-outs are set to hours); HTTP instances are specified at "
        "contract level only (the set registered and not deregistered), the message-level model covers the gRPC side",
        "compared per node: address, owning connection, enabled state and weight of every instance (three weights, each one "
        "marked as 'given' by the registration so that a re-registration overwrites it; enabled = true throughout because a "
        "registration cannot re-enable an instance, by design); health is constant (gRPC instances have no heartbeat expiry) and an unhealthy instance "
        "would be reported as a different attribute",
    ]
    shutil.rmtree(sc_dir, ignore_errors=True)
    return c.finish(
        rule="histories recorded on real 3-node clusters (register / deregister over real gRPC connections, connection close, "
             "node kill and restart; scenarios: take-over of an address by a second connection, node death and rejoin, "
             "seeded random) with the instances every live node returns after quiescence, validated by TLC against Distro.tla; "
             "the message-level model (delayed sync messages in any order, anti-entropy rounds, node death / start) is "
             "model-checked for the liveness property Converges; non-trivial = scenarios",
        checker_cmd="tools/vcheck C15 --tier %s" % tier)


def replay(path):
    print(json.dumps(json.load(open(path)), indent=1)[:8000])
    return 0
