"""C11 - registry bookkeeping: counters, indexes, reverse maps always match instances."""
import json
import shutil

import vlib
from vlib import Check
from checks import registry_common as rc


def run(tier):
    c = Check("C11", tier)
    quick = tier != "thorough"
    vlib.build_harness()
    sc = vlib.scratch("c11")
    rc.mc_legs(c, quick)
    beh = rc.gen(c, "SIM_Registry.cfg", 60 if quick else 800, c.seed, "c11_sim", 500 if quick else 8000)
    rc.replay(c, beh, sc, "actor", "NamingActor", lambda b: len({s["op"] for s in b["steps"]}) >= 5)
    c.sample({"behaviour_ops": [(s["op"], s.get("s"), s.get("a")) for s in beh[0]["steps"]]})
    c.assumptions += [
        "stand-alone NamingActor (no process range): Raft-origin persistent instances and range take-over are covered by C15/C01",
        "one model tick = 300 ms of real time; time-outs are set half a tick below the model's H and T through the control hook",
    ]
    shutil.rmtree(sc, ignore_errors=True)
    return c.finish(
        rule="behaviours = kind-first TLC simulation of Registry.tla (2 services x 3 addresses x 2 connections + 1 sync "
             "node; register http/grpc, partial update, beat, sync update, deregister, disconnect, sweep, empty-service "
             "clean-up, ticks) replayed on a real NamingActor; after EVERY step the invariants (count = instances, healthy "
             "count, persistent set = non-ephemeral, index = services, connection map sound) are evaluated on the REAL dump "
             "and the dump is compared with the spec state; non-trivial = at least 5 different operation kinds",
        checker_cmd="tools/vcheck C11 --tier %s" % tier)


def replay(path):
    print(json.dumps(json.load(open(path)), indent=1))
    return 0
