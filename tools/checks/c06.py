"""C06 - cluster: acknowledged config writes are never lost; all nodes converge."""
import json
import os
import random
import shutil
import subprocess
import re
import time
from concurrent.futures import ThreadPoolExecutor

import cluster
import vlib
from vlib import Check, ToolError

KEYS = ["k1", "k2", "k3"]


class Scenario:
    """one seeded fault schedule on one real cluster; records the history as trace events"""

    def __init__(self, base, seed, kind, snapshot_logs):
        self.rng = random.Random(seed)
        self.seed, self.kind = seed, kind
        self.c = cluster.Cluster(base, 3, snapshot_logs=snapshot_logs)
        self.trace = []
        self.next_id = 1
        self.content = {}       # request id -> content
        self.down = None        # the one node currently killed or stopped
        self.how = None
        self.ops = []
        self.entries = {}       # entry point -> number of writes

    def ev(self, **kw):
        self.trace.append(kw)

    def live(self):
        return [i for i, nd in self.c.nodes.items() if nd.live()]

    def write(self, via, key, content=None, delete=False, timeout_ms=6000):
        rid = self.next_id
        self.next_id += 1
        if content is None:
            content = "c%d" % rid
        self.content[rid] = None if delete else content
        self.ev(ev="call", id=rid, via=via, k=key, **{"del": delete})
        # the entry point of the write varies: the node's real HTTP handler, its real gRPC service, or ConfigRoute directly
        entry = ("route", "http", "grpc")[(rid + self.seed) % 3]
        self.entries[entry] = self.entries.get(entry, 0) + 1
        op = {"op": "cfg_%s_%s" % (entry, "del" if delete else "set"), "data_id": key, "value": content, "timeout_ms": timeout_ms}
        r = self.c.nodes[via].call(op, timeout=timeout_ms / 1000.0 + 4)
        res = "ok" if r.get("res") == "ok" else "err"
        self.ev(ev="ret", id=rid, res=res)
        self.ops.append({"id": rid, "via": via, "entry": entry, "k": key, "del": delete, "content": content, "res": r.get("res"), "err": str(r.get("err", ""))[:80]})
        return res

    def fault(self, n, how, settle_leader=True):
        # a leader is only taken away at a quiescent moment: a follower that holds entries it has not applied yet
        # when the leader changes never applies them (dependency defect, see scenario leader_change_unapplied)
        if settle_leader and self.down is None and n == self.c.leader():
            self.c.quiesce(timeout=60)
            time.sleep(1.2)     # one heartbeat: every follower has learnt the commit index
            self.c.quiesce(timeout=60)
        nd = self.c.nodes[n]
        if how == "kill":
            nd.kill()
        else:
            nd.sigstop()
        self.down, self.how = n, how
        self.ev(ev="crash", n=n)
        self.ops.append({"fault": how, "n": n})

    def heal(self):
        if self.down is None:
            return
        nd = self.c.nodes[self.down]
        if self.how == "kill":
            nd.start()
        else:
            nd.sigcont()
        self.ev(ev="restart", n=self.down)
        self.ops.append({"heal": self.how, "n": self.down})
        self.down, self.how = None, None

    def read_all(self):
        out = []
        for n in self.live():
            for k in KEYS:
                r = self.c.nodes[n].call({"op": "cfg_get", "data_id": k})
                if r.get("res") != "ok":
                    raise ToolError("cfg_get failed on node %d: %s" % (n, r))
                out.append((n, k, r.get("value")))
        return out

    def quiesce_and_read(self):
        """'eventually': the values are taken once Raft is quiescent AND two rounds of reads 0.7 s apart agree
        (followers hand applied entries to their component actors asynchronously)"""
        self.c.quiesce(timeout=60)
        vals = self.read_all()
        for _ in range(12):
            time.sleep(0.7)
            again = self.read_all()
            if again == vals:
                break
            vals = again
        self.ev(ev="quiesce")
        for n, k, v in vals:
            ids = [0] if v is None else [i for i, c in self.content.items() if c == v]
            self.ev(ev="read", n=n, k=k, ids=ids or [-1], content=v if v is not None else "")

    def random_steps(self, n_steps):
        rng = self.rng
        for _ in range(n_steps):
            x = rng.random()
            live = self.live()
            if x < 0.55:
                via = rng.choice(live)
                key = rng.choice(KEYS)
                y = rng.random()
                if y < 0.15:
                    self.write(via, key, delete=True)
                elif y < 0.40:
                    # publish again what is (probably) there already: same content, no change
                    prev = [o for o in self.ops if o.get("k") == key and not o.get("del") and o.get("res") == "ok"]
                    self.write(via, key, content=prev[-1]["content"] if prev else None)
                else:
                    self.write(via, key)
            elif x < 0.75 and self.down is None:
                l = self.c.leader()
                target = l if (l and rng.random() < 0.5) else rng.choice(live)
                self.fault(target, rng.choice(["kill", "kill", "stop"]))
                if rng.random() < 0.5:
                    time.sleep(rng.choice([0.2, 1.0, 6.0]))
            elif x < 0.90 and self.down is not None:
                self.heal()
            else:
                time.sleep(rng.choice([0.1, 0.5, 1.5]))

    def run(self):
        try:
            self.c.start()
            if self.kind == "bootstrap_leader":
                # the node that formed the cluster still leads; both followers are frozen: nothing can be committed
                self.write(1, "k1")
                self.c.quiesce()
                self.ev(ev="quiesce")
                self.c.nodes[2].sigstop()
                self.ev(ev="crash", n=2)
                self.c.nodes[3].sigstop()
                self.ev(ev="crash", n=3)
                self.write(1, "k2", timeout_ms=3000)
                self.c.nodes[2].sigcont()
                self.ev(ev="restart", n=2)
                self.c.nodes[3].sigcont()
                self.ev(ev="restart", n=3)
                self.quiesce_and_read()
                return self
            if self.kind == "leader_change_unapplied":
                # a write is acknowledged and the leader is frozen before its next heartbeat tells the followers
                # that the entry is committed; the others elect a new leader
                self.fault(1, "kill")
                self.c.wait(lambda: self.c.metrics(2).get("leader") in (2, 3), 40, "nodes 2 and 3 elect a leader")
                self.heal()
                self.c.quiesce()
                self.ev(ev="quiesce")
                l = self.c.leader()
                self.write(l, "k1")
                self.fault(l, "stop", settle_leader=False)
                others = [i for i in self.c.nodes if i != l]
                self.c.wait(lambda: self.c.metrics(others[0]).get("leader") in others, 30, "the others elect a leader")
                self.write(others[0], "k2")
                self.heal()
                self.quiesce_and_read()
                return self
            # leadership moves once before the schedule starts (the node that formed the cluster and added the others
            # replicates to them as non-voters for as long as it stays leader - see the bootstrap_leader scenario)
            self.fault(1, "kill")
            self.c.wait(lambda: self.c.metrics(2).get("leader") in (2, 3), 40, "nodes 2 and 3 elect a leader")
            self.heal()
            self.c.quiesce()
            self.ev(ev="quiesce")
            if self.kind == "stale_leader":
                # the leader is frozen for longer than the election timeout, thawed, and asked at once
                l = self.c.leader()
                self.write(l, "k1")
                self.write(2 if l != 2 else 3, "k2")
                self.fault(l, "stop")
                others = [i for i in self.c.nodes if i != l]
                self.c.wait(lambda: self.c.metrics(others[0]).get("leader") in others, 30, "the others elect a leader")
                self.write(others[0], "k1")
                first_k1 = next(o["content"] for o in self.ops if o.get("k") == "k1" and o.get("res") == "ok")
                self.heal()
                # ... also with the content it still holds for a key the others have moved on from
                self.write(l, "k1", content=first_k1, timeout_ms=4000)
                self.write(l, "k2", timeout_ms=4000)
                self.write(l, "k3", timeout_ms=4000)
            elif self.kind == "long_catchup":
                # one follower is away (frozen, then - second round - killed) while the others acknowledge a long run of
                # writes: it gets them back in ONE replication batch (far more entries than an actor mailbox holds)
                # and must end up serving what the others serve
                for how in ("stop", "kill"):
                    l = self.c.leader()
                    f = [i for i in self.c.nodes if i != l][self.rng.randrange(2)]
                    self.fault(f, how)
                    via = [i for i in self.c.nodes if i != f]
                    for r in range(28):
                        self.write(via[r % 2], KEYS[r % 3])
                    self.write(via[0], KEYS[0], delete=True)
                    self.heal()
                    self.quiesce_and_read()
            elif self.kind == "follower_echo":
                # publishes through followers, republished unchanged, compaction, follower restarts
                for r in range(3):
                    for f in (2, 3, 1):
                        self.write(f, KEYS[r % 3], content="same-%d" % (r % 2))
                        self.write(f, KEYS[(r + 1) % 3])
                for f in (2, 3):
                    self.fault(f, "kill")
                    self.heal()
                self.quiesce_and_read()
                self.random_steps(6)
            else:
                self.random_steps(16)
            self.heal()
            self.quiesce_and_read()
            # every node is restarted once more (one at a time): what it served must survive
            for n in (3, 2, 1):
                self.fault(n, "kill")
                self.heal()
            self.quiesce_and_read()
        finally:
            self.c.shutdown()
        return self


def late_echoes(b):
    """steps of a behaviour at which an echo arrives after the node has applied a LATER write of the same key"""
    pos, keyof, applied, late = {}, {}, {}, []
    for i, s in enumerate(b["steps"]):
        if s["op"] == "commit":
            pos[s["id"]] = s["idx"]
            keyof[s["idx"]] = s["k"]
        elif s["op"] == "apply":
            applied[s["n"]] = s["idx"]
        elif s["op"] == "echo":
            p = pos.get(s["id"], 0)
            if any(keyof[j] == s["k"] for j in range(p + 1, applied.get(s["n"], 0) + 1)):
                late.append(i)
    return late


def echo_leg(c, sc_dir, quick):
    """node level: behaviours of ConfigCluster.tla (applies, echoes, compactions, restarts per node) on real mini nodes"""
    beh = vlib.tlc_sim("SimConfigCluster.tla", "SIM_ConfigCluster.cfg", num=400 if quick else 4000, depth=500, seed=c.seed + 6,
                       name="c06_sim", timeout=1500)
    if len(beh) < 60:
        raise ToolError("too few ConfigCluster behaviours: %d" % len(beh))
    n_echo = lambda b: sum(1 for s in b["steps"] if s["op"] == "echo")
    clean = sorted([b for b in beh if not late_echoes(b)], key=lambda b: -n_echo(b))[: (70 if quick else 1200)]
    late = sorted([b for b in beh if late_echoes(b)], key=lambda b: -n_echo(b))[: (10 if quick else 60)]
    sel = clean + late
    bf = vlib.write_ndjson(os.path.join(sc_dir, "echo_beh.ndjson"), sel)
    res = vlib.harness(["replay", "echo", bf, "--jobs", 4], timeout=9000)
    summ = [r for r in res if r.get("kind") == "summary"][0]
    if summ.get("tool_errors", 0) > len(sel) // 10:
        raise ToolError("too many mini-node tool errors: %s" % summ)

    def keyfn(b, r):
        if r.get("step") in late_echoes(b) and "after echo" in r.get("what", ""):
            return "C06:late_echo_overwrites_applied_value"
        m = re.search(r"after (\w+)", r.get("what", ""))
        return "C06:node_serves_other_value@%s" % (m.group(1) if m else "step")
    vlib.replay_results(c, sel, res, keyfn, "applies, echoes, compactions and restarts on mini nodes",
                        nontrivial=lambda b: n_echo(b) > 0)
    c.cov["echo_behaviours"] = len(sel)
    c.cov["echo_behaviours_with_late_echo"] = len(late)
    c.cov["echoes_replayed"] = summ.get("echoes", 0)
    if summ.get("echoes", 0) < len(sel) // 2:
        raise ToolError("too few echoes replayed (%s): generation is off" % summ.get("echoes"))


def tlc_trace(trace_path, name):
    meta = os.path.join(vlib.TLCDIR, name)
    shutil.rmtree(meta, ignore_errors=True)
    e = dict(os.environ, JAVA_TOOL_OPTIONS="-Xss1g -Dtlc2.tool.queue.IStateQueue=StateDeque", TRACE=trace_path)
    r = subprocess.run(["timeout", "600", "tlc", "-workers", "1", "-metadir", meta, "-cleanup", "-noGenerateSpecTE",
                        "-config", "Trace_ConfigCluster.cfg", "Trace_ConfigCluster.tla"], cwd=vlib.SPEC,
                       stdout=subprocess.PIPE, stderr=subprocess.STDOUT, text=True, env=e)
    shutil.rmtree(meta, ignore_errors=True)
    out = r.stdout
    if r.returncode == 124:
        raise ToolError("TLC timeout validating a cluster trace")
    m = re.search(r"(\d+) states generated, (\d+) distinct states found", out)
    states = int(m.group(2)) if m else 0
    if re.search(r"Error: Invariant (\w+) is violated", out):
        return {"accepted": False, "states": states, "at": None, "why": "invariant"}
    m = re.search(r"TRACE-REJECTED at line\",\s*(\d+)", out)
    if m:
        return {"accepted": False, "states": states, "at": int(m.group(1))}
    if "Model checking completed. No error has been found" in out:
        return {"accepted": True, "states": states}
    import sys
    sys.stderr.write(out[-3000:])
    raise ToolError("trace validation gave no verdict")


def classify(sc, at):
    """label a rejected read for the violation key"""
    ln = sc.trace[at - 1] if at and at <= len(sc.trace) else {}
    if ln.get("ev") == "ret":
        return "success_answered_without_commit"
    if ln.get("ev") != "read":
        return "history_not_explained@%s" % ln.get("ev")
    # the reads of the same quiescent point
    j = at - 1
    while j > 0 and sc.trace[j - 1]["ev"] == "read":
        j -= 1
    block = []
    i = j
    while i < len(sc.trace) and sc.trace[i]["ev"] == "read":
        block.append(sc.trace[i])
        i += 1
    same_key = [r for r in block if r["k"] == ln["k"]]
    if len({json.dumps(r["content"]) for r in same_key}) > 1:
        return "nodes_diverge"
    return "acknowledged_write_not_served"


def run(tier):
    c = Check("C06", tier)
    quick = tier != "thorough"
    vlib.build_harness()
    sc_dir = vlib.scratch("c06")
    mc = vlib.tlc_mc("ConfigCluster.tla", "MC_ConfigCluster.cfg" if quick else "MC_ConfigCluster_thorough.cfg", name="c06_mc", timeout=3000, workers=12)
    vlib.require_actions(mc, ["Call", "Commit", "AnswerOk", "Echo", "AnswerErr", "Apply", "Crash", "Compact", "Restart", "Elect"])
    c.add_mc(mc)
    for cfg, inv, what in (("MC_ConfigCluster_defect_ack.cfg", "AckedCommitted", "success answered without commit"),
                           ("MC_ConfigCluster_defect_tmp.cfg", "Converged", "keys marked temporary left out of the snapshot"),
                           ("MC_ConfigCluster_defect_echo.cfg", "Converged", "an echo handled after later writes of the key were applied still replaces the value")):
        n = vlib.tlc_mc("ConfigCluster.tla", cfg, expect_violation=inv, name="c06_neg")
        c.add_negative_control("ConfigCluster with %s violates %s" % (what, inv), n["violated"])

    echo_leg(c, sc_dir, quick)

    kinds = ["bootstrap_leader", "leader_change_unapplied", "stale_leader", "follower_echo", "long_catchup"] + ["random"] * (4 if quick else 40)
    if not quick:
        kinds += ["stale_leader", "follower_echo", "long_catchup"] * 3
    # snapshot threshold: 6 log entries (restarts go through snapshot + log) in the echo scenario and every second other one
    jobs = [(os.path.join(sc_dir, "s%d" % i), c.seed * 1000 + i, k, 6 if (i % 2 == 0 or k == "follower_echo") else 10000) for i, k in enumerate(kinds)]

    def one(j):
        base, seed, kind, snaplogs = j
        try:
            return Scenario(base, seed, kind, snaplogs).run()
        except ToolError as e:
            return e
    t_sc = time.time()
    with ThreadPoolExecutor(max_workers=8) as ex:
        done = list(ex.map(one, jobs))
    c.cov["scenario_wall_s"] = round(time.time() - t_sc, 1)
    t_tv = time.time()
    errs = [d for d in done if isinstance(d, ToolError)]
    if len(errs) > len(done) // 4:
        raise ToolError("cluster scenarios failed to run: %s" % errs[0])
    scs = [d for d in done if not isinstance(d, ToolError)]
    acked = faults = reads = 0
    for i, sc in enumerate(scs):
        tp = vlib.write_ndjson(os.path.join(sc_dir, "trace_%d.ndjson" % i), sc.trace)
        tv = tlc_trace(tp, "c06_tv")
        c.cov["states"] += tv["states"]
        c.traces(1)
        n_ok = sum(1 for e in sc.trace if e["ev"] == "ret" and e["res"] == "ok")
        acked += n_ok
        faults += sum(1 for e in sc.trace if e["ev"] == "crash")
        reads += sum(1 for e in sc.trace if e["ev"] == "read")
        c.count(len(sc.trace), [{"seed": sc.seed, "kind": sc.kind}])
        if not tv["accepted"]:
            label = classify(sc, tv.get("at"))
            ln = sc.trace[tv["at"] - 1] if tv.get("at") and tv["at"] <= len(sc.trace) else None
            # the two dedicated scenarios stand for one root cause each, whatever symptom shows first
            key = "C06:%s" % sc.kind if sc.kind in ("bootstrap_leader", "leader_change_unapplied") else "C06:%s@%s" % (label, sc.kind)
            c.violation(key,
                        "history of a real 3-node cluster (scenario %s, seed %d) is not a behaviour of ConfigCluster.tla: rejected "
                        "at line %s %s; operations: %s" % (sc.kind, sc.seed, tv.get("at"), json.dumps(ln), json.dumps(sc.ops)[:900]),
                        {"seed": sc.seed, "kind": sc.kind, "rejected_at": tv.get("at"), "line": ln, "ops": sc.ops, "trace": sc.trace})
        if i == 0:
            c.sample({"trace_head": sc.trace[:8]})
    # binding control: a read changed to another write's content must be rejected
    good = next((s for s in scs), None)
    if good is not None:
        bad = [dict(e) for e in good.trace]
        for e in reversed(bad):
            if e["ev"] == "read" and e["ids"] != [0]:
                e["ids"] = [0]
                break
        bp = vlib.write_ndjson(os.path.join(sc_dir, "trace_bad.ndjson"), bad)
        tvb = tlc_trace(bp, "c06_tvneg")
        c.add_negative_control("cluster trace with one served value replaced by 'absent' is rejected by Trace_ConfigCluster", not tvb["accepted"])
    c.cov["trace_validation_wall_s"] = round(time.time() - t_tv, 1)
    c.cov["scenarios"] = len(scs)
    c.cov["scenarios_failed_to_run"] = len(errs)
    c.cov["acknowledged_writes"] = acked
    ent = {}
    for sc in scs:
        for k, v in sc.entries.items():
            ent[k] = ent.get(k, 0) + v
    c.cov["writes_by_entry_point"] = ent
    if min(ent.get("http", 0), ent.get("grpc", 0), ent.get("route", 0)) < 5:
        raise ToolError("an entry point of the writes (HTTP handler / gRPC service / ConfigRoute) was hardly used: %s" % ent)
    c.cov["faults_injected"] = faults
    c.cov["values_read_at_quiescence"] = reads
    if acked < 5 * len(scs):
        raise ToolError("too few acknowledged writes (%d): the cluster does not work, check is vacuous" % acked)
    c.assumptions += [
        "cluster = three `rnverif node run` processes in cluster mode: real start-up wiring, Raft auto-init / auto-join, real "
        "gRPC services on loopback ports (Raft RPCs and routed writes over real connections); writes enter in turn through "
        "the node's real HTTP handler (/nacos/v1/cs/configs of the in-process application), through its real gRPC service "
        "(ConfigPublishRequest / ConfigRemoveRequest on a fresh connection to the node's own port) and through ConfigRoute::set_config / "
        "del_config directly (what both handlers call); reads through ConfigCmd::GET",
        "faults: SIGKILL + restart, SIGSTOP + SIGCONT of one node at a time (a majority stays alive), leader targeted half of "
        "the time; clients are sequential (one request outstanding), a fault may fall between any two requests",
        "Raft itself is abstracted to one committed sequence in the specification (async-raft is not re-verified)",
        "snapshot threshold 6 log entries in every second scenario so that restarts go through snapshot + log",
    ]
    shutil.rmtree(sc_dir, ignore_errors=True)
    return c.finish(
        rule="histories recorded on real 3-node clusters under seeded fault schedules (random, stale-leader, follower-echo "
             "scenarios; calls, answers, faults, values served by every live node at quiescent points and after a final "
             "round of restarts) validated by TLC against ConfigCluster.tla (commits placed silently); the design model is "
             "model-checked exhaustively for 3 nodes; non-trivial = scenarios",
        checker_cmd="tools/vcheck C06 --tier %s" % tier)


def replay(path):
    print(json.dumps(json.load(open(path)), indent=1)[:8000])
    return 0
