"""Shared legs of C02 / C03: RaftLog.tla contract, replay on one log file and on the store, TV."""
import json
import os
import shutil

import vlib
from vlib import ToolError


def classify(b, r):
    step = r.get("step", 0)
    steps = b["steps"]
    op = steps[step]["op"] if step < len(steps) else "?"
    had_trunc = any(s["op"] == "truncate" for s in steps[:step + 1])
    had_compact = any(s["op"] == "compact" for s in steps[:step + 1])
    return op, had_trunc, had_compact


def keyfn(pid):
    def f(b, r):
        op, had_trunc, had_compact = classify(b, r)
        return "%s:%s@%s%s%s" % (pid, r.get("what", "").replace(" ", "_"), op,
                                 "+trunc" if had_trunc else "", "+compact" if had_compact else "")
    return f


def run(c, tier, sim_file_cfg, sim_store_cfg, want_trunc):
    quick = tier != "thorough"
    sc = vlib.scratch(c.pid.lower())
    vlib.build_harness()

    # ---- MC of the contract (invariants + TruncateExact / ReopenIdentity action properties)
    mc = vlib.tlc_mc("RaftLog.tla", "MC_RaftLog.cfg" if quick else "MC_RaftLog_thorough.cfg", name=c.pid + "_mc")
    vlib.require_actions(mc, ["AppendOk", "AppendBad", "Batch", "Truncate", "Compact", "Reopen"])
    c.add_mc(mc)
    neg = vlib.tlc_mc("RaftLog.tla", "MC_RaftLog_bug.cfg", expect_violation="TruncateExact", name=c.pid + "_neg")
    c.add_negative_control("RaftLog with a truncation that keeps the entry at k violates TruncateExact", neg["violated"])

    # ---- MC of the implementation-shaped refinement of one log file + its four defect controls
    lf = vlib.tlc_mc("LogFile.tla", "MC_LogFile.cfg" if quick else "MC_LogFile_thorough.cfg", name=c.pid + "_lf", timeout=3000)
    vlib.require_actions(lf, ["Write", "Strip", "Reopen"])
    c.add_mc(lf)
    for d, inv in (("CutOnIndexPoint", "DiskIsLog"), ("RewindWidth", "ReopenAgrees"),
                   ("ClearTwoBytes", "DiskIsLog"), ("GrowStrict", "ReopenAgrees")):
        n = vlib.tlc_mc("LogFile.tla", "MC_LogFile_defect_%s.cfg" % d, expect_violation=inv, name=c.pid + "_lfneg")
        c.add_negative_control("LogFile with Defect_%s violates %s" % (d, inv), n["violated"])

    # ---- thin cases chosen by the implementation-shaped model: a record that fits the preallocated
    #      file exactly, followed by a reopen (cell = 65280 B: 16 cells = 1 MiB - 4096)
    lfb = vlib.tlc_sim("LogFile.tla", "SIM_LogFile.cfg", num=3000 if quick else 20000, depth=12, seed=c.seed + 7, name=c.pid + "_lfsim")

    def exact_then_reopen(b):
        st = b["steps"]
        return any(st[i]["op"] == "append" and st[i].get("exact_fit") and i + 1 < len(st) and st[i + 1]["op"] == "reopen"
                   for i in range(len(st)))
    thin = [b for b in lfb if exact_then_reopen(b)]
    if len(thin) < 5:
        raise ToolError("LogFile simulation produced too few exact-fit behaviours: %d" % len(thin))
    thin = thin[: (30 if quick else 400)]
    tf = vlib.write_ndjson(os.path.join(sc, "thin_beh.ndjson"), thin)
    res = vlib.harness(["replay", "logfile", tf, "--unit", 65280, "--interval", 2], timeout=3000)
    vlib.replay_results(c, thin, res, keyfn(c.pid), "log file, exact fit of the preallocated area (unit=65280B)",
                        nontrivial=lambda b: {"b": b, "u": 65280})
    c.cov["thin_exact_fit_behaviours"] = len(thin)
    c.sample({"exact_fit_behaviour_ops": [(s["op"], s.get("sz"), s.get("exact_fit")) for s in thin[0]["steps"]]})

    nontriv = (lambda b: any(s["op"] == "truncate" and s["k"] < s["obs"]["end"] + 99 for s in b["steps"])) if want_trunc \
        else (lambda b: any(s["op"] == "reopen" for s in b["steps"]))

    # ---- GEN + REPLAY on one real log file (LogInnerManager), several index intervals / units
    num = 250 if quick else 4000
    beh = vlib.tlc_sim("RaftLog.tla", sim_file_cfg, num=num, depth=40, seed=c.seed, name=c.pid + "_simf")
    if len(beh) < 50:
        raise ToolError("too few behaviours: %d" % len(beh))
    bf = vlib.write_ndjson(os.path.join(sc, "file_beh.ndjson"), beh)
    combos = [(128, 2), (128, 3), (128, 4), (128, 128), (64, 4)] if quick else \
        [(128, 2), (128, 3), (128, 4), (128, 5), (128, 128), (64, 2), (64, 4), (256, 3), (32, 4), (512, 2)]
    for unit, interval in combos:
        res = vlib.harness(["replay", "logfile", bf, "--unit", unit, "--interval", interval], timeout=1200)
        vlib.replay_results(c, beh, res, keyfn(c.pid), "log file (unit=%dB, interval=%d)" % (unit, interval),
                            nontrivial=lambda b, u=unit, iv=interval: nontriv(b) and {"b": b, "u": u, "iv": iv})
    # ---- sizes: records of 0.1 .. 3.3 MB (unit = 100 000 bytes, Sizes up to 33): larger than the file's growth step
    # (1 MiB) and than one read of a file returns (2 MiB); behaviours in which such a record is followed by another append
    def has_big(b):
        ap = [s for s in b["steps"] if s["op"] in ("append", "batch")]
        for i, s_ in enumerate(ap[:-1]):
            szs = [s_.get("sz", 0)] if s_["op"] == "append" else [e.get("sz", 0) for e in s_.get("entries", [])]
            if max(szs or [0]) >= 33:
                return True
        return False
    bigb = [b for b in beh if has_big(b)][: (8 if quick else 120)]
    if len(bigb) < 6:
        raise ToolError("too few behaviours with a 33-unit record followed by another append: %d" % len(bigb))
    bbf = vlib.write_ndjson(os.path.join(sc, "file_beh_big.ndjson"), bigb)
    res = vlib.harness(["replay", "logfile", bbf, "--unit", 100000, "--interval", 128], timeout=2400)
    vlib.replay_results(c, bigb, res, keyfn(c.pid), "log file (unit=100000B: records up to 3.3 MB, interval=128)",
                        nontrivial=lambda b: nontriv(b) and {"b": b, "u": 100000, "iv": 128})
    c.cov["behaviours_replayed_with_records_up_to_3.3MB"] = len(bigb)
    c.sample({"file_behaviour": beh[0]})

    # ---- GEN + REPLAY on the store (FileStore on the mini node, reopen = new process)
    num = 40 if quick else 500
    behs = vlib.tlc_sim("RaftLog.tla", sim_store_cfg, num=num, depth=50, seed=c.seed + 1, name=c.pid + "_sims")
    behs = behs[: (120 if quick else 1500)]
    bs = vlib.write_ndjson(os.path.join(sc, "store_beh.ndjson"), behs)
    res = vlib.harness(["replay", "store", bs, "--jobs", 8], timeout=3000)
    summ = [r for r in res if r.get("kind") == "summary"][0]
    if summ.get("tool_errors", 0) > len(behs) // 10:
        raise ToolError("too many mini-node tool errors: %s" % summ)
    vlib.replay_results(c, behs, res, keyfn(c.pid), "store on mini node",
                        nontrivial=lambda b: nontriv(b) and {"b": b, "store": 1})
    c.sample({"store_behaviour_ops": [s["op"] for s in behs[0]["steps"]]})

    # ---- RECORD + TV: native sizes, native interval 128 and small intervals
    runs = [(128, 300), (4, 200), (2, 150)] if quick else [(128, 3000), (128, 1500), (4, 1500), (3, 1000), (2, 1000), (5, 800)]
    for t, (interval, nops) in enumerate(runs):
        tr = os.path.join(sc, "trace_%d.ndjson" % t)
        vlib.harness(["record", "logfile", tr, "--seed", c.seed * 100 + t, "--ops", nops, "--interval", interval], timeout=1200)
        tv = vlib.tlc_tv("Trace_RaftLog.tla", "Trace_RaftLog.cfg", tr, name=c.pid + "_tv", timeout=1200)
        c.cov["states"] += tv["states"]
        c.cov["transitions"] += tv["states"]
        c.traces(1)
        c.count(tv["lines"], [{"trace": t, "seed": c.seed, "interval": interval}])
        if not tv["accepted"]:
            ln = tv["rejected_line"] or {}
            ctx = tv.get("context", [])
            had_trunc = False
            with open(tr) as f:
                for i, line in enumerate(f):
                    if i >= tv["rejected_at"]:
                        break
                    if '"truncate"' in line:
                        had_trunc = True
            if tv.get("invariant_violated"):
                raise ToolError("trace spec invariant %s violated" % tv["invariant_violated"])
            key = "%s:trace:%s%s" % (c.pid, ln.get("event"), "+trunc" if had_trunc else "")
            c.violation(key, "trace of the real log file rejected by the RaftLog contract at line %d (interval %d): %s" %
                        (tv["rejected_at"], interval, json.dumps(ln)[:400]),
                        {"seed": c.seed * 100 + t, "interval": interval, "ops": nops, "line": tv["rejected_at"],
                         "event": ln, "context": ctx})
        elif t == 0:
            with open(tr) as f:
                c.sample({"trace_head": [json.loads(next(f)) for _ in range(5)]})

    # ---- binding negative control: corrupt one recorded read -> must be rejected
    tr = os.path.join(sc, "trace_0.ndjson")
    lines = [json.loads(x) for x in open(tr) if x.strip()]
    done = False
    for ln in lines:
        if ln["event"] == "read" and len(ln["entries"]) >= 2:
            ln["entries"][1][1] += 1       # wrong term
            done = True
            break
    if done:
        bad = vlib.write_ndjson(os.path.join(sc, "trace_bad.ndjson"), lines)
        tvb = vlib.tlc_tv("Trace_RaftLog.tla", "Trace_RaftLog.cfg", bad, name=c.pid + "_tvneg")
        c.add_negative_control("corrupted trace (wrong term in a read) rejected by Trace_RaftLog", not tvb["accepted"])
    shutil.rmtree(sc, ignore_errors=True)
