"""C12 - registry queries return exactly live registrations; disconnect removes own only."""
import json
import shutil

import vlib
from vlib import Check
from checks import registry_common as rc
from checks import front_common


def run(tier):
    c = Check("C12", tier)
    quick = tier != "thorough"
    vlib.build_harness()
    sc = vlib.scratch("c12")
    rc.mc_legs(c, quick)
    beh = rc.gen(c, "SIM_Registry_c12.cfg", 60 if quick else 800, c.seed + 1, "c12_sim", 500 if quick else 8000)
    rc.replay(c, beh, sc, "actor", "NamingActor queries",
              lambda b: any(s["op"] == "disconnect" for s in b["steps"]) and any(s["op"] == "register_grpc" for s in b["steps"]))
    neg = vlib.tlc_mc("Registry.tla", "MC_Registry_defect_echo.cfg", expect_violation="EchoKeepsEphemeral", name="c12_neg_echo")
    c.add_negative_control("Registry where the applied removal of a persistent address deletes the instance that is ephemeral by "
                           "now (code before fix 800aa34) violates EchoKeepsEphemeral", neg["violated"])
    # ---- front door: handler-derived update tags and the replicated echo, through the real HTTP routes and gRPC connections
    front_common.run_front_naming(c, sc, quick)
    c.sample({"behaviour_ops": [(s["op"], s.get("s"), s.get("a"), s.get("client") or s.get("new", {}).get("cl")) for s in beh[0]["steps"]]})
    c.assumptions += [
        "query = NamingCmd::QueryList (healthy-only and not) and QueryAllInstanceList after every step; the protection "
        "threshold is the default 0 (all enabled instances are returned when none of them is healthy)",
        "connection end = NamingCmd::RemoveClient, as BiStreamManage sends it",
    ]
    shutil.rmtree(sc, ignore_errors=True)
    return c.finish(
        rule="behaviours = kind-first TLC simulation of Registry.tla biased to connections (3 gRPC connections "
             "re-registering each other's addresses, HTTP over gRPC, deregistration with matching / foreign / empty client "
             "ids, disconnects) replayed on a real NamingActor; after EVERY step the instance queries are compared with "
             "QueryOf of the spec state, returned instances must carry the registered flags and weight, and the whole "
             "state (so: exactly the disconnecting client's ephemeral instances disappear) with the spec; "
             "PLUS the front-door leg: behaviours over the client-visible operations with the update tag each handler derives "
             "and the replicated echo of persistent instances (SimRegistryFront.tla), executed through the real HTTP routes "
             "and real gRPC connections of a single-member Raft node, instance queries over HTTP and gRPC compared after every "
             "step; non-trivial = contains a gRPC registration and a disconnect (or a persistent -> ephemeral flip)",
        checker_cmd="tools/vcheck C12 --tier %s" % tier)


def replay(path):
    print(json.dumps(json.load(open(path)), indent=1))
    return 0
