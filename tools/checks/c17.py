"""C17 - console: every API needs a login session; roles cannot exceed their grants."""
import json
import os
import shutil

import vlib
from vlib import Check, ToolError
from checks import authz_common as ac


def run(tier):
    c = Check("C17", tier)
    quick = tier != "thorough"
    vlib.build_harness()
    sc = vlib.scratch("c17")
    inv = ac.inventory()
    console = [p for p in inv["console"] if "{" not in p]
    api = [p for p in console if p.startswith("/rnacos/api/console")]
    if len(api) < 60:
        raise ToolError("console route inventory too small: %d" % len(api))
    rf = os.path.join(sc, "routes.ndjson")
    n_routes = ac.write_routes(rf, console, with_spellings=True)
    # GEN: TLC enumerates route x spelling x method, one request group (all credentials) each
    out, st = ac.tlc_authz("gen17", {"ROUTES": rf, "OBS": rf}, "c17_gen")
    c.add_mc(dict(st, depth=2, wall_s=0, actions={}))
    groups = vlib.parse_replay_lines(out)
    if len(groups) != n_routes * 4:
        raise ToolError("TLC enumerated %d request groups, expected %d" % (len(groups), n_routes * 4))
    gf = vlib.write_ndjson(os.path.join(sc, "groups.ndjson"), groups)
    res = vlib.harness(["authz", "c17", gf], timeout=1800)
    obs = [r for r in res if r.get("kind") == "obs"]
    if len(obs) != len(groups):
        raise ToolError("harness answered %d of %d request groups" % (len(obs), len(groups)))
    of = vlib.write_ndjson(os.path.join(sc, "obs.ndjson"), obs)
    # CHECK: the requirements evaluated by TLC on every observation
    out, st2 = ac.tlc_authz("chk17", {"ROUTES": rf, "OBS": of}, "c17_chk")
    c.add_mc(dict(st2, depth=2, wall_s=0, actions={}))
    fails = ac.failed_requirements(out)
    for req, i in fails:
        o = obs[i - 1]
        c.violation("C17:%s@%s:%s:%s" % (req, o["method"], o["canon"], o["spelling"]),
                    "console requirement %s fails for %s %s (%s): decisions %s" % (req, o["method"], o["path"], o["spelling"], json.dumps(o["d"])),
                    {"observation": o, "requirement": req})
    n_dec = sum(len(o["d"]) for o in obs)
    handled = [o for o in obs if any(v == "handled" for v in o["d"].values())]
    c.count(n_dec, [{"p": o["path"], "m": o["method"]} for o in handled])
    c.traces(len(obs))
    # vacuity gates: the classification must hit real routes, and valid sessions must reach handlers
    def cls(o, pred):
        return pred(o)
    usermgmt = [o for o in obs if o["spelling"] == "canonical" and "user" in o["segs"] and o["segs"][-1] in ("list", "add", "update", "remove")]
    transfer = [o for o in obs if o["spelling"] == "canonical" and "transfer" in o["segs"]]
    if not usermgmt or not transfer:
        raise ToolError("classification is vacuous: userMgmt=%d transfer=%d" % (len(usermgmt), len(transfer)))
    if not any(o["d"].get("manager") == "handled" for o in usermgmt) or not any(o["d"].get("manager") == "handled" for o in transfer):
        raise ToolError("manager reaches no user-management / transfer route: sessions are not effective, check is vacuous")
    if not any(o["d"].get("visitor") == "handled" for o in obs):
        raise ToolError("visitor reaches nothing: check is vacuous")
    c.cov["routes"] = len(console)
    c.cov["api_routes"] = len(api)
    c.cov["request_groups"] = len(groups)
    c.cov["decisions"] = n_dec
    c.cov["handled_groups"] = len(handled)
    c.sample({"observation": next(o for o in obs if o["canon"].endswith("/v2/user/list") and o["method"] == "GET" and o["spelling"] == "canonical")})
    c.sample({"variant_observation": next(o for o in obs if o["spelling"] == "pct_encoded" and o["method"] == "GET")})
    c.assumptions += [
        "route inventory = ResourceMap of an App built with the real console_config; dynamic page routes ({_:.*}) serve the "
        "static UI shell and are not API calls",
        "sessions are placed in the session cache directly (the login flow itself belongs to the user module); the "
        "middleware, role tables and routing are the real ones (in-process actix test service)",
        "'handled' = the request got past the middleware to a route (any status but 404/405, no No-Login / No-Permission mark)",
    ]
    shutil.rmtree(sc, ignore_errors=True)
    return c.finish(
        rule="complete product: every registered console route (from the running app) x 8 spellings x {GET,POST,PUT,DELETE} "
             "x 11 credentials (no / garbage / expired session; manager, developer, visitor, unknown role - '9' and seven look-alikes such as '00', '+1', ' 0' in turn -, role sets, no "
             "roles) executed on the real app with the real CheckLogin middleware; TLC evaluates LoginRequired, "
             "VisitorReadOnly, DeveloperLimits, Monotone, RoleSetIsUnion, VariantNotLooser on every observation; "
             "distinct non-trivial = request groups that reach a handler for at least one credential",
        exhaustive=True,
        checker_cmd="tools/vcheck C17 --tier %s" % tier)


def replay(path):
    print(json.dumps(json.load(open(path)), indent=1))
    return 0
