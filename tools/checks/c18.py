"""C18 - namespace-scoped users never see or change data outside their namespaces."""
import json
import os
import shutil

import vlib
from vlib import Check, ToolError
from checks import authz_common as ac

V1 = "/rnacos/api/console"
V2 = "/rnacos/api/console/v2"
LABEL = {"": "pub", "nsA": "nsA", "nsB": "nsB"}
NSID = {"pub": "", "nsA": "nsA", "nsB": "nsB"}

# endpoint table: how a namespace is named (query / json / form parameter), what is read or changed
# {did} = data id of the seeded config of the addressed namespace, {svc} = its seeded service
ENDPOINTS = [
    dict(endpoint="v2.config.list", method="GET", path=V2 + "/config/list", op="list", nsparam="tenant", query={"pageNo": "1", "pageSize": "100"}),
    dict(endpoint="v2.config.info", method="GET", path=V2 + "/config/info", op="read", nsparam="tenant", query={"group": "g", "dataId": "{did}"}),
    dict(endpoint="v2.config.history", method="GET", path=V2 + "/config/history", op="read", nsparam="tenant", query={"group": "g", "dataId": "{did}", "pageNo": "1", "pageSize": "10"}),
    dict(endpoint="v2.config.download", method="GET", path=V2 + "/config/download", op="read", nsparam="tenant", query={}),
    dict(endpoint="v2.config.add", method="POST", path=V2 + "/config/add", op="write", nsparam="tenant", json={"group": "g", "dataId": "new1", "content": "W"}),
    dict(endpoint="v2.config.update", method="POST", path=V2 + "/config/update", op="write", nsparam="tenant", json={"group": "g", "dataId": "{did}", "content": "W"}),
    dict(endpoint="v2.config.remove", method="POST", path=V2 + "/config/remove", op="write", nsparam="tenant", json={"group": "g", "dataId": "{did}"}),
    dict(endpoint="v1.configs.list", method="GET", path=V1 + "/configs", op="list", nsparam="tenant", query={"pageNo": "1", "pageSize": "100"}),
    dict(endpoint="v1.cs.configs.get", method="GET", path=V1 + "/cs/configs", op="read", nsparam="tenant", query={"group": "g", "dataId": "{did}"}),
    dict(endpoint="v1.cs.configs.post", method="POST", path=V1 + "/cs/configs", op="write", nsparam="tenant", form={"group": "g", "dataId": "new1", "content": "W"}),
    dict(endpoint="v1.cs.configs.delete", method="DELETE", path=V1 + "/cs/configs", op="write", nsparam="tenant", query={"group": "g", "dataId": "{did}"}),
    dict(endpoint="v1.config.history", method="GET", path=V1 + "/config/history", op="read", nsparam="tenant", query={"group": "g", "dataId": "{did}", "pageNo": "1", "pageSize": "10"}),
    dict(endpoint="v1.config.download", method="GET", path=V1 + "/config/download", op="read", nsparam="tenant", query={}),
    # download by keys: the namespace is named inside every key of the JSON list
    dict(endpoint="v2.config.download.bykeys", method="POST", path=V2 + "/config/download", op="read", nsparam="tenant", json_list={"group": "g", "dataId": "{did}"}),
    dict(endpoint="v1.config.download.bykeys", method="POST", path=V1 + "/config/download", op="read", nsparam="tenant", json_list={"group": "g", "dataId": "{did}"}),
    # ... and a key list that MIXES namespaces: the addressed namespace's key first, then one key of each other namespace
    # (a request is refused as a whole or answers with the permitted keys only - never with a key of a forbidden namespace)
    dict(endpoint="v2.config.download.bykeys.mixed", method="POST", path=V2 + "/config/download", op="read_mixed", nsparam="tenant", json_list={"group": "g", "dataId": "{did}"}, mixed=True),
    dict(endpoint="v1.config.download.bykeys.mixed", method="POST", path=V1 + "/config/download", op="read_mixed", nsparam="tenant", json_list={"group": "g", "dataId": "{did}"}, mixed=True),
    # import of an archive (the public namespace's config): the target namespace is named by the `tenant` HEADER;
    # a `tenant` field of the upload form must not lead anywhere else
    dict(endpoint="v2.config.import.header", method="POST", path=V2 + "/config/import", op="write", nsparam="tenant", nsheader=True, multipart={}),
    dict(endpoint="v1.config.import.header", method="POST", path=V1 + "/config/import", op="write", nsparam="tenant", nsheader=True, multipart={}),
    dict(endpoint="v2.config.import.form", method="POST", path=V2 + "/config/import", op="write", nsparam="tenant", nsform=True, multipart={}),
    dict(endpoint="v1.config.import.form", method="POST", path=V1 + "/config/import", op="write", nsparam="tenant", nsform=True, multipart={}),
    dict(endpoint="v2.service.list", method="GET", path=V2 + "/service/list", op="list", nsparam="namespaceId", query={"pageNo": "1", "pageSize": "100"}),
    dict(endpoint="v2.instance.list", method="GET", path=V2 + "/instance/list", op="read", nsparam="namespaceId", query={"serviceName": "{svc}", "groupName": "DEFAULT_GROUP"}),
    dict(endpoint="v2.instance.add", method="POST", path=V2 + "/instance/add", op="write", nsparam="namespaceId", json={"serviceName": "{svc}", "groupName": "DEFAULT_GROUP", "ip": "10.7.7.7", "port": 7777, "ephemeral": True}),
    dict(endpoint="v2.service.add", method="POST", path=V2 + "/service/add", op="write", nsparam="namespaceId", json={"serviceName": "svc-new", "groupName": "DEFAULT_GROUP"}),
    dict(endpoint="v1.ns.services", method="GET", path=V1 + "/ns/services", op="list", nsparam="namespaceId", query={"pageNo": "1", "pageSize": "100"}),
    dict(endpoint="v1.instances", method="GET", path=V1 + "/instances", op="read", nsparam="namespaceId", query={"serviceName": "{svc}", "groupName": "DEFAULT_GROUP"}),
    dict(endpoint="v2.instance.info", method="GET", path=V2 + "/instance/info", op="read", nsparam="namespaceId", query={"serviceName": "{svc}", "groupName": "DEFAULT_GROUP", "ip": "{ip}", "port": "8080"}),
    dict(endpoint="v2.instance.update", method="POST", path=V2 + "/instance/update", op="write", nsparam="namespaceId", json={"serviceName": "{svc}", "groupName": "DEFAULT_GROUP", "ip": "{ip}", "port": 8080, "weight": 2.0, "enabled": True, "ephemeral": True}),
    dict(endpoint="v2.instance.remove", method="POST", path=V2 + "/instance/remove", op="write", nsparam="namespaceId", json={"serviceName": "{svc}", "groupName": "DEFAULT_GROUP", "ip": "{ip}", "port": 8080, "ephemeral": True}),
    dict(endpoint="v1.ns.instance.get", method="GET", path=V1 + "/ns/instance", op="read", nsparam="namespaceId", query={"serviceName": "{svc}", "groupName": "DEFAULT_GROUP", "ip": "{ip}", "port": "8080"}),
    dict(endpoint="v1.ns.instance.post", method="POST", path=V1 + "/ns/instance", op="write", nsparam="namespaceId", form={"serviceName": "{svc}", "groupName": "DEFAULT_GROUP", "ip": "{ip}", "port": "8080", "weight": "2", "ephemeral": "true"}),
    dict(endpoint="v1.ns.instance.delete", method="DELETE", path=V1 + "/ns/instance", op="write", nsparam="namespaceId", query={"serviceName": "{svc}", "groupName": "DEFAULT_GROUP", "ip": "{ip}", "port": "8080", "ephemeral": "true"}),
    dict(endpoint="v1.ns.service.get", method="GET", path=V1 + "/ns/service", op="read", nsparam="namespaceId", query={"serviceName": "{svc}", "groupName": "DEFAULT_GROUP"}),
    dict(endpoint="v2.mcp.toolspec.list", method="GET", path=V2 + "/mcp/toolspec/list", op="list", nsparam="namespaceId", query={"pageNo": "1", "pageSize": "100"}),
    dict(endpoint="v2.mcp.toolspec.info", method="GET", path=V2 + "/mcp/toolspec/info", op="read", nsparam="namespace", query={"group": "{grp}", "toolName": "t1"}),
    dict(endpoint="v2.mcp.toolspec.add", method="POST", path=V2 + "/mcp/toolspec/add", op="write", nsparam="namespace", json={"group": "{grp}", "toolName": "tnew"}),
    dict(endpoint="v2.mcp.toolspec.remove", method="POST", path=V2 + "/mcp/toolspec/remove", op="write", nsparam="namespace", json={"group": "{grp}", "toolName": "t1"}),
    dict(endpoint="v1.namespaces.list", method="GET", path=V1 + "/namespaces", op="nslist", nsparam=None, query={}),
    dict(endpoint="v2.namespaces.list", method="GET", path=V2 + "/namespaces/list", op="nslist", nsparam=None, query={}),
    dict(endpoint="v2.namespaces.update", method="POST", path=V2 + "/namespaces/update", op="write", nsparam="namespaceId", json={"namespaceName": "renamed"}),
    dict(endpoint="v2.namespaces.remove", method="POST", path=V2 + "/namespaces/remove", op="write", nsparam="namespaceId", json={}),
]


def allowed(priv, ns):
    wl = priv["wl_all"] or ns in priv["wl"]
    bl = priv["bl_all"] or ns in priv["bl"]
    return wl and not bl


def instantiate(ep, combo, i):
    ns, spelling = combo["ns"], combo["spelling"]
    did = "d1-MARK-%s" % LABEL[ns]
    svc = "svc-MARK-%s" % LABEL[ns]
    ip = {"pub": "10.9.9.1", "nsA": "10.9.9.2", "nsB": "10.9.9.3"}[LABEL[ns]]

    def fill(d):
        return {k: (v.replace("{did}", did).replace("{svc}", svc).replace("{ip}", ip).replace("{grp}", "g-MARK-%s" % LABEL[ns]) if isinstance(v, str) else v) for k, v in (d or {}).items()}
    r = dict(id=i, endpoint=ep["endpoint"], method=ep["method"], path=ep["path"], op=ep["op"], ns=ns, spelling=spelling, priv=combo["priv"])
    q, j, f = fill(ep.get("query")), (fill(ep["json"]) if "json" in ep else None), (fill(ep["form"]) if "form" in ep else None)
    nsval = {"explicit": ns, "omitted": None, "empty": "", "public": "public"}[spelling]
    if "json_list" in ep:
        item = fill(ep["json_list"])
        if nsval is not None:
            item[ep["nsparam"]] = nsval
        items = [item]
        if ep.get("mixed"):
            for other in ("", "nsA", "nsB"):
                if other != ns:
                    items.append({"group": "g", "dataId": "d1-MARK-%s" % LABEL[other], ep["nsparam"]: other})
        r["query"], r["json"], r["form"] = q, items, None
        return r
    if "multipart" in ep:
        r["multipart"], r["headers"] = {}, {}
        if nsval is not None:
            if ep.get("nsheader"):
                r["headers"][ep["nsparam"]] = nsval
            else:
                r["multipart"][ep["nsparam"]] = nsval
        r["query"], r["json"], r["form"] = q, None, None
        return r
    if ep["nsparam"] and nsval is not None:
        if j is not None:
            j[ep["nsparam"]] = nsval
        elif f is not None:
            f[ep["nsparam"]] = nsval
        else:
            q[ep["nsparam"]] = nsval
    r["query"], r["json"], r["form"] = q, j, f
    return r


def run(tier):
    c = Check("C18", tier)
    vlib.build_harness()
    sc = vlib.scratch("c18")
    inv = ac.inventory()
    console = set(inv["console"])
    for ep in ENDPOINTS:
        if ep["path"] not in console:
            raise ToolError("endpoint table out of date: %s is not a registered console route" % ep["path"])
    data_routes = [p for p in console if any(x in p for x in ("/config", "/cs/", "/ns/", "/service", "/instance", "/namespaces", "/mcp/"))]
    rf = os.path.join(sc, "endpoints.ndjson")
    vlib.write_ndjson(rf, [{"endpoint": e["endpoint"]} for e in ENDPOINTS])
    out, st = ac.tlc_authz("gen18", {"ROUTES": rf, "OBS": rf}, "c18_gen")
    c.add_mc(dict(st, depth=2, wall_s=0, actions={}))
    combos = vlib.parse_replay_lines(out)
    if len(combos) != len(ENDPOINTS) * 25 * 5:
        raise ToolError("TLC enumerated %d combinations, expected %d" % (len(combos), len(ENDPOINTS) * 125))
    by_ep = {e["endpoint"]: e for e in ENDPOINTS}
    reqs = []
    for i, cb in enumerate(combos):
        ep = by_ep[cb["endpoint"]]
        if ep["nsparam"] is None and not (cb["ns"] == "" and cb["spelling"] == "omitted"):
            continue            # the namespace listing takes no namespace
        reqs.append(instantiate(ep, cb, len(reqs)))
    qf = vlib.write_ndjson(os.path.join(sc, "reqs.ndjson"), reqs)
    res = vlib.harness(["authz", "c18", qf], timeout=3000)
    raw = [r for r in res if r.get("kind") == "obs"]
    if len(raw) != len(reqs):
        raise ToolError("harness answered %d of %d requests" % (len(raw), len(reqs)))
    obs = []
    for o in raw:
        p = o["priv"]
        foreign = [l for l in o["seen"] if not allowed(p, NSID[l])]
        # what leaks: data of a namespace the user may not access appearing in the answer
        leaked = bool(foreign)
        ns = o["ns"]
        if o["op"] == "nslist":
            # the listing itself is judged per listed namespace; address it as "every namespace": use a foreign one if leaked
            ns = NSID[foreign[0]] if foreign else next((n for n in ("", "nsA", "nsB") if allowed(p, n)), "")
        obs.append(dict(endpoint=o["endpoint"], op=o["op"], ns=ns, spelling=o["spelling"], priv=p, d=o["d"],
                        changed=o["changed"], leaked=leaked, seen=o["seen"], status=o["status"], body=o["body"]))
    of = vlib.write_ndjson(os.path.join(sc, "obs.ndjson"), obs)
    out, st2 = ac.tlc_authz("chk18", {"ROUTES": rf, "OBS": of}, "c18_chk")
    c.add_mc(dict(st2, depth=2, wall_s=0, actions={}))
    for req, i in ac.failed_requirements(out):
        o = obs[i - 1]
        eff = "changed" if o["changed"] else ("leaked" if o["leaked"] else o["d"])
        c.violation("C18:%s@%s:%s" % (req, o["endpoint"], eff),
                    "namespace privilege requirement %s fails at %s (namespace %s spelled '%s', privilege %s): decision %s, "
                    "changed=%s, foreign data seen=%s" % (req, o["endpoint"], o["ns"], o["spelling"], json.dumps(o["priv"]), o["d"], o["changed"], o["seen"]),
                    {"observation": o, "requirement": req})
    c.count(len(obs), [{"e": o["endpoint"], "p": o["priv"], "ns": o["ns"], "sp": o["spelling"]} for o in obs if not allowed(o["priv"], o["ns"])])
    c.traces(len(obs))
    ok_writes = [o for o in obs if o["op"] == "write" and allowed(o["priv"], o["ns"]) and o["changed"]]
    ok_reads = [o for o in obs if o["op"] in ("read", "list") and allowed(o["priv"], o["ns"]) and o["seen"]]
    mixed_foreign = [o for o in obs if o["op"] == "read_mixed" and allowed(o["priv"], o["ns"]) and not all(allowed(o["priv"], n) for n in ("", "nsA", "nsB"))]
    c.cov["mixed_key_lists_with_a_permitted_and_a_forbidden_namespace"] = len(mixed_foreign)
    if len(mixed_foreign) < 20:
        raise ToolError("too few mixed key lists that combine a permitted and a forbidden namespace: %d" % len(mixed_foreign))
    if len(ok_writes) < 20 or len(ok_reads) < 20:
        raise ToolError("allowed requests do not work (%d effective writes, %d reads with data): check is vacuous" % (len(ok_writes), len(ok_reads)))
    c.cov["endpoints"] = len(ENDPOINTS)
    c.cov["console_data_routes_registered"] = len(data_routes)
    c.cov["console_data_routes_not_in_table"] = sorted(set(data_routes) - {e["path"] for e in ENDPOINTS})
    c.cov["requests"] = len(obs)
    c.cov["allowed_effective_writes"] = len(ok_writes)
    c.cov["allowed_reads_with_data"] = len(ok_reads)
    c.sample({"observation": next(o for o in obs if o["endpoint"] == "v2.config.info" and not allowed(o["priv"], o["ns"]))})
    c.assumptions += [
        "privilege groups with enabled = true only (the meaning of a disabled group is not fixed by the property)",
        "endpoint table (console data endpoints of both API versions) is written by hand in tools/checks/c18.py and "
        "cross-checked against the route inventory of the running app; data routes missing from the table are listed in "
        "coverage.console_data_routes_not_in_table (MCP and some v1 naming write routes are not driven yet)",
        "leak = the answer contains the seeded marker of a namespace the user may not access; change = the state digest "
        "(configs, namespaces, instances) differs after the request",
    ]
    shutil.rmtree(sc, ignore_errors=True)
    return c.finish(
        rule="complete product enumerated by TLC: the console data endpoints of the table (%d, incl. two key lists that mix namespaces) x 5 whitelist shapes x 5 blacklist shapes x 5 "
             "namespace spellings (explicit A / B, default namespace omitted / empty / 'public'), executed on the real console "
             "app of a single-member Raft node with seeded data in three namespaces; TLC evaluates NoForeignAccess, NeverLeaks and "
             "AllowedWorks on every observation; non-trivial = requests addressing a namespace the user may not access" % len(ENDPOINTS),
        exhaustive=True,
        checker_cmd="tools/vcheck C18 --tier %s" % tier)


def replay(path):
    print(json.dumps(json.load(open(path)), indent=1))
    return 0
