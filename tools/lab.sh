#!/bin/bash
# lab.sh <lab-name> <seeded-name|-> <tier> <ID> [<ID>...]
# Run checks against a seeded change WITHOUT touching /repo: a scratch worktree of /repo (with the change applied) and a
# copy of /verif's tracked files whose harness points at that worktree. Everything lives under /tmp/lab/<lab-name> and is
# removed afterwards (keep with KEEP=1). Only for testing the machinery; registered checks always run /verif against /repo.
set -u
LAB=/tmp/lab/$1; NAME=$2; TIER=$3; shift 3
rm -rf $LAB; mkdir -p $LAB
git -C /repo worktree prune
git -C /repo worktree add -q --detach $LAB/repo HEAD || exit 2
if [ "$NAME" != "-" ]; then git -C $LAB/repo apply /verif/seeded/$NAME/patch.diff || { echo "patch does not apply"; exit 2; }; fi
mkdir -p $LAB/verif
git -C /verif ls-files -z --cached --others --exclude-standard | (cd /verif && rsync -a --from0 --files-from=- . $LAB/verif/)
# uncommitted edits of tracked files travel too (rsync copied the working tree); new untracked tools are copied explicitly
sed -i "s#path = \"/repo\"#path = \"$LAB/repo\"#" $LAB/verif/harness/Cargo.toml
mkdir -p $LAB/verif/.build
# reuse compiled dependencies (registry crates); rnacos + rnverif are rebuilt from the lab worktree
if [ -d /verif/.build/target ]; then cp -a /verif/.build/target $LAB/verif/.build/target; fi
export VERIF_REPO=$LAB/repo
rc=0
for id in "$@"; do
  echo "=== $NAME vs $id ($TIER)"
  (cd $LAB/verif && tools/vcheck $id --tier $TIER > $LAB/$id.log 2>&1; echo "exit=$?" >> $LAB/$id.log)
  grep -E "^VIOLATION|^KNOWN|TOOL-ERROR|what:|exit=" $LAB/$id.log | cut -c1-500 | head -14
  mkdir -p /verif/.build/lablogs; cp $LAB/$id.log /verif/.build/lablogs/$NAME.$id.$TIER.log
done
if [ "${KEEP:-0}" != "1" ]; then git -C /repo worktree remove --force $LAB/repo; rm -rf $LAB; git -C /repo worktree prune; fi
