#!/usr/bin/env python3
"""Regenerate MANIFEST.json from the table below (kept in one place so it is always valid)."""
import json
import os
import subprocess

ROOT = os.path.dirname(os.path.dirname(os.path.abspath(__file__)))

CHECKS = {
    "C20": dict(
        engine="codec",
        technique="TLA+ spec Codec.tla/Varint.tla: TLC refinement check (impl-shaped reader vs abstract contract) + "
                  "TLC-generated behaviours replayed on the real MessageBufReader + trace validation of recorded runs",
        text="TLC checks exhaustively (small constants) that the transcription of MessageBufReader refines the "
             "abstract stream contract for every stream/chunking/call order; the contract is then bound to the code "
             "both ways: TLC-simulated behaviours are replayed on the real reader (1 and 128 bytes per cell) and "
             "seeded native-length traces of the real reader are validated by TLC; every stream is also written to a file and "
             "read back through the real FileMessageReader (nothing dropped at the end of the file); every base-128 digit pattern of "
             "length 1..10 is executed on the real varint writer/reader/size functions.",
        note="trusts TLC, the cell abstraction (uniform bytes per cell) and that consumers use the reader through "
             "append/next/is_empty only; model constants are small, native sizes are covered by sampling (TV leg)",
        design_ref="5 C20"),
}

CHECKS["C02"] = dict(
    engine="raftlog",
    technique="TLA+ contract RaftLog.tla (TLC: invariants + ReopenIdentity/TruncateExact action properties), "
              "TLC-simulated behaviours replayed on the real LogInnerManager and on FileStore (mini node, reopen = new "
              "process), recorded native-size histories validated by TLC (Trace_RaftLog)",
    text="The abstract log contract is model-checked; conformance both ways: after every step of every TLC-generated "
         "behaviour the complete readable log, sub-range reads, end index and last (index, term) of the real code are "
         "compared with the contract - on one log file with index intervals 2/3/4/128 injected through the file header "
         "and record sizes in 64/128-byte units (record ends meet 1024-byte read chunks, 2- and 3-byte index deltas), "
         "and on the multi-file store with compaction pointers across real process restarts; seeded native-size "
         "histories of the real file are validated by TLC against the same contract. One combination uses a unit of 100 000 bytes: records of up to 3.3 MB (larger than the file's growth step and than one read of a file returns).",
    note="clean stop only (crash points are C04); index-area rollover (173k+ records) only in thorough tier; "
         "trusts TLC, harness projection (payload id embedded in the payload bytes)",
    design_ref="5 C02")
CHECKS["C03"] = dict(
    engine="raftlog",
    technique="TLA+ contract RaftLog.tla (TruncateExact action property), truncation-biased TLC behaviours replayed on "
              "LogInnerManager and FileStore before and after reopen, trace validation of recorded histories",
    text="Same machinery as C02 with the truncation-biased next-state relation SpecTrunc: every cut point, re-append "
         "of shorter/equal/longer entries, reopen; shapes: one file, pointer file + file (after two compactions). One combination uses a unit of 100 000 bytes: records of up to 3.3 MB.",
    note="truncation across a rolled-over (closed) data file needs a 173k-record file and is only reached in the "
         "thorough tier; clean stop only",
    design_ref="5 C03")

CHECKS["C05"] = dict(
    engine="raftmeta",
    technique="TLA+ spec RaftMeta.tla (abstract record + file-length/start-up rule layer; TLC: Durable, NoVoteRegress), "
              "complete enumeration of short behaviours + TLC simulation (plain and kind-first, SimRaftMeta.tla) replayed on "
              "FileStore on a mini node across process restarts",
    text="TLC checks that the index-file design (one record rewritten in place, file never shrinks, start-up rule) keeps "
         "term/vote/membership/addresses across Reopen for every interleaving of the six writers; the pre-fix start-up "
         "rule (<= 20 bytes = new) is kept as a negative control that must fail. Every length-3 behaviour of a small "
         "alphabet plus simulated longer ones (kind-first: real compactions and reopens as frequent as saves, sequences with a "
         "membership / address change between two compactions first) are replayed on the real store; get_initial_state, "
         "get_membership_config and get_target_addr are compared after every step, reopen = new OS process. Also every length-4 sequence with exactly ONE write of the file between two restarts (ThinSingleWrite, exported from the complete graph).",
    note="clean stop only; the local node is never a member so the dormant Raft core writes nothing; "
         "rollover-driven catalogue rewrites are represented by first-file creation and compaction",
    design_ref="5 C05")

CHECKS["C01"] = dict(
    engine="statemachine",
    technique="TLA+ spec StateMachine.tla (reference apply semantics + snapshot/replay persistence; TLC: LiveIsFold, "
              "SnapshotsExact, RestartExact, ImportRebuildsAll; four Defect_* negative controls), kind-first TLC "
              "simulation over three alphabets + thin MCP cases exported from the complete state graph of the small MCP model, "
              "replayed on a mini node across real process restarts; real export / import (every request kind an import sends) "
              "judged through restart and compaction; recorded random histories validated by TLC (Trace_StateMachine)",
    text="TLC checks that snapshot + log-suffix replay reproduces the fold of the applied requests for every placement of "
         "compactions, interrupted snapshot attempts and restarts, over ALL seven components (namespaces as a client is served "
         "them: the user namespaces of the snapshot plus the namespaces in use by a configuration or by a persistent instance - "
         "ListedNs, with a config key inside a user namespace and a persistent instance in a namespace of its own in the "
         "simulation; namespace Set / Update / Delete; configs with type / description / "
         "history, namespaces, users, sequences, persistent instances, replicated cache, MCP tool specs and servers with the "
         "derived reference semantics); named deviations (stale snapshot tail, non-atomic capture, two MCP bookkeeping "
         "deviations) are negative controls. Generated behaviours are executed on the real node wiring: after every step the "
         "served state is compared with the spec, and at every restart the full dump with the dump taken before the stop. Behaviours that publish the content named c before a compaction are replayed a second time with c as a text of 3.3 MB.",
    note="clean stop only; compaction is not run concurrently with applies; cache entries with a TTL and more than ten "
         "publishes per MCP server are not driven; trusts the dump (public query messages + two read-only hooks: sequence "
         "counters, registry dump)",
    design_ref="5 C01")
CHECKS["C04"] = dict(
    engine="crashstore",
    technique="TLA+ module CrashOrder.tla: one action per file mutation with the store's write-order discipline as guards, a "
              "crash anywhere, invariant Recoverable model-checked by TLC (three Defect_* negative controls); TLA+ module "
              "CrashStore.tla: operation histories (RaftLog.tla contract + hard state + membership) generated by TLC "
              "simulation and the crash contract; each history runs on a real node under a journal of its file mutations "
              "(strace): (1) the journal is validated by TLC against CrashOrder (Trace_CrashOrder.tla, catalogue records "
              "decoded with the store's own types), (2) the directory image of EVERY journal prefix is rebuilt and opened by "
              "the real start-up code and TLC evaluates the crash contract (Reopens, Contiguous, KeepsAcked, OnlySubmitted, "
              "MetaWritten, AppliedReproducible, LastIndexReadable) on every image, (3) every recovered image is USED the way "
              "Raft uses a store after a restart - appends behind the reported last index, kill, second start - and TLC "
              "evaluates UsableAfterRecovery (nothing of the first opening lost, exactly the new appends added, contiguous)",
    text="The design leg decides for every interleaving of mutations (small id sets) that the write order keeps the store "
         "recoverable at every crash point; the journal leg binds that order to the code; the image leg is exhaustive over "
         "the crash points of each executed history and sampled over histories.",
    note="crash model as in the property (process death, writes atomic and in program order); journal by strace, no source "
         "change; quick tier opens at most 90 images per history; a journal mutation the order model does not know is "
         "recorded as model drift (evidence) unless a Defect_* variant explains it, which is a violation; MetaWritten in the "
         "property's weak form; an append counts as acknowledged and flushed once the node answered it (the harness reads the "
         "entry back first, which waits for the store's pending file write)",
    design_ref="5 C04")
CHECKS["C06"] = dict(
    engine="configcluster",
    technique="TLA+ spec ConfigCluster.tla (routing, commit, answer, echo of routed publishes, apply, compaction, crash / "
              "restart, elections over an abstract committed log; invariants AckedCommitted, Converged; three Defect_* "
              "negative controls) model-checked by TLC for 3 nodes; (1) histories recorded on REAL three-node clusters under "
              "seeded fault schedules validated by TLC against the spec (Trace_ConfigCluster.tla, commits placed silently); "
              "(2) TLC-simulated behaviours projected on each node and replayed on real mini nodes (apply, echo, compaction, "
              "restart), served values compared with the spec after every step",
    text="Cluster histories: calls via any node, answers, SIGKILL / SIGSTOP faults and restarts, values served by every live "
         "node at quiescent points and after a final round of restarts (incl. a follower away during 29 acknowledged writes); "
         "trace validation decides whether some placement of "
         "the commits explains all answers and reads. Node-level replay decides the interaction of applies, echoes, snapshots "
         "and restarts for every order the model allows.",
    note="cluster nodes are mini-node processes with the real start-up wiring and real gRPC services; writes enter in turn "
         "through the node's real HTTP handler (in-process application), its real gRPC service and ConfigRoute; Raft "
         "is abstracted to one committed sequence; clients are sequential; a leader is only taken away at quiescent moments "
         "except in the dedicated scenarios; three findings are listed as known (two in async-raft-ext 0.6.3: commit without "
         "majority on the bootstrap leader, entries skipped at a leader change; one in ConfigActor: late echo overwrites)",
    design_ref="5 C06")
CHECKS["C07"] = dict(
    engine="statemachine",
    technique="TLA+ spec StateMachine.tla (ApplyReq reference semantics), TLC-generated request sequences and batch "
              "splits executed through leader apply, follower batch replication (plain and echoing), start-up replay and a "
              "restart from a snapshot midway on mini nodes, dumps compared pairwise and with the spec; the log entries of a real "
              "import pushed through the follower path; recorded leader traces validated by TLC",
    text="The decisive leg is conformance: the same committed sequence goes through FileStore::apply_entry_to_state_machine, "
         "replicate_to_state_machine (TLC-chosen splits, one big batch, random batches up to 40) and process start-up "
         "replay; all served-state dumps must be identical and equal to the spec's fold.",
    note="every ClientRequest kind except NodeAddr / Members (C05): config set (type, description; not given / given empty / "
         "given) / remove / full value, namespace set / update / delete, user table, sequences, persistent instances, cache, MCP "
         "tool specs and servers (incl. the import forms); ordering across different component actors on the follower path is "
         "fire-and-forget and compared only after quiescence",
    design_ref="5 C07")

CHECKS["C08"] = dict(
    engine="snapinstall",
    technique="TLA+ spec SnapInstall.tla (leader log / compaction / membership, entry replication, chunked snapshot stream "
              "with lost answers, repeated final chunk, follower crash and restart, stream abort, the follower's echo of a "
              "routed publish; invariants InstalledIntact and FollowerServesPrefix; six Defect_* negative controls) "
              "model-checked by TLC; TLC-simulated behaviours + thin cases exported from the complete state graph (install over "
              "an echoed value) replayed on a real leader node and a real follower node with hand-carried entries "
              "and chunks, the follower's served state and membership compared with the specification after every step "
              "and after a final restart",
    text="The model decides the design of the install protocol exhaustively for small constants (3-4 log entries, 2-3 "
         "chunks); conformance replays TLC schedules on two real nodes: FileStore::do_log_compaction / get_current_snapshot "
         "on the leader, create_snapshot / chunk writes / finalize_snapshot_installation, log appends and process restarts "
         "on the follower. Behaviours that publish the content named c before a completed install are replayed a second time with c as a text of 3.3 MB (snapshot records larger than one read of a file returns, megabyte chunks).",
    note="the follower-side chunk handler is a transcription of async-raft 0.6.3 core::install_snapshot running on the real "
         "FileStore (no network, no Raft core); chunk size chosen per snapshot instead of 3 MiB; a follower crash lets "
         "acknowledged writes reach the disk (C04's subject otherwise); two findings are listed as known (resumed install "
         "after a follower restart; deleted items surviving an install until restart)",
    design_ref="5 C08")

CHECKS["C09"] = dict(
    engine="configcenter",
    technique="TLA+ spec ConfigCenter.tla (store/listing/history semantics; TLC invariants on history, ListedIffCommitted), "
              "TLC-simulated publish/remove/import/echo behaviours replayed on a real ConfigActor with exhaustive page-window and filter sweeps "
              "after every step; front-door leg: behaviours over the client-visible operations (SimConfigFront.tla) replayed through the real "
              "HTTP routes and gRPC services of a single-member Raft node",
    text="The store semantics (last write wins, history one entry per content change bounded, import, remove) are "
         "model-checked; each generated behaviour is executed on the real actor and after every step every key's GET "
         "(content, md5 of the real content, type), its history in several windows and - per tenant and filter class - "
         "EVERY (offset, limit) page window is compared with the slice of the spec's ordered listing. Front door: the same "
         "specification is replayed through /nacos/v1/cs/configs (POST/PUT/DELETE/GET, accurate and blur search with page "
         "windows, the three spellings of the default namespace) and through ConfigPublish/Remove/QueryRequest over a real "
         "tonic connection; status, body, content-md5 header, content type, listing totals and items are compared after "
         "every step. A full-value import carries its history as listed, which need not end with its content (Import(k, v, hs)).",
    note="front-door leg on a single-member Raft node with sequential calls (the cluster side is C06); history ids are not "
         "visible through the open API and are compared at actor level only",
    design_ref="5 C09")
CHECKS["C10"] = dict(
    engine="configcenter",
    technique="TLA+ spec ConfigCenter.tla with listeners (TLC: NoStaleWaiter, ChangeNotifiesSubscribers action properties, "
              "AnsweredByDeadline), TLC-simulated interleavings of listen/subscribe/publish/remove/tick replayed on a real "
              "ConfigActor observing the long-poll receivers and the NotifyConfig hook events; front-door leg: the same behaviours "
              "through POST /cs/configs/listener (real long polls) and ConfigBatchListenRequest + the connection's bi-directional "
              "stream (real ConfigChangeNotifyRequest pushes) of a single-member Raft node",
    text="TLC explores every interleaving (small constants) of registrations with held md5s, publishes, removes, "
         "time-outs, subscriptions and disconnects; a broken wake-up rule is kept as negative control. Generated "
         "behaviours run on the real actor: after every step each long poll must be answered with exactly the changed "
         "keys or still be pending, as the spec says, and the emitted subscriber notifications must match. Front door: HTTP long "
         "polls are real pending requests of the in-process application (answered at once / by a later publish or remove "
         "made over HTTP or gRPC / by their time-out in one timed run), gRPC subscribers are real connections whose stream "
         "must receive exactly one ConfigChangeNotifyRequest per change of a listened key, naming that key. One timed run with a SLOW gRPC subscriber: 30 keys, an HTTP/2 window of 300 bytes, the stream not read while every key is published once - every key must be announced when the client resumes.",
    note="real-time deadlines with generous margins (see evidence assumptions); front-door long polls use no wait or 30 s, "
         "the expiry of a poll is one separate 10 s run",
    design_ref="5 C10")

_REG = ("TLA+ spec Registry.tla (transcription of the incremental bookkeeping of NamingActor/Service; TLC: CountsMatch, "
        "HealthyCountsMatch, PerpetualMatches, IndexedOnce, ClientSetSound/Complete, ArmedHealthy/Unhealthy, expiry action "
        "properties), kind-first TLC simulation replayed on a real NamingActor / Service")
CHECKS["C11"] = dict(
    engine="registry", technique=_REG + "; invariants re-evaluated on the real dump after every step",
    text="TLC checks the design of the incrementally maintained counters, sets and reverse maps over every interleaving of "
         "the ten code paths (small constants; the pre-fix ordering is a negative control that must fail). On the real "
         "actor the invariants are evaluated on a full dump after every step of every generated behaviour - independent of "
         "what the model predicts - and the dump is also compared with the spec state. A heart-beat carries the ephemeral flag as the request spells it (Beat(s, a, eph)): a beat that says ephemeral=false takes a connection-owned instance away from its connection.",
    note="stand-alone actor (no Raft router: the applied Raft entries about persistent instances - RaftEchoUpdate / "
         "RaftEchoRemove - are environment steps delivered as NamingRaftReq messages); dump through a read-only hook", design_ref="5 C11")
CHECKS["C12"] = dict(
    engine="registry", technique=_REG + "; instance queries compared with the spec's QueryOf after every step; front-door leg: "
              "behaviours over the client-visible operations with the handler-derived update tags and the replicated echo of "
              "persistent instances (SimRegistryFront.tla) replayed through the real HTTP routes and gRPC connections of a node",
    text="Connection-biased behaviours (re-registration by another connection, HTTP over gRPC, deregistration with matching "
         "and foreign client ids, disconnects in any order) run on the real actor; QueryList (healthy-only or not) and "
         "QueryAllInstanceList must return exactly the spec's sets, returned instances carry the registered flags, and after "
         "a disconnect exactly that connection's ephemeral instances are gone. Front door: registrations, weight updates, beats "
         "and deregistrations over /nacos/v1/ns/instance and over InstanceRequest on real tonic connections, connection "
         "closes, and the Raft entries a node writes for persistent instances (RaftEchoUpdate / RaftEchoRemove; the "
         "pre-fix removal of a re-registered address is a negative control); /instance/list and ServiceQueryRequest "
         "(all / healthy only) must return exactly the spec's instances with their flags and weight after every step.",
    note="front-door leg: single-member Raft node, sequential calls, no time passes inside a behaviour (expiry is C13), the TCP "
         "probe of persistent instances is off", design_ref="5 C12")
CHECKS["C13"] = dict(
    engine="registry", technique=_REG + " with a virtual clock (Service::time_check takes the thresholds) and with the real clock; "
              "timed observations of a real 3-node cluster evaluated by TLC against the requirements of ExpiryCluster.tla",
    text="TLC checks NeverExpireWhileBeating, NeverExpireGrpcOrPersistent, ExpiredAfterSweep and that every supervised "
         "instance is armed in a timeout queue, and - with the node's process range in the model (RefreshRange / take-over of a failed "
         "node's instances) - OwnedSupervised and OwnedExpiredAfterSweep; beat/silence/sweep/range-change behaviours run exactly on a real Service with a virtual "
         "clock and a subset on a real NamingActor in real time.  'Then everywhere': four HTTP instances of one service on a "
         "real three-node cluster stop beating (one registered before, three after the nodes' 15 s snapshot pull; two of "
         "them placed so that a removal and an unhealthy mark fall into one check tick); every node is sampled ~3 times per "
         "second and TLC evaluates OwnerNotEarly / OwnerInTime / Everywhere / NotBefore over the observed state changes; a fifth "
         "instance is registered through the real HTTP handler and keeps beating through PUT /instance/beat via changing nodes "
         "until the sampling ends - no node may ever report it unhealthy or missing (NeverWhileBeating); a second "
         "cluster run kills the node responsible for a fresh instance and requires the survivor that takes over to expire it. Many instances per service: 4 services x 3 500 silent HTTP instances (+ beating, connection-owned, persistent ones) on the real actor in real time, its own sweeps, requirements evaluated by TLC (ExpiryMany.tla).",
    note="H = 1, T = 3 ticks in generation; cluster leg: one schedule, time-outs 4 s / 9 s, lateness bound 6.5 s on the "
         "responsible node (the implementation adds 3 s to both time-outs and sweeps every 2 s), 3.5 s to reach the others",
    design_ref="5 C13")

CHECKS["C19"] = dict(
    engine="sequence",
    technique="TLA+ spec Sequence.tla (named-sequence range protocol with SeqGroup transcription; history-id stamping with "
              "batch marks, leader change, replay), TLC invariants Unique/Monotone/BelowCounter, trace validation of real "
              "SeqGroup protocol runs and of recorded id streams of a real single-member Raft node; SnapInstall.tla behaviours "
              "(sequence-biased) replayed on a real leader + follower node pair",
    text="TLC checks uniqueness and per-node monotonicity for 2 nodes with in-flight range requests, and for history ids "
         "across leader change and log replay (a skipped batch mark and out-of-order responses are negative controls). "
         "Bound to the code by (a) action-by-action validation of protocol runs on the real SeqGroup objects, where the "
         "spec re-computes every id, and (b) black-box validation of the ids a real node returns under concurrent "
         "requests, publish bursts crossing the 100-id batch, compactions and restarts, and (c) SnapInstall.tla behaviours over "
         "a sequence-biased alphabet replayed on a real leader node and a real follower node: a follower that already holds "
         "a counter is caught up by a snapshot installed into its RUNNING state machine and must end with the leader's "
         "next-free values (a lower value would be issued twice once that node leads). The import of the recorder runs while five ordinary publishes (keys of their own) are issued: their log entries land between the importer's.",
    note="one real Raft member for the id streams; the two-node install leg hand-carries entries and chunks (as C08); "
         "multi-node draws are model-level plus replicated-counter semantics "
         "(C07); response reordering inside the actor is a stated scheduling assumption",
    design_ref="5 C19")

CHECKS["C14"] = dict(
    engine="ownership",
    technique="TLA+ spec Ownership.tla; TLC enumerates the complete finite space (57 views x 60 residues) and every view is "
              "installed in real nodes (one process per live local id, genuine liveness check) where ownership and routing "
              "are compared with the abstract requirement; plus a real 3-node cluster (lowest node killed, genuine 15 s expiry) whose "
              "ownership and routing are judged before and after forwarded HTTP registrations",
    text="The space is finite: cluster sizes 1..5, every alive subset, every hash residue of lcm(1..5). TLC checks "
         "ExactlyOneOwner and RoutingAgrees on all of it (the two pre-fix formulas are negative controls), and every view "
         "is replayed on the real node wiring for every live local id: the registry actor's range, the node manager's "
         "range and route_addr for 60 keys. Cluster leg: three real node processes; node 1 is killed and expires on the others by "
         "the genuine liveness rule; 36 HTTP registrations (real handler) are sent to both survivors, each forwards part of them "
         "to the other over gRPC; the survivors' claims and routes for 12 keys must satisfy ExactlyOneOwner / RoutingAgrees "
         "and name the specification's owner before and after every round of traffic.",
    note="views installed through UpdateNodes/ActiveNode + an expiry hook that runs the real check_node_status; "
         "node ids are 1..n", design_ref="5 C14")

_AUTHZ = ("TLA+ module Authz.tla states the requirements over a syntactic route classification; TLC enumerates the complete "
          "request space from the route inventory of the RUNNING app (ResourceMap), the harness executes every request on the "
          "real app + middleware in-process, and TLC evaluates every requirement on every observed decision")
CHECKS["C15"] = dict(
    engine="distro",
    technique="TLA+ spec Distro.tla (owner-side register / deregister / connection close, delayed sync messages delivered in "
              "any order, client index, anti-entropy rounds with the unguarded removal, node death / notice / start) "
              "model-checked by TLC for the LIVENESS property Converges (<>[] all live nodes hold the owners' instances) "
              "under fairness, with a negative control (stale client index on sync: endless delete / re-fetch cycle); "
              "histories recorded on REAL three-node clusters with real gRPC client connections validated by TLC against "
              "the spec (Trace_Distro.tla)",
    text="The message-level model decides convergence for every interleaving of 3-4 operations with sync messages and "
         "anti-entropy rounds; the cluster leg runs take-over, update-then-deregister within one sync batch, node-death/rejoin "
         "and seeded random scenarios (gRPC connections and HTTP-style registrations, three weights) on real "
         "processes and compares what every live node returns after quiescence (and keeps returning) with the model. HTTP instances are compared with their weight; scenario beat_via_non_owner: heart-beats of weighted HTTP instances through every node in turn, HTTP reads judged in between without settling (THBeat, THRead).",
    note="gRPC connection-owned ephemeral instances of one service; an address is registered through one node at a time; "
         "HTTP-registered instances and heartbeat expiry are outside these scenarios (C13); quiescence = 29 s without "
         "operations (two anti-entropy intervals), dead nodes get 21 s to be noticed; TSettle in the trace spec is the "
         "converged state that the model-checked liveness property promises",
    design_ref="5 C15")
CHECKS["C16"] = dict(
    engine="authz", technique=_AUTHZ,
    text="Finite table property: every registered route of the main app x 8 spellings (6 path spellings, 2 query strings) x 4 methods x 5 token states x 5 "
         "carriers is executed with OpenAPI auth on; NoDataWithoutToken and ValidTokenPasses are evaluated on all "
         "observations; gRPC leg: every registered request type (+ ServerCheck + one unregistered name) x 2 carriers x 5 token "
         "states x 7 cluster-token states sent to the real tonic services over a channel with an established bi-stream; "
         "GrpcNoDataWithoutToken, ClusterNeedsClusterToken (+ the two 'valid passes' sanity rules) evaluated on all; restore "
         "leg: a real login with a 3 s token, compaction, new process on the same directory, the expired token must be refused; "
         "life-cycle leg: TokenLife.tla (TLC: RefusedAfterExpiry, negative control 'every use refreshes the remembered "
         "verification') and trace validation of one real token presented every 400 ms from the login until 6 s after its "
         "life time. For the table part TLA+ is the exhaustive case enumerator and requirement evaluator; the time axis is a "
         "temporal model.",
    note="table part: tokens are placed in the token cache directly (valid / expired); life-cycle and restore legs: real "
         "logins; gRPC services are wired as in main.rs (the binary's "
         "own wiring is not linked); one cluster-token value; auth-off and no-cluster-token configurations are outside the property",
    design_ref="5 C16")
CHECKS["C17"] = dict(
    engine="authz", technique=_AUTHZ,
    text="Finite table property: every registered console route x 8 spellings x 4 methods x 11 credentials (no / garbage / "
         "expired session, each role, role sets, unknown role) on the real console app with the real CheckLogin middleware; "
         "LoginRequired, VisitorReadOnly, DeveloperLimits, Monotone, RoleSetIsUnion, VariantNotLooser evaluated on all.",
    note="sessions are placed in the session cache directly; classification of routes (login / user management / transfer / "
         "data write) is syntactic and lives in Authz.tla; unknown future routes fall under LoginRequired, Monotone and "
         "RoleSetIsUnion only", design_ref="5 C17")

CHECKS["C18"] = dict(
    engine="authz", technique=_AUTHZ,
    text="Finite table property: 34 console data endpoints (both API versions: config list/info/history/download/add/update/"
         "remove, service list/get/add, instance list/info/add/update/remove, namespace list/update/remove, MCP tool spec "
         "list/info/add/remove) x 25 privilege shapes (white/black list: all, "
         "none, {A}, {default}, mixed) x 5 namespace spellings (A, B, default omitted / empty / 'public') executed as a "
         "logged-in user on the real console app of a single-member Raft node with seeded data in three namespaces; "
         "NoForeignAccess (nothing of a forbidden namespace in the answer, state digest unchanged) and AllowedWorks evaluated "
         "on every observation. Two endpoints send key lists that MIX namespaces (a permitted key first, then keys of the other namespaces); requirement NeverLeaks: no answer contains data of a namespace the user may not access, whatever namespace the request addresses.",
    note="endpoint table is hand-written and cross-checked against the route inventory; data routes not in the table are "
         "listed in the evidence (MCP, some v1 naming writes); an empty answer instead of a refusal is accepted (nothing "
         "leaks, nothing changes); privilege groups with enabled=true only; two of three privilege shapes use the session in its "
         "replicated / restored form (the Raft entry's JSON and the cache's snapshot encoding, decoded again), one the "
         "in-memory value of the login node", design_ref="5 C18")

NOT_YET = {}


def main():
    hooks = subprocess.run(["git", "-C", "/repo", "log", "--format=%H %s"], stdout=subprocess.PIPE, text=True).stdout
    hook_commits = [ln.split()[0] for ln in hooks.splitlines() if " verif_hooks:" in ln]
    checks = []
    for pid in sorted(CHECKS):
        c = CHECKS[pid]
        checks.append({
            "property_id": pid,
            "quick_cmd": "tools/vcheck %s --tier quick" % pid,
            "thorough_cmd": "tools/vcheck %s --tier thorough" % pid,
            "evidence_file": "/verif/evidence/%s.json" % pid,
            "replay_cmd_template": "tools/vcheck %s --replay {path}" % pid,
            "engine": c["engine"],
            "level_claimed": {"category": "model_checking", "text": c["text"], "design_ref": c["design_ref"]},
            "level_note": c["note"],
            "technique": c["technique"],
        })
    props = [json.loads(l)["id"] for l in open(os.path.join(ROOT, "properties.jsonl"))]
    na = [{"property_id": p, "reason": NOT_YET.get(p, "check not built yet in this session (planned, see DESIGN.md 5); "
                                                     "not claimed until its TLA+ spec and conformance leg exist")}
          for p in props if p not in CHECKS]
    m = {
        "version": 1,
        "setup_cmd": "cd /verif/harness && cargo build --offline && cargo build --offline --manifest-path /repo/Cargo.toml "
                     "--bin rnacos --features verif_hooks --target-dir /verif/.build/target",
        "hooks": {
            "guard": "cargo feature verif_hooks",
            "enable": "harness depends on rnacos with features=[\"verif_hooks\"]; binary: cargo build --features verif_hooks",
            "baseline_off_cmd": "cd /repo && cargo test --workspace --no-fail-fast --offline",
            "source_commits": hook_commits,
            "add_only": True,
        },
        "engines": [
            {"name": "vcheck", "path": "/verif/tools/vcheck", "serves_properties": sorted(CHECKS),
             "kind_free_text": "python driver: cargo build of harness against /repo working tree, TLC model checking, "
                               "TLC simulation -> behaviour replay on real code, recorded traces -> TLC trace validation"},
            {"name": "rnverif", "path": "/verif/harness", "serves_properties": sorted(CHECKS),
             "kind_free_text": "Rust harness linking the real rnacos crate (feature verif_hooks)"},
            {"name": "spec", "path": "/verif/spec", "serves_properties": sorted(CHECKS),
             "kind_free_text": "TLA+ specification modules, MC/SIM/Trace configs"},
        ],
        "checks": checks,
        "not_applicable": na,
        "notes": "exit 0 held / 1 VIOLATION line / 2 tool error; known findings in /verif/known_findings.json",
    }
    with open(os.path.join(ROOT, "MANIFEST.json"), "w") as f:
        json.dump(m, f, indent=1)
    print("MANIFEST.json: %d checks, %d not_applicable" % (len(checks), len(na)))


if __name__ == "__main__":
    main()
