"""Crash images from a journal of file mutations (C04).

The journal is an strace log (-f -y -xx -s <big>) of a mini-node process.  Every openat / write / pwrite64 /
lseek / ftruncate / rename / unlink on a file below the data directory is one mutation, applied in the order
the system calls completed; writes to stdout (the node's acknowledgements) are kept as markers.  For every
prefix of the mutation sequence the directory image is materialised (identical images are produced once).
"""
import hashlib
import os
import re

_LINE = re.compile(r"^(\d+)\s+(.*)$")
_UNFIN = re.compile(r"^(\w+)\((.*) <unfinished \.\.\.>$")
_RESUMED = re.compile(r"^<\.\.\. (\w+) resumed>(.*)$")
_CALL = re.compile(r"^(\w+)\((.*)\)\s+=\s+(-?\d+)(.*)$")


def unhex(s):
    """strace -xx string body (without quotes) -> bytes"""
    out = bytearray()
    i = 0
    while i < len(s):
        if s[i] == "\\" and i + 3 < len(s) + 1 and s[i + 1] == "x":
            out.append(int(s[i + 2:i + 4], 16))
            i += 4
        else:
            out.append(ord(s[i]))
            i += 1
    return bytes(out)


def _fdpath(arg):
    m = re.match(r"^(-?\d+|AT_FDCWD)<(.*)>$", arg.strip())
    if not m:
        return arg.strip(), None
    return m.group(1), unhex(m.group(2)).decode("utf-8", "replace")


def _split_args(s):
    """split top-level comma separated args (strings are "..." with \\x escapes, no embedded quotes)"""
    args, cur, inq, depth = [], "", False, 0
    for ch in s:
        if ch == '"':
            inq = not inq
            cur += ch
        elif not inq and ch in "<":
            depth += 1
            cur += ch
        elif not inq and ch in ">":
            depth -= 1
            cur += ch
        elif ch == "," and not inq and depth == 0:
            args.append(cur.strip())
            cur = ""
        else:
            cur += ch
    if cur.strip():
        args.append(cur.strip())
    return args


def _str(arg):
    a = arg.strip()
    if a.endswith("..."):
        raise ValueError("string truncated by strace: raise -s")
    if a.startswith('"') and a.endswith('"'):
        return unhex(a[1:-1])
    return None


def parse(journal_path, data_dir):
    """-> list of events in completion order.  event = dict(kind=..., path=..., ...)"""
    data_dir = os.path.abspath(data_dir)
    pending = {}
    events = []
    fds = {}    # fd -> dict(path, off, append)

    def inside(p):
        return p is not None and os.path.abspath(p).startswith(data_dir + os.sep)

    def rel(p):
        return os.path.relpath(os.path.abspath(p), data_dir)

    with open(journal_path, errors="replace") as f:
        for raw in f:
            m = _LINE.match(raw.rstrip("\n"))
            if not m:
                continue
            pid, rest = m.group(1), m.group(2)
            if rest.startswith("+++") or rest.startswith("---"):
                continue
            mu = _UNFIN.match(rest)
            if mu:
                pending[pid] = (mu.group(1), mu.group(2))
                continue
            mr = _RESUMED.match(rest)
            if mr:
                if pid not in pending:
                    continue
                name, head = pending.pop(pid)
                rest = "%s(%s%s" % (name, head, mr.group(2))
            mc = _CALL.match(rest)
            if not mc:
                continue
            name, argstr, ret = mc.group(1), mc.group(2), int(mc.group(3))
            if ret < 0:
                continue
            tail = mc.group(4)
            args = _split_args(argstr)
            if name == "openat":
                path = _str(args[1]).decode("utf-8", "replace")
                if not inside(path):
                    continue
                flags = args[2]
                fds[ret] = dict(path=rel(path), off=0, append="O_APPEND" in flags)
                events.append(dict(kind="open", path=rel(path), create="O_CREAT" in flags, trunc="O_TRUNC" in flags))
            elif name == "close":
                fd, _p = _fdpath(args[0])
                fds.pop(int(fd), None) if fd.lstrip("-").isdigit() else None
            elif name in ("write", "pwrite64"):
                fd, p = _fdpath(args[0])
                if fd == "1":
                    events.append(dict(kind="stdout", text=_str(args[1]).decode("utf-8", "replace")))
                    continue
                if not fd.isdigit() or int(fd) not in fds:
                    continue
                st = fds[int(fd)]
                data = _str(args[1])[:ret]
                if name == "pwrite64":
                    off = int(args[3])
                    events.append(dict(kind="write", path=st["path"], off=off, data=data))
                else:
                    if st["append"]:
                        events.append(dict(kind="append", path=st["path"], data=data))
                    else:
                        events.append(dict(kind="write", path=st["path"], off=st["off"], data=data))
                        st["off"] += len(data)
            elif name == "lseek":
                fd, p = _fdpath(args[0])
                if fd.isdigit() and int(fd) in fds:
                    fds[int(fd)]["off"] = ret       # resulting offset
            elif name == "ftruncate":
                fd, p = _fdpath(args[0])
                if fd.isdigit() and int(fd) in fds:
                    events.append(dict(kind="truncate", path=fds[int(fd)]["path"], len=int(args[1])))
            elif name in ("rename", "renameat", "renameat2"):
                strs = [a for a in args if a.startswith('"')]
                a, b = (_str(strs[0]).decode(), _str(strs[1]).decode())
                if inside(a) and inside(b):
                    events.append(dict(kind="rename", path=rel(a), to=rel(b)))
                    for st in fds.values():
                        if st["path"] == rel(a):
                            st["path"] = rel(b)
            elif name in ("unlink", "unlinkat"):
                strs = [a for a in args if a.startswith('"')]
                a = _str(strs[0]).decode()
                if inside(a):
                    events.append(dict(kind="unlink", path=rel(a)))
            elif name in ("mkdir", "mkdirat"):
                strs = [a for a in args if a.startswith('"')]
                a = _str(strs[0]).decode()
                if inside(a):
                    events.append(dict(kind="mkdir", path=rel(a)))
    return events


MUTATIONS = ("open", "write", "append", "truncate", "rename", "unlink")


def apply_event(files, ev):
    k = ev["kind"]
    if k == "open":
        if ev["create"] and ev["path"] not in files:
            files[ev["path"]] = bytearray()
        if ev["trunc"] and ev["path"] in files:
            files[ev["path"]] = bytearray()
    elif k == "write":
        b = files.setdefault(ev["path"], bytearray())
        end = ev["off"] + len(ev["data"])
        if len(b) < end:
            b.extend(b"\0" * (end - len(b)))
        b[ev["off"]:end] = ev["data"]
    elif k == "append":
        files.setdefault(ev["path"], bytearray()).extend(ev["data"])
    elif k == "truncate":
        b = files.setdefault(ev["path"], bytearray())
        if len(b) > ev["len"]:
            del b[ev["len"]:]
        else:
            b.extend(b"\0" * (ev["len"] - len(b)))
    elif k == "rename":
        if ev["path"] in files:
            files[ev["to"]] = files.pop(ev["path"])
    elif k == "unlink":
        files.pop(ev["path"], None)


def is_store_file(path):
    """files of the Raft store: index, log_<n>, snapshot_<n> (top level of the data directory)"""
    return "/" not in path and (path == "index" or path.startswith("log_") or path.startswith("snapshot_"))


def images(events, only_store=True):
    """yield (k, files, acks) for every prefix that ends with a mutation of a store file; k = number of events
    applied; acks = stdout lines seen so far.  Identical consecutive images are skipped."""
    files = {}
    acks = []
    last = None
    for i, ev in enumerate(events):
        if ev["kind"] == "stdout":
            acks.extend([ln for ln in ev["text"].split("\n") if ln.strip()])
            continue
        if ev["kind"] not in MUTATIONS:
            continue
        apply_event(files, ev)
        if only_store and not is_store_file(ev.get("to", ev["path"])) and not is_store_file(ev["path"]):
            continue
        h = hashlib.sha1()
        for p in sorted(files):
            if is_store_file(p):
                h.update(p.encode())
                h.update(bytes(files[p]))
        d = h.hexdigest()
        if d == last:
            continue
        last = d
        yield i + 1, files, list(acks), ev


def materialise(files, outdir):
    os.makedirs(outdir, exist_ok=True)
    for p, b in files.items():
        if not is_store_file(p):
            continue
        with open(os.path.join(outdir, p), "wb") as f:
            f.write(bytes(b))


def order_events(events, decode):
    """journal -> one record per mutation of a store file, in the vocabulary of CrashOrder.tla.
    decode(list of bytes) -> list of decoded catalogue records (the store's own decoder)."""
    import re as _re
    out, cats = [], []
    exists = set()
    for ev in events:
        k = ev["kind"]
        if k not in MUTATIONS:
            continue
        p = ev["path"]
        if not is_store_file(p) and not is_store_file(ev.get("to", "")):
            continue
        if k == "rename" or (p == "index" and k == "unlink"):
            out.append({"ev": "other", "what": "%s %s" % (k, p)})
            continue
        if p == "index":
            if k == "open":
                continue
            if k == "truncate":
                out.append({"ev": "cat_truncate", "len": ev["len"]})
            elif k == "write" and ev["off"] == 0 and len(ev["data"]) == 8:
                out.append({"ev": "applied"})
            elif k == "write" and ev["off"] == 8:
                out.append({"ev": "cat", "_raw": len(cats)})
                cats.append(bytes(ev["data"]))
            else:
                out.append({"ev": "other", "what": "%s index off=%s len=%s" % (k, ev.get("off"), len(ev.get("data", b"")))})
            continue
        m = _re.match(r"^(log|snapshot)_(\d+)$", p)
        fid = int(m.group(2))
        if m.group(1) == "log":
            if k == "open":
                if ev["create"]:
                    out.append({"ev": "log_open", "id": fid})
            elif k == "truncate":
                out.append({"ev": "log_setlen", "id": fid})
            elif k == "write":
                out.append({"ev": "log_header" if ev["off"] == 0 else "log_data", "id": fid})
            elif k == "unlink":
                out.append({"ev": "log_unlink", "id": fid})
            else:
                out.append({"ev": "other", "what": "%s %s" % (k, p)})
        else:
            if k == "open":
                if ev["create"] and p not in exists:
                    exists.add(p)
                    out.append({"ev": "snap_create", "id": fid})
            elif k in ("write", "append"):
                out.append({"ev": "snap_write", "id": fid})
            elif k == "unlink":
                exists.discard(p)
                out.append({"ev": "snap_unlink", "id": fid})
            else:
                out.append({"ev": "other", "what": "%s %s" % (k, p)})
    dec = decode(cats) if cats else []
    for o in out:
        if o["ev"] == "cat":
            d = dec[o.pop("_raw")]
            if d.get("res") != "ok":
                o["ev"] = "other"
                o["what"] = "catalogue record does not decode: %s" % d.get("err")
            else:
                o["logs"] = [{"id": x["id"], "start": x["start"], "count": x["count"], "closed": x["closed"]} for x in d["logs"]]
                o["snaps"] = [{"id": x["id"], "end": x["end"]} for x in d["snaps"]]
    return out
