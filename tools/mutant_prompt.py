#!/usr/bin/env python3
"""Print the prompt handed to an independent sub-agent that seeds a property-breaking change.
Only the property text and a scratch worktree path are given - nothing from /verif."""
import json
import sys

pid = sys.argv[1].upper()
wt = sys.argv[2]
variant = sys.argv[3] if len(sys.argv) > 3 else ""
props = {json.loads(l)["id"]: json.loads(l) for l in open("/verif/properties.jsonl")}
p = props[pid]
print(f"""You are working on the open-source project nacos-group/r-nacos (a Rust re-implementation of the Nacos
service registry and config centre, with its own Raft log/snapshot file store). A scratch git worktree of the
repository is at {wt} - work ONLY inside that directory (never touch /repo or /verif, never read /verif).
The sandbox has no network: always use `cargo ... --offline`, and set CARGO_TARGET_DIR={wt}/target for every
cargo command so build output stays inside your worktree. Use at most 6 parallel jobs (`-j 6`).

Here is a semantic property that the code base is supposed to satisfy:

  Title: {p['title']}
  Statement: {p['statement']}
  Must hold: {p['quantifier']['text']}

Your task: produce ONE realistic change to the r-nacos source (the kind of mistake a maintainer could plausibly
make in a refactoring, optimisation or feature commit - not sabotage like deleting a function body) that BREAKS
this property, while
  (a) the crate still compiles (`cargo build --offline`),
  (b) the existing unit tests still pass exactly as before: run `cargo test --offline --lib -j 6` in the worktree
      root before and after; on the unchanged tree 36 tests pass and exactly one
      (`raft::filestore::raftlog::tests::write_index_equal_error_when_index_mismatch`) fails - that must stay the same,
  (c) the breakage needs something SPECIFIC to manifest - a particular interleaving, a crash/fault or restart at a
      particular point, a multi-step sequence of operations, an unusual input (size, boundary value, alignment),
      or two cooperating code sites that each look fine alone. It must NOT be exposed at once by ordinary use
      (e.g. a change that makes every write fail is useless).
{variant}
Also write a demonstration: a small Rust test (preferably a `#[cfg(test)]` test added in a NEW file or appended
test module, or an integration-style test under the crate) or a small program that FAILS with your change and
PASSES without it, and actually run it both ways to confirm (flip with `git apply` / `git apply -R`; do NOT use
`git stash` - the stash is shared with other worktrees of the same repository).

Deliverables - create the directory {wt}/OUT and put there:
  - patch.diff : `git diff` of ONLY the property-breaking source change (no demo code in it), applicable with
                 `git apply` on the current HEAD of the worktree;
  - demo.diff  : a separate diff that adds only the demonstration test/program;
  - meta.json  : {{"property": "{pid}", "summary": "...what was changed...", "needs": "...what specific condition
                 makes it manifest...", "demo_cmd": "exact command that runs the demonstration",
                 "demo_result_with_patch": "...", "demo_result_without_patch": "...",
                 "unit_tests_with_patch": "N passed, M failed"}}
When done, leave the worktree with BOTH diffs un-applied (clean `git status` apart from OUT/ and target/), and
reply with a short summary (what you changed, where, how it manifests, and the confirmed test results).
Read the relevant source carefully first; budget your time (aim to finish within about 45 minutes).""")
