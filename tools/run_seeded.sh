#!/bin/bash
# run_seeded.sh <seeded-name> <tier> <ID> [<ID>...] : apply a seeded change to /repo, run checks, undo.
# The evidence files are put back afterwards (evidence must describe runs on the unchanged tree).
NAME=$1; TIER=$2; shift 2
cd /repo && git status --short | grep -v '^??' | grep -q . && { echo "repo not clean"; exit 2; }
BK=$(mktemp -d /tmp/evidence_bk.XXXXXX)
cp -a /verif/evidence/. $BK/
git -C /repo apply /verif/seeded/$NAME/patch.diff || exit 2
for id in "$@"; do
  echo "=== $NAME vs $id ($TIER)"
  (cd /verif && tools/vcheck $id --tier $TIER 2>&1 | grep -E "VIOLATION|KNOWN|TOOL-ERROR|what:|\[vcheck\] C" | cut -c1-400 | head -12; echo "exit=${PIPESTATUS[0]}")
done
git -C /repo checkout -- .
git -C /repo status --short | grep -v '^??'
cp -a $BK/. /verif/evidence/ && rm -rf $BK
