#!/bin/bash
# run_seeded.sh <seeded-name> <tier> <ID> [<ID>...] : apply a seeded change to /repo, run checks, undo.
NAME=$1; TIER=$2; shift 2
cd /repo && git status --short | grep -v '^??' | grep -q . && { echo "repo not clean"; exit 2; }
git -C /repo apply /verif/seeded/$NAME/patch.diff || exit 2
for id in "$@"; do
  echo "=== $NAME vs $id ($TIER)"
  (cd /verif && tools/vcheck $id --tier $TIER 2>&1 | grep -E "VIOLATION|KNOWN|TOOL-ERROR|what:|\[vcheck\] C" | cut -c1-400 | head -12; echo "exit=${PIPESTATUS[0]}")
done
git -C /repo checkout -- .
git -C /repo status --short | grep -v '^??'
