#!/usr/bin/env python3
"""Prompt for a round-3 seeded change: property text + scratch worktree + one-line descriptions of the
earlier seeded changes of that property (so that the new one differs in location and mechanism)."""
import glob, json, subprocess, sys
pid = sys.argv[1].upper(); wt = sys.argv[2]
prev = []
for d in sorted(glob.glob(f"/verif/seeded/{pid}*")):
    m = json.load(open(d + "/meta.json"))
    s = m.get("summary", "")
    prev.append(s[:420].rsplit(" ", 1)[0] + " ...")
variant = ""
if prev:
    variant = ("\nEarlier contributors already produced the following changes for this property; yours must differ from ALL of them in\n"
               "location AND mechanism (different function, different kind of mistake, different trigger):\n" +
               "".join(f"  - {s}\n" for s in prev) +
               "Prefer parts of the code base behind this property that those changes did not touch (other request kinds, other\n"
               "entry points such as HTTP/gRPC handlers or cluster paths, other components, recovery/clean-up paths).\n")
print(subprocess.run([sys.executable, "/verif/tools/mutant_prompt.py", pid, wt, variant], capture_output=True, text=True).stdout)
