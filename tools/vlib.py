"""Shared machinery for /verif checks: build, TLC (MC / simulate / trace validation),
harness invocation, verdict bookkeeping, evidence files.

Exit codes of a check: 0 held (after KNOWN-FINDING lines), 1 VIOLATION (unlisted),
2 tool failure / timeout / vacuity.
"""
import hashlib
import json
import os
import re
import shutil
import subprocess
import sys
import time

ROOT = os.path.dirname(os.path.dirname(os.path.abspath(__file__)))
SPEC = os.path.join(ROOT, "spec")
BUILD = os.path.join(ROOT, ".build")
# the repository under test: /repo; a lab copy (tools/lab.sh, seeded changes only) names its own worktree
REPO = os.environ.get("VERIF_REPO", "/repo")
TLCDIR = os.path.join(BUILD, "tlc")
HARNESS_DIR = os.path.join(ROOT, "harness")
HARNESS = os.path.join(BUILD, "target", "debug", "rnverif")
RNACOS_BIN = os.path.join(BUILD, "target", "debug", "rnacos")
REPLAYS = os.path.join(ROOT, "replays")
EVIDENCE = os.path.join(ROOT, "evidence")
KNOWN = os.path.join(ROOT, "known_findings.json")


class CodePanic(Exception):
    """the code under test (a source file of the repository, not the harness) panicked while the harness drove it:
    that is an outcome of the code - the driver reports it as a violation with the command line as replay"""
    def __init__(self, where, message, cmd):
        Exception.__init__(self, "%s: %s" % (where, message))
        self.where, self.message, self.cmd = where, message, cmd


class ToolError(Exception):
    pass


def log(*a):
    print("[vcheck]", *a, file=sys.stderr, flush=True)


def seed_default():
    try:
        return int(os.environ.get("VERIF_SEED", "1"))
    except ValueError:
        return 1


def scratch(name):
    d = os.path.join(BUILD, "scratch", "%s_%d" % (name, os.getpid()))
    shutil.rmtree(d, ignore_errors=True)
    os.makedirs(d, exist_ok=True)
    return d


# ----------------------------------------------------------------------------- build

def build_harness(need_bin=False):
    """(Re)build the harness against /repo's current working tree (hooks on)."""
    t0 = time.time()
    env = dict(os.environ, CARGO_NET_OFFLINE="true")
    cmd = ["cargo", "build", "--offline"]
    r = subprocess.run(cmd, cwd=HARNESS_DIR, env=env, stdout=subprocess.PIPE,
                       stderr=subprocess.STDOUT, text=True)
    if r.returncode != 0:
        sys.stderr.write(r.stdout[-6000:])
        raise ToolError("cargo build of harness failed")
    if need_bin:
        r = subprocess.run(["cargo", "build", "--offline", "--manifest-path", os.path.join(REPO, "Cargo.toml"),
                            "--bin", "rnacos", "--features", "verif_hooks",
                            "--target-dir", os.path.join(BUILD, "target")],
                           cwd=HARNESS_DIR, env=env, stdout=subprocess.PIPE,
                           stderr=subprocess.STDOUT, text=True)
        if r.returncode != 0:
            sys.stderr.write(r.stdout[-6000:])
            raise ToolError("cargo build of rnacos binary failed")
    log("build ok in %.1fs" % (time.time() - t0))


def harness(args, timeout=600, env=None, stdin=None):
    """Run the harness; returns parsed ndjson lines of stdout."""
    e = dict(os.environ)
    e.setdefault("RUST_LOG", "off")
    if env:
        e.update(env)
    try:
        r = subprocess.run([HARNESS] + [str(a) for a in args], stdout=subprocess.PIPE,
                           stderr=subprocess.PIPE, text=True, timeout=timeout, env=e, input=stdin)
    except subprocess.TimeoutExpired:
        raise ToolError("harness timeout: %s" % " ".join(map(str, args)))
    out = []
    for line in r.stdout.splitlines():
        line = line.strip()
        if line.startswith("{"):
            try:
                out.append(json.loads(line))
            except ValueError:
                pass
    if r.returncode != 0:
        sys.stderr.write(r.stderr[-4000:])
        # only a panic on the driving (main) thread ends the process with status 101; the start-up race of a fresh
        # auto-init node (raftapply.rs, `data_wrap.unwrap()`, see DESIGN 0.3 "observation") is not an outcome of a step
        m = re.search(r"thread 'main'[^\n]*panicked at (\S+?):(\d+):\d+:\n(.*)", r.stderr) if r.returncode == 101 else None
        if m and os.path.realpath(m.group(1)).startswith(os.path.realpath(REPO) + "/src/") \
                and "called `Option::unwrap()` on a `None` value" not in m.group(3):
            raise CodePanic("%s:%s" % (os.path.relpath(os.path.realpath(m.group(1)), os.path.realpath(REPO)), m.group(2)),
                            m.group(3).strip()[:300], [str(a) for a in args])
        raise ToolError("harness exited %d: %s" % (r.returncode, " ".join(map(str, args))))
    return out


# ----------------------------------------------------------------------------- TLC

def _tlc_env(tv=False, extra=None):
    e = dict(os.environ)
    opts = "-Xss1g"
    if tv:
        opts += " -Dtlc2.tool.queue.IStateQueue=StateDeque"
    e["JAVA_TOOL_OPTIONS"] = opts
    if extra:
        e.update(extra)
    return e


_COV = re.compile(r"^<(\w+) line \d+, col \d+ to line \d+, col \d+ of module (\w+)(?: \([\d ]+\))?>: (\d+):(\d+)")


def parse_replay_lines(text):
    beh = []
    seen = set()
    for line in text.splitlines():
        if line.startswith('<<"REPLAY", "'):
            body = line[len('<<"REPLAY", '):].rstrip()
            if body.endswith(">>"):
                body = body[:-2]
            try:
                s = json.loads(body)        # TLA+ string literal == JSON string literal here
                h = hashlib.sha1(s.encode()).hexdigest()
                if h in seen:
                    continue
                seen.add(h)
                beh.append(json.loads(s))
            except ValueError:
                pass
    return beh


def tlc_mc(module, cfg, workers=8, timeout=900, expect_violation=None, name=None, heap="8g",
           collect_replay=False):
    """Exhaustive model checking. Returns dict with states, distinct, depth, actions coverage.
    If expect_violation is given (invariant/property name), the run must FAIL with it
    (negative control / defect demonstration)."""
    meta = os.path.join(TLCDIR, name or ("mc_%s_%d" % (cfg, os.getpid())))
    shutil.rmtree(meta, ignore_errors=True)
    cmd = ["timeout", str(timeout), "java", "-XX:+UseParallelGC", "-Xmx" + heap, "-Xss1g",
           "-cp", "/opt/veriftools/tla/tla2tools.jar:/opt/veriftools/tla/CommunityModules-deps.jar",
           "tlc2.TLC"]
    # use the `tlc` wrapper (it has the CommunityModules classpath)
    cmd = ["timeout", str(timeout), "tlc", "-workers", str(workers), "-coverage", "1",
           "-metadir", meta, "-cleanup", "-noGenerateSpecTE", "-config", cfg, module]
    t0 = time.time()
    r = subprocess.run(cmd, cwd=SPEC, stdout=subprocess.PIPE, stderr=subprocess.STDOUT, text=True,
                       env=_tlc_env())
    out = r.stdout
    shutil.rmtree(meta, ignore_errors=True)
    res = {"cfg": cfg, "module": module, "wall_s": round(time.time() - t0, 1), "actions": {}}
    if collect_replay:
        res["replay"] = parse_replay_lines(out)
        out = "\n".join(ln for ln in out.splitlines() if not ln.startswith('<<"REPLAY"'))
    m = re.search(r"(\d+) states generated, (\d+) distinct states found, (\d+) states left", out)
    if m:
        res["generated"] = int(m.group(1))
        res["distinct"] = int(m.group(2))
        res["left"] = int(m.group(3))
    m = re.search(r"depth of the complete state graph search is (\d+)", out)
    if m:
        res["depth"] = int(m.group(1))
    for line in out.splitlines():
        mm = _COV.match(line.strip())
        if mm:
            a = res["actions"].setdefault(mm.group(1), [0, 0])
            a[0] += int(mm.group(3))
            a[1] += int(mm.group(4))
    viol = re.search(r"Error: Invariant (\w+) is violated", out) or \
        re.search(r"Error: Action property (\w+) is violated", out) or \
        re.search(r"Error: Temporal property (\w+) was violated", out) or \
        re.search(r"Error: Temporal properties were violated", out)
    res["violated"] = (viol.group(1) if viol and viol.groups() else ("temporal" if viol else None))
    if r.returncode == 124:
        raise ToolError("TLC timeout on %s" % cfg)
    if expect_violation:
        if res["violated"] != expect_violation:
            sys.stderr.write(out[-3000:])
            raise ToolError("negative control %s: expected violation of %s, got %s" %
                            (cfg, expect_violation, res["violated"]))
        res["counterexample"] = _extract_cex(out)
        return res
    if res["violated"] or "Error:" in out or "generated" not in res:
        sys.stderr.write(out[-5000:])
        raise ToolError("TLC reported an error on %s (violated=%s): the MODEL does not satisfy its "
                        "own invariants - this is a specification problem, not a verdict about the code"
                        % (cfg, res["violated"]))
    if res.get("left", 0) != 0:
        raise ToolError("TLC did not finish %s" % cfg)
    return res


def _extract_cex(out):
    lines = []
    on = False
    for ln in out.splitlines():
        if ln.startswith("Error: The behavior up to this point is"):
            on = True
            continue
        if on:
            if re.match(r"^\d+ states generated", ln):
                break
            lines.append(ln)
    return "\n".join(lines)[:4000]


def require_actions(res, names):
    """Vacuity gate: every listed action must have been taken at least once."""
    missing = [n for n in names if res["actions"].get(n, [0, 0])[1] == 0]
    if missing:
        raise ToolError("vacuous model run %s: actions never taken: %s" % (res["cfg"], missing))


def tlc_sim(module, cfg, num, depth, seed, timeout=600, name=None):
    """Random simulation; returns the list of exported behaviours (REPLAY lines)."""
    meta = os.path.join(TLCDIR, name or ("sim_%s_%d" % (cfg, os.getpid())))
    shutil.rmtree(meta, ignore_errors=True)
    cmd = ["timeout", str(timeout), "tlc", "-workers", "1", "-simulate", "num=%d" % num,
           "-depth", str(depth), "-seed", str(seed), "-metadir", meta, "-noGenerateSpecTE",
           "-config", cfg, module]
    r = subprocess.run(cmd, cwd=SPEC, stdout=subprocess.PIPE, stderr=subprocess.STDOUT, text=True,
                       env=_tlc_env())
    shutil.rmtree(meta, ignore_errors=True)
    if r.returncode == 124:
        raise ToolError("TLC simulate timeout on %s" % cfg)
    beh = parse_replay_lines(r.stdout)
    if "Error:" in r.stdout and not beh:
        sys.stderr.write(r.stdout[-3000:])
        raise ToolError("TLC simulate failed on %s" % cfg)
    if re.search(r"Error: Invariant (\w+) is violated", r.stdout):
        sys.stderr.write(r.stdout[-3000:])
        raise ToolError("TLC simulate: model invariant violated in %s" % cfg)
    return beh


def tlc_tv(module, cfg, trace_path, timeout=600, name=None, extra_env=None):
    """Trace validation. Returns dict(accepted, lines, matched, rejected_line)."""
    meta = os.path.join(TLCDIR, name or ("tv_%s_%d" % (cfg, os.getpid())))
    shutil.rmtree(meta, ignore_errors=True)
    n_lines = sum(1 for ln in open(trace_path) if ln.strip())
    cmd = ["timeout", str(timeout), "tlc", "-workers", "1", "-metadir", meta, "-cleanup",
           "-noGenerateSpecTE", "-config", cfg, module]
    env = {"TRACE": trace_path}
    if extra_env:
        env.update(extra_env)
    t0 = time.time()
    r = subprocess.run(cmd, cwd=SPEC, stdout=subprocess.PIPE, stderr=subprocess.STDOUT, text=True,
                       env=_tlc_env(tv=True, extra=env))
    shutil.rmtree(meta, ignore_errors=True)
    out = r.stdout
    if r.returncode == 124:
        raise ToolError("TLC trace validation timeout on %s" % cfg)
    res = {"lines": n_lines, "wall_s": round(time.time() - t0, 1)}
    m = re.search(r"(\d+) states generated, (\d+) distinct states found", out)
    res["states"] = int(m.group(2)) if m else 0
    m = re.search(r"depth of the complete state graph search is (\d+)", out)
    depth = int(m.group(1)) if m else 0
    res["matched"] = max(0, depth - 1)
    inv = re.search(r"Error: Invariant (\w+) is violated", out)
    res["invariant_violated"] = inv.group(1) if inv else None
    if "TRACE-REJECTED" in out or inv:
        res["accepted"] = False
    elif "Model checking completed. No error has been found" in out and res["matched"] == n_lines:
        res["accepted"] = True
    elif n_lines == 0:
        res["accepted"] = True
    else:
        sys.stderr.write(out[-4000:])
        raise ToolError("trace validation of %s gave no verdict" % trace_path)
    if not res["accepted"]:
        res["rejected_at"] = res["matched"] + 1
        with open(trace_path) as f:
            lines = [ln for ln in f if ln.strip()]
        idx = res["rejected_at"] - 1
        res["rejected_line"] = json.loads(lines[idx]) if idx < len(lines) else None
        res["context"] = [json.loads(x) for x in lines[max(0, idx - 6):idx]]
    return res


# ----------------------------------------------------------------------------- verdicts

CURRENT = None      # the Check of this run (vcheck reports its completed legs when a later leg is a tool error)


class Check:
    def __init__(self, pid, tier, level="model_checking"):
        global CURRENT
        CURRENT = self
        self.pid = pid
        self.tier = tier
        self.seed = seed_default()
        self.level = level
        self.t0 = time.time()
        self.violations = []      # (key, what, replay_obj)
        self.cov = {"states": 0, "transitions": 0, "traces_validated_against_impl": 0,
                    "evaluations": 0, "distinct_nontrivial": 0, "samples": [],
                    "mc_runs": [], "negative_controls": [], "model_drift": [], "notes": []}
        self.assumptions = []
        self._nontrivial = set()
        try:
            with open(KNOWN) as f:
                self.known = json.load(f)
        except (OSError, ValueError):
            self.known = {"known": [], "fixed": []}

    # -- bookkeeping
    def add_mc(self, res):
        self.cov["states"] += res.get("distinct", 0)
        self.cov["transitions"] += res.get("generated", 0)
        self.cov["mc_runs"].append({k: res[k] for k in ("cfg", "module", "distinct", "generated",
                                                        "depth", "wall_s", "actions") if k in res})

    def add_negative_control(self, what, fired):
        self.cov["negative_controls"].append({"what": what, "fired": bool(fired)})
        if not fired:
            raise ToolError("negative control did not fire: %s" % what)

    def count(self, evaluations, nontrivial_items=()):
        self.cov["evaluations"] += evaluations
        for it in nontrivial_items:
            h = hashlib.sha1(json.dumps(it, sort_keys=True).encode()).hexdigest()
            self._nontrivial.add(h)

    def traces(self, n):
        self.cov["traces_validated_against_impl"] += n

    def sample(self, obj, limit=4):
        if len(self.cov["samples"]) < limit:
            s = json.dumps(obj)
            if len(s) > 3000:
                obj = {"truncated": s[:3000]}
            self.cov["samples"].append(obj)

    def note(self, s):
        self.cov["notes"].append(s)

    def drift(self, s):
        self.cov["model_drift"].append(s)
        print("MODEL-DRIFT: property=%s %s" % (self.pid, s), flush=True)

    def violation(self, key, what, replay_obj):
        self.violations.append((key, what, replay_obj))

    # -- end of run
    def after_tool_error(self, err):
        """A later leg of the check ended as a tool error.  What the legs that DID complete found is a verdict all the
        same: unlisted violations are reported (exit 1); without any, the run stays a tool error (exit 2).  (A change to
        the repository that breaks one leg's set-up - an import that no longer runs, a node that no longer starts - must not
        hide what another leg has already shown.)  No evidence file is written."""
        known_keys = {k["key"] for k in self.known.get("known", []) if k.get("property") == self.pid}
        unlisted = [(k, w, o) for k, w, o in self.violations if k not in known_keys]
        if not unlisted:
            return None
        d = os.path.join(REPLAYS, self.pid)
        os.makedirs(d, exist_ok=True)
        seen = set()
        for key, what, obj in unlisted:
            if key in seen:
                continue
            seen.add(key)
            path = os.path.join(d, "%s_%d.json" % (self.tier, len(seen)))
            with open(path, "w") as f:
                json.dump({"property": self.pid, "key": key, "what": what, "replay": obj, "later_tool_error": str(err)}, f, indent=1)
            print("VIOLATION property=%s replay=%s" % (self.pid, path), flush=True)
            print("  what: %s [%s]" % (what, key), flush=True)
        log("%s %s: %d violation(s) from the completed legs; a later leg failed: %s" % (self.pid, self.tier, len(seen), err))
        return 1

    def finish(self, rule, extra=None, exhaustive=False, checker_cmd=None, trusted_base=None):
        known_keys = {k["key"]: k for k in self.known.get("known", []) if k.get("property") == self.pid}
        unlisted = []
        listed = {}
        for key, what, obj in self.violations:
            if key in known_keys:
                listed.setdefault(key, (what, obj))
            else:
                unlisted.append((key, what, obj))
        for key, (what, obj) in sorted(listed.items()):
            print("KNOWN-FINDING: property=%s %s (%s)" % (self.pid, known_keys[key].get("what", what), key),
                  flush=True)
        d = os.path.join(REPLAYS, self.pid)
        os.makedirs(d, exist_ok=True)
        seen_keys = set()
        n = 0
        for key, what, obj in unlisted:
            if key in seen_keys:
                continue
            seen_keys.add(key)
            n += 1
            path = os.path.join(d, "%s_%d.json" % (self.tier, n))
            with open(path, "w") as f:
                json.dump({"property": self.pid, "key": key, "what": what, "replay": obj}, f, indent=1)
            print("VIOLATION property=%s replay=%s" % (self.pid, path), flush=True)
            print("  what: %s [%s]" % (what, key), flush=True)
        cov = self.cov
        cov["distinct_nontrivial"] = len(self._nontrivial)
        cov["rule"] = rule
        cov["exhaustive"] = bool(exhaustive)
        cov["known_findings_reported"] = sorted(listed.keys())
        if checker_cmd:
            cov["checker_cmd"] = checker_cmd
        cov["trusted_base"] = trusted_base or ["TLC 1.8 (tla2tools)", "rustc/cargo", "the rnverif harness",
                                               "the projection functions named in DESIGN.md 4.2"]
        if extra:
            cov.update(extra)
        if cov["states"] < 1:
            cov["states"] = 0
        ev = {"property_id": self.pid, "tier": self.tier, "seed": self.seed, "level": self.level,
              "coverage": cov, "assumptions": self.assumptions,
              "wall_s": round(time.time() - self.t0, 1), "violations": len(seen_keys)}
        os.makedirs(EVIDENCE, exist_ok=True)
        with open(os.path.join(EVIDENCE, "%s.json" % self.pid), "w") as f:
            json.dump(ev, f, indent=1)
        log("%s %s: %d violation(s), %d known finding(s), %.1fs" %
            (self.pid, self.tier, len(seen_keys), len(listed), time.time() - self.t0))
        return 1 if seen_keys else 0


def write_ndjson(path, items):
    with open(path, "w") as f:
        for it in items:
            f.write(json.dumps(it) + "\n")
    return path


def replay_results(check, behaviours, results, keyfn, what_prefix, nontrivial=lambda b: True):
    """Fold harness replay results into the check: each failing behaviour is a violation whose
    key is computed by keyfn(behaviour, result)."""
    n = 0
    for r in results:
        if r.get("kind") != "result":
            continue
        n += 1
        b = behaviours[r["i"]]
        if not r["ok"]:
            check.violation(keyfn(b, r), "%s: %s (expected %s, got %s) at step %s" %
                            (what_prefix, r.get("what"), json.dumps(r.get("expected")),
                             json.dumps(r.get("actual")), r.get("step")),
                            {"behaviour": b, "mismatch": r})
    check.count(n, [b for b in behaviours if nontrivial(b)])
    check.traces(n)
    return n


class MiniNode:
    """One incarnation of a mini node (`rnverif node run <dir>`), driven line by line from Python."""

    def __init__(self, directory, settle_ms=700, env=None):
        e = dict(os.environ, RUST_LOG="off")
        if env:
            e.update(env)
        self.p = subprocess.Popen([HARNESS, "node", "run", directory, "--settle", str(settle_ms)], stdin=subprocess.PIPE,
                                  stdout=subprocess.PIPE, stderr=subprocess.DEVNULL, text=True, bufsize=1, env=e)
        first = self.p.stdout.readline()
        if not first.strip() or json.loads(first).get("res") != "booted":
            raise ToolError("mini node did not boot: %s" % first.strip())

    def call(self, op):
        self.p.stdin.write(json.dumps(op) + "\n")
        self.p.stdin.flush()
        ln = self.p.stdout.readline()
        if not ln.strip():
            raise ToolError("mini node died at %s" % op.get("op"))
        return json.loads(ln)

    def stop(self):
        """clean stop: stdin closed, the node lets acknowledged writes reach the OS and exits"""
        try:
            self.p.stdin.close()
        except OSError:
            pass
        self.p.wait(timeout=60)

    def kill(self):
        try:
            self.p.kill()
        except OSError:
            pass
        self.p.wait()
